(* C11 lemmas: the scanning loop finds exactly the occurrences; strand dispatch and coordinate
   mapping; palindromic patterns lose nothing by being searched once. *)
From Coq Require Import ZArith Bool List Ascii String Lia.
From DC Require Import Model.Base Model.Loc Model.Bio Model.Pattern Generated.GenTables.
Import ListNotations.
Open Scope Z_scope.

(* ------------------------------------------------------------------ *)
(* generic list / range helpers *)

Lemma zlen_nonneg {X} (l : list X) : 0 <= zlen l.
Proof. unfold zlen. lia. Qed.

Lemma zlen_cons {X} (x : X) (l : list X) : zlen (x :: l) = zlen l + 1.
Proof. unfold zlen. simpl List.length. lia. Qed.

Lemma zlen_nil {X} : zlen (@nil X) = 0.
Proof. reflexivity. Qed.

Lemma my_skipn_skipn {X} (a b : nat) (l : list X) : skipn a (skipn b l) = skipn (b + a) l.
Proof.
  revert l. induction b as [|b IHb]; intros l.
  - reflexivity.
  - destruct l as [|x l].
    + simpl. destruct a; reflexivity.
    + simpl. apply IHb.
Qed.

Lemma pz_in_zrange a b i : In i (zrange a b) <-> a <= i < b.
Proof.
  unfold zrange. rewrite in_map_iff. split.
  - intros [k [Hk Hin]]. apply in_seq in Hin. lia.
  - intros Hi. exists (Z.to_nat (i - a)). split.
    + lia.
    + apply in_seq. lia.
Qed.

Lemma zrange_cons a b : a < b -> zrange a b = a :: zrange (a + 1) b.
Proof.
  intros Hab. unfold zrange.
  replace (Z.to_nat (b - a)) with (S (Z.to_nat (b - (a + 1)))) by lia.
  simpl List.seq. simpl map. f_equal.
  - lia.
  - rewrite <- seq_shift. rewrite map_map. apply map_ext. intros k. lia.
Qed.

Lemma zrange_shift a b c : zrange (a + c) (b + c) = map (fun i => i + c) (zrange a b).
Proof.
  unfold zrange. rewrite map_map.
  replace (b + c - (a + c)) with (b - a) by lia.
  apply map_ext. intros k. lia.
Qed.

Lemma filter_map_comm {X Y} (f : Y -> bool) (g : X -> Y) (l : list X) :
  filter f (map g l) = map g (filter (fun x => f (g x)) l).
Proof.
  induction l as [|x l IHl].
  - reflexivity.
  - simpl. destruct (f (g x)); simpl; rewrite IHl; reflexivity.
Qed.

(* ------------------------------------------------------------------ *)
(* the scanning loop *)

(* all match positions of P in s, the head of s being at absolute position off *)
Fixpoint allm (P : pattern) (s : dna) (off : Z) : list Z :=
  (if matches_at_head P s then [off] else []) ++
  match s with
  | [] => []
  | _ :: s' => allm P s' (off + 1)
  end.

Lemma first_match_allm P : forall s off,
  match first_match P s with
  | None => allm P s off = []
  | Some i => 0 <= i <= zlen s /\
      allm P s off = (off + i) ::
        (if i >=? zlen s then [] else allm P (skipn (Z.to_nat (i + 1)) s) (off + i + 1))
  end.
Proof.
  induction s as [|x s IHs]; intros off.
  - simpl. destruct (matches_at_head P []).
    + split.
      * unfold zlen. simpl. lia.
      * simpl. f_equal. lia.
    + reflexivity.
  - simpl first_match. simpl allm.
    destruct (matches_at_head P (x :: s)) eqn:Hm.
    + split.
      * pose proof (zlen_nonneg (x :: s)). lia.
      * rewrite zlen_cons. pose proof (zlen_nonneg s) as Hn.
        rewrite Z.geb_leb. destruct (zlen s + 1 <=? 0) eqn:Hc; [lia|].
        simpl. f_equal; [lia|]. f_equal. lia.
    + specialize (IHs (off + 1)).
      destruct (first_match P s) as [i|].
      * destruct IHs as [Hi Hall]. simpl option_map. split.
        -- rewrite zlen_cons. lia.
        -- simpl app. rewrite Hall. rewrite zlen_cons. f_equal; [lia|].
           rewrite !Z.geb_leb. unfold Z.succ.
           destruct (zlen s <=? i) eqn:Hc1; destruct (zlen s + 1 <=? i + 1) eqn:Hc2; try lia.
           ++ reflexivity.
           ++ replace (Z.to_nat (i + 1 + 1)) with (S (Z.to_nat (i + 1))) by lia.
              simpl skipn. f_equal. lia.
      * simpl. exact IHs.
Qed.

Lemma scan_allm P : forall fuel s pos, (List.length s < fuel)%nat ->
  scan fuel P s pos = map (fun i => (i, i + psize P)) (allm P s pos).
Proof.
  induction fuel as [|fuel IHf]; intros s pos Hfuel.
  - lia.
  - simpl scan. pose proof (first_match_allm P s pos) as Hfm.
    destruct (first_match P s) as [i|].
    + destruct Hfm as [Hi Hall]. rewrite Hall.
      rewrite Z.geb_leb. destruct (zlen s <=? i) eqn:Hc.
      * reflexivity.
      * simpl map. f_equal. apply IHf.
        rewrite skipn_length. unfold zlen in *. lia.
    + rewrite Hfm. reflexivity.
Qed.

Lemma allm_filter P : forall s a,
  allm P s a =
  filter (fun i => matches_at_head P (skipn (Z.to_nat (i - a)) s)) (zrange a (a + zlen s + 1)).
Proof.
  induction s as [|x s IHs]; intros a.
  - rewrite zlen_nil. rewrite zrange_cons by lia.
    replace (zrange (a + 1) (a + 0 + 1)) with (@nil Z).
    + simpl. replace (Z.to_nat (a - a)) with 0%nat by lia. simpl.
      destruct (matches_at_head P []); reflexivity.
    + unfold zrange. replace (Z.to_nat (a + 0 + 1 - (a + 1))) with 0%nat by lia. reflexivity.
  - pose proof (zlen_nonneg s) as Hn.
    rewrite zlen_cons. rewrite zrange_cons by lia.
    simpl allm. simpl filter.
    replace (Z.to_nat (a - a)) with 0%nat by lia. simpl skipn at 1.
    assert (Htail : allm P s (a + 1) =
      filter (fun i => matches_at_head P (skipn (Z.to_nat (i - a)) (x :: s)))
             (zrange (a + 1) (a + (zlen s + 1) + 1))).
    { rewrite IHs. replace (a + 1 + zlen s + 1) with (a + (zlen s + 1) + 1) by lia.
      apply filter_ext_in. intros i Hin. apply pz_in_zrange in Hin.
      replace (Z.to_nat (i - a)) with (S (Z.to_nat (i - (a + 1)))) by lia.
      reflexivity. }
    rewrite <- Htail.
    destruct (matches_at_head P (x :: s)); reflexivity.
Qed.

Lemma find_in_string_allm P s :
  find_in_string P s = map (fun i => (i, i + psize P)) (allm P s 0).
Proof. unfold find_in_string. apply scan_allm. lia. Qed.

(* the overlap-aware scanning loop returns exactly the positions at which the pattern matches,
   in increasing order, overlapping occurrences included *)
Theorem scan_complete : forall P s, 0 <= psize P ->
  find_in_string P s =
  map (fun i => (i, i + psize P))
      (filter (fun i => matches_at_head P (skipn (Z.to_nat i) s)) (zrange 0 (zlen s + 1))).
Proof.
  intros P s _. rewrite find_in_string_allm. rewrite allm_filter. f_equal.
  apply filter_ext. intros i. replace (i - 0) with i by lia. reflexivity.
Qed.

(* ------------------------------------------------------------------ *)
(* locality of a match *)

Lemma prefix_matches_local : forall p s,
  prefix_matches p s = (zlen p <=? zlen s) && prefix_matches p (firstn (List.length p) s).
Proof.
  induction p as [|c p IHp]; intros s.
  - simpl. pose proof (zlen_nonneg s). rewrite zlen_nil.
    destruct (0 <=? zlen s) eqn:Hc; [reflexivity|lia].
  - destruct s as [|x s].
    + cbn [firstn List.length prefix_matches]. rewrite andb_false_r. reflexivity.
    + simpl List.length. simpl firstn. simpl prefix_matches. rewrite !zlen_cons.
      rewrite (IHp s).
      destruct (zlen p <=? zlen s) eqn:Hc1; destruct (zlen p + 1 <=? zlen s + 1) eqn:Hc2; try lia.
      reflexivity.
Qed.

Lemma repeat_at_head_local : forall n k s, 0 <= n * k ->
  repeat_at_head n k s =
  (n * k <=? zlen s) && repeat_at_head n k (firstn (Z.to_nat (n * k)) s).
Proof.
  intros n k s Hnk. unfold repeat_at_head.
  destruct (n * k <=? zlen s) eqn:Hle; [|reflexivity].
  simpl andb.
  assert (Hlen : List.length (firstn (Z.to_nat (n * k)) s) = Z.to_nat (n * k)).
  { apply firstn_length_le. unfold zlen in Hle. lia. }
  assert (Hz : (n * k <=? zlen (firstn (Z.to_nat (n * k)) s)) = true).
  { unfold zlen. rewrite Hlen. apply Z.leb_le. lia. }
  rewrite Hz. simpl andb.
  rewrite firstn_firstn. rewrite Nat.min_id.
  destruct (Z.to_nat n) as [|n'] eqn:Hn.
  - reflexivity.
  - rewrite firstn_firstn.
    replace (Nat.min (Z.to_nat k) (Z.to_nat (n * k))) with (Z.to_nat k).
    + reflexivity.
    + assert (Hn1 : 1 <= n) by lia.
      assert (Hk0 : 0 <= k) by nia.
      assert (Hkk : k <= n * k) by nia.
      lia.
Qed.

(* a match only looks at the first psize nucleotides and needs that many *)
Theorem matches_at_head_local : forall P s, 0 <= psize P ->
  matches_at_head P s = (psize P <=? zlen s) && matches_at_head P (firstn (Z.to_nat (psize P)) s).
Proof.
  intros P s Hsz. destruct P as [p|n k].
  - simpl. unfold zlen at 3. rewrite Nat2Z.id. apply prefix_matches_local.
  - simpl. simpl in Hsz. apply repeat_at_head_local. exact Hsz.
Qed.

(* ------------------------------------------------------------------ *)
(* finite facts about the generated tables *)

Definition all_nucs : list nuc := [nA; nC; nG; nT].
Lemma in_all_nucs x : In x all_nucs.
Proof. destruct x; simpl; auto. Qed.

Definition alphabet : list ascii := map fst nucleotide_to_regexpr.

Definition regex_iupac_check : bool :=
  forallb (fun c => forallb (fun x => Bool.eqb (letter_matches c x) (iupac_matches c x)) all_nucs)
          alphabet.
Lemma regex_iupac_check_ok : regex_iupac_check = true.
Proof. vm_compute. reflexivity. Qed.

(* regex character classes restricted to ACGT are the IUPAC sets *)
Theorem regex_class_is_iupac : forall c x,
  In c (map fst nucleotide_to_regexpr) -> letter_matches c x = iupac_matches c x.
Proof.
  intros c x Hc.
  pose proof regex_iupac_check_ok as Hchk. unfold regex_iupac_check in Hchk.
  rewrite forallb_forall in Hchk. specialize (Hchk c Hc).
  rewrite forallb_forall in Hchk. specialize (Hchk x (in_all_nucs x)).
  apply Bool.eqb_prop in Hchk. exact Hchk.
Qed.

(* ------------------------------------------------------------------ *)
(* windows of a sequence *)

Lemma zlen_skipn {X} (l : list X) x : 0 <= x <= zlen l ->
  zlen (skipn (Z.to_nat x) l) = zlen l - x.
Proof. intros Hx. unfold zlen in *. rewrite skipn_length. lia. Qed.

Lemma zlen_firstn {X} (l : list X) x : 0 <= x <= zlen l ->
  zlen (firstn (Z.to_nat x) l) = x.
Proof. intros Hx. unfold zlen in *. rewrite firstn_length. lia. Qed.

Lemma zlen_slice {X} (l : list X) a b : 0 <= a <= b -> b <= zlen l ->
  zlen (slice l a b) = b - a.
Proof.
  intros Hab Hb. unfold slice. apply zlen_firstn.
  rewrite zlen_skipn by lia. lia.
Qed.

Lemma pyslice_slice {X} (l : list X) a b : 0 <= a <= b -> b <= zlen l ->
  pyslice l a b = slice l a b.
Proof.
  intros Hab Hb. unfold pyslice, norm_idx.
  destruct (a <? 0) eqn:Ha; [lia|]. destruct (b <? 0) eqn:Hb0; [lia|].
  rewrite !Z.min_r by lia. reflexivity.
Qed.

Lemma slice_window {X} (l : list X) a b x q :
  0 <= a <= b -> b <= zlen l -> 0 <= x -> 0 <= q -> x + q <= b - a ->
  firstn (Z.to_nat q) (skipn (Z.to_nat x) (slice l a b)) = slice l (a + x) (a + x + q).
Proof.
  intros Hab Hb Hx Hq Hxq. unfold slice.
  rewrite skipn_firstn_comm. rewrite firstn_firstn. rewrite my_skipn_skipn.
  f_equal; [lia | f_equal; lia].
Qed.

Lemma zlen_rc s : zlen (rc s) = zlen s.
Proof. unfold rc, zlen. rewrite rev_length, map_length. reflexivity. Qed.

Lemma rc_window w j q : 0 <= j -> 0 <= q -> j + q <= zlen w ->
  firstn (Z.to_nat q) (skipn (Z.to_nat j) (rc w)) =
  rc (firstn (Z.to_nat q) (skipn (Z.to_nat (zlen w - j - q)) w)).
Proof.
  intros Hj Hq Hjq. unfold rc.
  rewrite skipn_rev. rewrite firstn_rev. f_equal.
  rewrite firstn_length. rewrite map_length.
  rewrite skipn_firstn_comm.
  rewrite <- firstn_map, <- skipn_map.
  unfold zlen in *.
  f_equal; [lia | f_equal; lia].
Qed.

Lemma allm_shift P : forall s off c,
  allm P s (off + c) = map (fun i => i + c) (allm P s off).
Proof.
  induction s as [|x s IHs]; intros off c.
  - simpl. destruct (matches_at_head P []); reflexivity.
  - simpl allm. rewrite map_app. f_equal.
    + destruct (matches_at_head P (x :: s)); reflexivity.
    + replace (off + c + 1) with (off + 1 + c) by lia. apply IHs.
Qed.

(* core of the forward case *)
Lemma window_fwd P s a b i : 0 <= psize P -> 0 <= a <= b -> b <= zlen s -> a <= i <= b ->
  matches_at_head P (skipn (Z.to_nat (i - a)) (slice s a b)) =
  (i + psize P <=? b) && occurs_fwd P s i.
Proof.
  intros Hsz Hab Hb Hi.
  rewrite matches_at_head_local by exact Hsz.
  rewrite zlen_skipn by (rewrite zlen_slice by lia; lia).
  rewrite zlen_slice by lia.
  unfold occurs_fwd.
  destruct (0 <=? i) eqn:Hi0; [|lia]. simpl andb.
  rewrite (matches_at_head_local P (skipn (Z.to_nat i) s)) by exact Hsz.
  rewrite zlen_skipn by lia.
  destruct (i + psize P <=? b) eqn:Hc.
  - destruct (psize P <=? b - a - (i - a)) eqn:Hc1; [|lia].
    destruct (psize P <=? zlen s - i) eqn:Hc2; [|lia].
    simpl andb.
    rewrite slice_window by lia. unfold slice.
    f_equal. f_equal; [lia | f_equal; lia].
  - destruct (psize P <=? b - a - (i - a)) eqn:Hc1; [lia|]. reflexivity.
Qed.

(* strand +1: exactly the forward occurrences lying entirely inside the location *)
Theorem find_forced_forward : forall P s a b st, 0 <= psize P -> 0 <= a <= b -> b <= zlen s ->
  find_forced P s (mkLoc a b st) 1 =
  map (fun i => mkLoc i (i + psize P) 1)
      (filter (fun i => (i + psize P <=? b) && occurs_fwd P s i) (zrange a (b + 1))).
Proof.
  intros P s a b st Hsz Hab Hb.
  unfold find_forced. simpl lstart. simpl lend.
  rewrite Z.eqb_refl.
  rewrite pyslice_slice by lia.
  rewrite find_in_string_allm. rewrite map_map. simpl fst. simpl snd.
  transitivity (map (fun i => mkLoc i (i + psize P) 1) (allm P (slice s a b) (0 + a))).
  - rewrite allm_shift. rewrite map_map. apply map_ext. intros i. f_equal. lia.
  - f_equal. rewrite allm_filter. rewrite zlen_slice by lia.
    replace (0 + a + (b - a) + 1) with (b + 1) by lia.
    rewrite Z.add_0_l.
    apply filter_ext_in. intros i Hin. apply pz_in_zrange in Hin.
    apply window_fwd; lia.
Qed.

(* core of the reverse case *)
Lemma window_rev P s a b j : 0 <= psize P -> 0 <= a <= b -> b <= zlen s -> 0 <= j <= b - a ->
  matches_at_head P (skipn (Z.to_nat j) (rc (slice s a b))) =
  (a <=? b - psize P - j) && occurs_rev P s (b - psize P - j).
Proof.
  intros Hsz Hab Hb Hj.
  rewrite matches_at_head_local by exact Hsz.
  rewrite zlen_skipn by (rewrite zlen_rc, zlen_slice by lia; lia).
  rewrite zlen_rc, zlen_slice by lia.
  unfold occurs_rev.
  destruct (a <=? b - psize P - j) eqn:Hc.
  - destruct (psize P <=? b - a - j) eqn:Hc1; [|lia].
    destruct (0 <=? b - psize P - j) eqn:Hc2; [|lia].
    destruct (b - psize P - j + psize P <=? zlen s) eqn:Hc3; [|lia].
    simpl andb.
    rewrite rc_window by (rewrite ?zlen_slice by lia; lia).
    rewrite zlen_slice by lia.
    rewrite slice_window by lia.
    f_equal. f_equal. f_equal; lia.
  - destruct (psize P <=? b - a - j) eqn:Hc1; [lia|]. reflexivity.
Qed.

(* strand -1: exactly the positions whose reverse complement matches, reported on strand -1
   (enumerated from the right end of the location, as the implementation does) *)
Theorem find_forced_reverse : forall P s a b st, 0 <= psize P -> 0 <= a <= b -> b <= zlen s ->
  find_forced P s (mkLoc a b st) (-1) =
  map (fun i => mkLoc i (i + psize P) (-1))
      (filter (fun i => (a <=? i) && occurs_rev P s i)
              (map (fun j => b - psize P - j) (zrange 0 (b - a + 1)))).
Proof.
  intros P s a b st Hsz Hab Hb.
  unfold find_forced. simpl lstart. simpl lend.
  replace (-1 =? 1) with false by reflexivity.
  rewrite pyslice_slice by lia.
  rewrite find_in_string_allm. rewrite map_map. simpl fst. simpl snd.
  rewrite filter_map_comm. rewrite map_map.
  rewrite allm_filter. rewrite zlen_rc, zlen_slice by lia.
  replace (0 + (b - a) + 1) with (b - a + 1) by lia.
  transitivity (map (fun j => mkLoc (b - psize P - j) (b - psize P - j + psize P) (-1))
    (filter (fun i => matches_at_head P (skipn (Z.to_nat (i - 0)) (rc (slice s a b))))
            (zrange 0 (b - a + 1)))).
  - apply map_ext. intros j. f_equal; lia.
  - f_equal. apply filter_ext_in. intros j Hin. apply pz_in_zrange in Hin.
    replace (j - 0) with j by lia.
    apply window_rev; lia.
Qed.

Theorem find_matches_dispatch : forall P s l,
  find_matches P s l =
  if lstrand l =? 1 then find_forced P s l 1
  else if lstrand l =? -1 then (if is_palindromic P then find_forced P s l 1 else find_forced P s l (-1))
  else find_forced P s l 1 ++ (if is_palindromic P then [] else find_forced P s l (-1)).
Proof. reflexivity. Qed.

(* ------------------------------------------------------------------ *)
(* palindromic IUPAC words *)

Lemma list_eqb_ascii_eq : forall r p : list ascii, list_eqb Ascii.eqb r p = true -> r = p.
Proof.
  induction r as [|c r IHr]; intros p Heq; destruct p as [|d p]; simpl in Heq; try discriminate.
  - reflexivity.
  - apply andb_true_iff in Heq. destruct Heq as [Hcd Hrp].
    apply Ascii.eqb_eq in Hcd. subst d. f_equal. apply IHr. exact Hrp.
Qed.

Lemma pm_app : forall p1 w1 p2 w2, List.length p1 = List.length w1 ->
  prefix_matches (p1 ++ p2) (w1 ++ w2) = prefix_matches p1 w1 && prefix_matches p2 w2.
Proof.
  induction p1 as [|c p1 IHp]; intros w1 p2 w2 Hlen; destruct w1 as [|x w1];
    simpl in Hlen; try discriminate.
  - simpl. reflexivity.
  - simpl. rewrite IHp by lia. rewrite andb_assoc. reflexivity.
Qed.

Lemma pm_rev : forall p w, List.length p = List.length w ->
  prefix_matches (rev p) (rev w) = prefix_matches p w.
Proof.
  induction p as [|c p IHp]; intros w Hlen; destruct w as [|x w];
    simpl in Hlen; try discriminate.
  - reflexivity.
  - simpl rev. rewrite pm_app by (rewrite !rev_length; lia).
    rewrite IHp by lia. simpl. rewrite andb_true_r. apply andb_comm.
Qed.

Definition comp_check : bool :=
  forallb (fun c =>
    (match comp_csv c with
     | Some d => forallb (fun x => Bool.eqb (letter_matches d (ncomp x)) (letter_matches c x)) all_nucs
     | None => true
     end) &&
    forallb (fun x => Bool.eqb (letter_matches (comp_bio c) (ncomp x)) (letter_matches c x)) all_nucs)
  alphabet.
Lemma comp_check_ok : comp_check = true.
Proof. vm_compute. reflexivity. Qed.

Lemma comp_csv_ok c d x : In c alphabet -> comp_csv c = Some d ->
  letter_matches d (ncomp x) = letter_matches c x.
Proof.
  intros Hc Hd. pose proof comp_check_ok as Hchk. unfold comp_check in Hchk.
  rewrite forallb_forall in Hchk. specialize (Hchk c Hc).
  apply andb_true_iff in Hchk. destruct Hchk as [Hcsv _].
  rewrite Hd in Hcsv. rewrite forallb_forall in Hcsv.
  specialize (Hcsv x (in_all_nucs x)). apply Bool.eqb_prop in Hcsv. exact Hcsv.
Qed.

Lemma comp_bio_ok c x : In c alphabet ->
  letter_matches (comp_bio c) (ncomp x) = letter_matches c x.
Proof.
  intros Hc. pose proof comp_check_ok as Hchk. unfold comp_check in Hchk.
  rewrite forallb_forall in Hchk. specialize (Hchk c Hc).
  apply andb_true_iff in Hchk. destruct Hchk as [_ Hbio].
  rewrite forallb_forall in Hbio.
  specialize (Hbio x (in_all_nucs x)). apply Bool.eqb_prop in Hbio. exact Hbio.
Qed.

Lemma pm_mapM_csv : forall p q w, Forall (fun c => In c alphabet) p ->
  mapM comp_csv p = Some q ->
  prefix_matches q (map ncomp w) = prefix_matches p w /\ List.length q = List.length p.
Proof.
  induction p as [|c p IHp]; intros q w Hall Hq.
  - simpl in Hq. injection Hq as Hq. subst q. split; reflexivity.
  - inversion Hall as [|c' p' Hc Hp]; subst.
    cbn [mapM] in Hq.
    destruct (comp_csv c) as [d|] eqn:Hd; [|discriminate].
    destruct (mapM comp_csv p) as [r|] eqn:Hr; [|discriminate].
    injection Hq as Hq. subst q.
    split.
    + destruct w as [|x w].
      * reflexivity.
      * cbn [map prefix_matches]. rewrite (comp_csv_ok c d x Hc Hd).
        f_equal. apply (IHp r w Hp eq_refl).
    + cbn [List.length]. f_equal. apply (IHp r [] Hp eq_refl).
Qed.

Lemma pm_map_bio : forall p w, Forall (fun c => In c alphabet) p ->
  prefix_matches (map comp_bio p) (map ncomp w) = prefix_matches p w.
Proof.
  induction p as [|c p IHp]; intros w Hall.
  - reflexivity.
  - inversion Hall as [|c' p' Hc Hp]; subst.
    destruct w as [|x w].
    + reflexivity.
    + cbn [map prefix_matches]. rewrite (comp_bio_ok c x Hc). f_equal. apply IHp. exact Hp.
Qed.

Lemma pm_complement p q w : Forall (fun c => In c alphabet) p -> complement p = Some q ->
  prefix_matches q (map ncomp w) = prefix_matches p w /\ List.length q = List.length p.
Proof.
  intros Hall Hq. unfold complement in Hq.
  destruct (zlen p <=? complement_switch).
  - apply pm_mapM_csv; assumption.
  - injection Hq as Hq. subst q. split.
    + apply pm_map_bio. exact Hall.
    + apply map_length.
Qed.

Lemma pm_rc_pal p w : Forall (fun c => In c alphabet) p ->
  is_palindromic (PDna p) = true -> List.length w = List.length p ->
  prefix_matches p (rc w) = prefix_matches p w.
Proof.
  intros Hall Hpal Hlen. unfold is_palindromic, reverse_complement in Hpal.
  destruct (complement p) as [q|] eqn:Hq; cbn [option_map] in Hpal; [|discriminate].
  apply list_eqb_ascii_eq in Hpal.
  destruct (pm_complement p q w Hall Hq) as [Hpm Hlq].
  rewrite <- Hpm. rewrite <- Hpal. unfold rc.
  apply pm_rev. rewrite map_length. lia.
Qed.

(* a palindromic IUPAC word occurs on the reverse strand exactly where it occurs forward.
   STATEMENT CHANGED: side condition [1 <= psize (PDna p) \/ i <= zlen s] added; without it the
   empty word at a position beyond the end of s is a counterexample
   (p = [], s = [], i = 1: occurs_rev = false, occurs_fwd = true). *)
Theorem palindromic_reverse_is_forward : forall p s i,
  Forall (fun c => In c (map fst nucleotide_to_regexpr)) p ->
  is_palindromic (PDna p) = true -> 0 <= i ->
  1 <= psize (PDna p) \/ i <= zlen s ->
  occurs_rev (PDna p) s i = occurs_fwd (PDna p) s i.
Proof.
  intros p s i Hall Hpal Hi Hside.
  unfold occurs_rev, occurs_fwd. cbn [psize matches_at_head] in *.
  destruct (0 <=? i) eqn:Hi0; [|lia]. simpl andb.
  rewrite (prefix_matches_local p (skipn (Z.to_nat i) s)).
  destruct (i + zlen p <=? zlen s) eqn:Hc.
  - pose proof (zlen_nonneg p) as Hp0.
    rewrite zlen_skipn by lia.
    destruct (zlen p <=? zlen s - i) eqn:Hc1; [|lia]. simpl andb.
    unfold slice. replace (Z.to_nat (i + zlen p - i)) with (List.length p) by (unfold zlen; lia).
    apply pm_rc_pal; try assumption.
    apply firstn_length_le. rewrite skipn_length. unfold zlen in *. lia.
  - simpl andb.
    destruct (zlen p <=? zlen (skipn (Z.to_nat i) s)) eqn:Hc1; [|reflexivity].
    exfalso. apply Z.leb_le in Hc1. apply Z.leb_gt in Hc.
    unfold zlen in *. rewrite skipn_length in Hc1. lia.
Qed.

(* ------------------------------------------------------------------ *)
(* direct repeats *)

Lemma nuc_eqb_eq x y : nuc_eqb x y = true <-> x = y.
Proof. destruct x; destruct y; simpl; split; intros H; try reflexivity; discriminate. Qed.

Lemma seq_eqb_eq : forall s t, seq_eqb s t = true <-> s = t.
Proof.
  induction s as [|x s IHs]; intros t; destruct t as [|y t]; simpl.
  - split; reflexivity.
  - split; discriminate.
  - split; discriminate.
  - rewrite andb_true_iff. rewrite nuc_eqb_eq. rewrite IHs. split.
    + intros [Hxy Hst]. subst. reflexivity.
    + intros Heq. injection Heq as Hxy Hst. split; assumption.
Qed.

Lemma copies_length N (u : dna) : List.length (copies N u) = (N * List.length u)%nat.
Proof.
  induction N as [|N IHN].
  - reflexivity.
  - simpl. rewrite app_length. rewrite IHN. reflexivity.
Qed.

Lemma copies_comm N (u : dna) : copies N u ++ u = u ++ copies N u.
Proof.
  induction N as [|N IHN].
  - simpl. rewrite app_nil_r. reflexivity.
  - simpl. rewrite <- app_assoc. rewrite IHN. reflexivity.
Qed.

Lemma rev_copies N (u : dna) : rev (copies N u) = copies N (rev u).
Proof.
  induction N as [|N IHN].
  - reflexivity.
  - simpl. rewrite rev_app_distr. rewrite IHN. apply copies_comm.
Qed.

Lemma map_copies (f : nuc -> nuc) N (u : dna) : map f (copies N u) = copies N (map f u).
Proof.
  induction N as [|N IHN].
  - reflexivity.
  - simpl. rewrite map_app. rewrite IHN. reflexivity.
Qed.

Lemma rc_copies N u : rc (copies N u) = copies N (rc u).
Proof. unfold rc. rewrite map_copies. apply rev_copies. Qed.

Lemma firstn_copies N (u : dna) : firstn (List.length u) (copies (S N) u) = u.
Proof.
  simpl. replace (List.length u) with (List.length u + 0)%nat by lia.
  rewrite firstn_app_2. simpl. apply app_nil_r.
Qed.

Lemma ncomp_involutive x : ncomp (ncomp x) = x.
Proof. destruct x; reflexivity. Qed.

Lemma rc_involutive w : rc (rc w) = w.
Proof.
  unfold rc. rewrite map_rev. rewrite rev_involutive. rewrite map_map.
  rewrite <- (map_id w) at 2. apply map_ext. intros x. apply ncomp_involutive.
Qed.

Lemma rc_length w : List.length (rc w) = List.length w.
Proof. unfold rc. rewrite rev_length. apply map_length. Qed.

Lemma rep_dir N K w : List.length w = (N * K)%nat ->
  w = copies N (firstn K w) -> rc w = copies N (firstn K (rc w)).
Proof.
  intros Hlen Hw. destruct N as [|N].
  - destruct w as [|x w]; [reflexivity|]. simpl in Hlen. discriminate.
  - remember (firstn K w) as u eqn:Hu.
    assert (Hul : List.length u = K).
    { rewrite Hu. apply firstn_length_le. rewrite Hlen. simpl. lia. }
    rewrite Hw. rewrite rc_copies.
    rewrite <- Hul. rewrite <- (rc_length u). rewrite firstn_copies. reflexivity.
Qed.

Lemma rep_iff N K w : List.length w = (N * K)%nat ->
  w = copies N (firstn K w) <-> rc w = copies N (firstn K (rc w)).
Proof.
  intros Hlen. split.
  - apply rep_dir. exact Hlen.
  - intros Hrc. apply rep_dir in Hrc.
    + rewrite rc_involutive in Hrc. exact Hrc.
    + rewrite rc_length. exact Hlen.
Qed.

Lemma repeat_rc n k w : 0 <= n -> 0 <= k -> zlen w = n * k ->
  repeat_at_head n k (rc w) = repeat_at_head n k w.
Proof.
  intros Hn Hk Hlen. unfold repeat_at_head. rewrite zlen_rc. f_equal.
  assert (Hl : List.length w = (Z.to_nat n * Z.to_nat k)%nat).
  { rewrite <- Z2Nat.inj_mul by assumption. unfold zlen in Hlen. lia. }
  rewrite (@firstn_all2 _ (Z.to_nat (n * k)) w) by (unfold zlen in Hlen; lia).
  rewrite (@firstn_all2 _ (Z.to_nat (n * k)) (rc w))
    by (rewrite rc_length; unfold zlen in Hlen; lia).
  apply Bool.eq_iff_eq_true. rewrite !seq_eqb_eq.
  symmetry. apply rep_iff. exact Hl.
Qed.

(* a direct repeat on one strand is a direct repeat at the same span on the other strand
   (justifies is_palyndromic=True of RepeatedKmerPattern).
   STATEMENT CHANGED: side condition [1 <= psize (PRepeat n k) \/ i <= zlen s] added; without it
   an empty repeat at a position beyond the end of s is a counterexample
   (n = 0, k = 0, s = [], i = 1: occurs_rev = false, occurs_fwd = true). *)
Theorem repeat_reverse_is_forward : forall n k s i, 0 <= n -> 0 <= k -> 0 <= i ->
  1 <= psize (PRepeat n k) \/ i <= zlen s ->
  occurs_rev (PRepeat n k) s i = occurs_fwd (PRepeat n k) s i.
Proof.
  intros n k s i Hn Hk Hi Hside.
  assert (Hnk : 0 <= n * k) by nia.
  unfold occurs_rev, occurs_fwd. cbn [psize matches_at_head] in *.
  destruct (0 <=? i) eqn:Hi0; [|lia]. simpl andb.
  rewrite (repeat_at_head_local n k (skipn (Z.to_nat i) s)) by exact Hnk.
  destruct (i + n * k <=? zlen s) eqn:Hc.
  - rewrite zlen_skipn by lia.
    destruct (n * k <=? zlen s - i) eqn:Hc1; [|lia]. simpl andb.
    unfold slice. replace (i + n * k - i) with (n * k) by lia.
    apply repeat_rc; try assumption.
    apply zlen_firstn. rewrite zlen_skipn by lia. lia.
  - simpl andb.
    destruct (n * k <=? zlen (skipn (Z.to_nat i) s)) eqn:Hc1; [|reflexivity].
    exfalso. apply Z.leb_le in Hc1. apply Z.leb_gt in Hc.
    unfold zlen in *. rewrite skipn_length in Hc1. lia.
Qed.
