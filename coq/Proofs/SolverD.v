(* Solver lemmas, part D (C02): optimize() and its building blocks never trade a satisfied
   constraint for score, given that every constraint's localization is sound (the C08 law) and
   that constraints flagged enforced_by_nucleotide_restrictions are guarded by the mutation space. *)
From Coq Require Import ZArith QArith Bool List Lia Sorting.Sorted.
From DC Require Import Model.Base Model.Loc Model.MSpace Model.Solver
                       Proofs.MSpaceDefs Proofs.MSpaceA Proofs.MSpaceB Proofs.MSpaceC Proofs.SolverA Proofs.SolverB.
Import ListNotations.
Open Scope Z_scope.

Section SolverD.
  Variable spec : Type.
  Variable spec_eqb : spec -> spec -> bool.
  Variable ev : spec -> dna -> Q * option (list loc).
  Variable localize : spec -> loc -> bool -> dna -> lres spec.
  Variable accepts_rh : spec -> bool.
  Variable reinit : bool -> spec -> dna -> spec.
  Variable enforced : spec -> bool.
  Variable priority : spec -> Z.
  Variable best : spec -> option Q.
  Variable boost : spec -> Q.
  Variable passive : spec -> bool.
  Variable heuristic : spec -> option (settings -> lproblem spec -> state spec -> outcome * state spec).
  Variable opt_heuristic : spec -> option (settings -> lproblem spec -> state spec -> outcome * state spec).

  Notation optimize :=
    (optimize spec ev localize reinit enforced best boost passive opt_heuristic).
  Notation optimize_objective :=
    (optimize_objective spec ev localize reinit enforced best boost opt_heuristic).
  Notation optimize_exhaustive := (optimize_exhaustive spec ev enforced best boost).
  Notation optimize_random := (optimize_random spec ev enforced best boost).

  Variable space : mspace.
  Variable n : Z.
  Hypothesis space_wf : wf_space space.
  Hypothesis space_fits : forall c, In c (choices_list space) -> cend c <= n.

  Definition passes_c (c : spec) (s : dna) : Prop := passesq (fst (ev c s)) = true.
  Definition agree_out (a b : Z) (s s' : dna) : Prop :=
    zlen s = zlen s' /\
    forall i, 0 <= i -> ~ (a <= i < b) -> nth_error s (Z.to_nat i) = nth_error s' (Z.to_nat i).

  (* soundness of a constraint's localization, as the optimiser relies on it: c passes on s; s' is a
     usable sequence that differs from s only inside [a,b); then if the localized, re-initialised
     constraint is either skipped because flagged enforced, or passes on s', c passes on s'.
     (For built-ins: flagged enforced => guaranteed by membership in the space, C04; otherwise C08.) *)
  Definition sound (c : spec) : Prop :=
    forall a b s s', 0 <= a -> a < b -> b <= n ->
      good space n s -> good space n s' -> agree_out a b s s' -> passes_c c s ->
      match localize c (mkLoc a b 0) true s with
      | LSome c' => let c'' := reinit false c' s in
                    (enforced c'' = false -> passes_c c'' s') -> passes_c c s'
      | LNone => passes_c c s'
      | LError => True
      end.

  (* ------------------------------------------------------------------------------------ *)
  (* helper lemmas *)
  Notation good_ := (good space n).
  Notation sgood := (state_good spec space n).

  Lemma agree_out_refl : forall a b s, agree_out a b s s.
  Proof. intros a b s. split; [reflexivity | intros; reflexivity]. Qed.

  Lemma agree_out_trans : forall a b s t u, agree_out a b s t -> agree_out a b t u -> agree_out a b s u.
  Proof.
    intros a b s t u [L1 O1] [L2 O2]. split; [congruence|].
    intros i Hi Hout. rewrite (O1 i Hi Hout). apply O2; assumption.
  Qed.

  (* positions outside every multichoice segment are outside the span *)
  Lemma span_agree : forall ms a b s t, wf_choices ms -> choices_span ms = Some (a, b) ->
    zlen t = zlen s ->
    (forall i, 0 <= i -> (forall c, In c (multichoices ms) -> ~ (cstart c <= i < cend c)) ->
               nth_error t (Z.to_nat i) = nth_error s (Z.to_nat i)) ->
    agree_out a b s t.
  Proof.
    intros ms a b s t [W1 W2] Hspan HL HO. split; [symmetry; exact HL|].
    intros i Hi Hout. symmetry. apply HO; [exact Hi|].
    intros c Hc Hseg. apply Hout.
    assert (Hss : StronglySorted ch_lt (multichoices ms)).
    { unfold multichoices. apply b_ss_filter. exact W2. }
    assert (Hpos : Forall (fun c => cstart c < cend c) (multichoices ms)).
    { apply Forall_forall. intros c' Hc'. unfold multichoices in Hc'. apply filter_In in Hc'.
      rewrite Forall_forall in W1. destruct (W1 c' (proj1 Hc')) as (Hw & _ & _). lia. }
    unfold choices_span in Hspan.
    destruct (multichoices ms) as [|c0 mc] eqn:E; [discriminate|].
    inversion Hspan; subst a b.
    assert (Hlast : cend c <= cend (last (c0 :: mc) c0)).
    { apply b_ss_last; assumption. }
    assert (Hfirst : cstart c0 <= cstart c).
    { destruct Hc as [Hc | Hc].
      - subst c. lia.
      - apply StronglySorted_inv in Hss. destruct Hss as [_ Hlt]. rewrite Forall_forall in Hlt.
        specialize (Hlt c Hc). unfold ch_lt in Hlt.
        inversion Hpos as [|x l Hx Hl]; subst x l. lia. }
    change (cstart c0 <= i < cend (last (c0 :: mc) c0)). lia.
  Qed.

  Lemma span_multichoices : forall ms a b, choices_span ms = Some (a, b) -> multichoices ms <> [].
  Proof.
    intros ms a b H E. unfold choices_span in H. rewrite E in H. discriminate.
  Qed.

  (* the span of a localized space is a non-empty window inside the sequence *)
  Lemma last_In_ne : forall (l : list choice) d, l <> [] -> In (last l d) l.
  Proof.
    induction l as [|x l IH]; intros d H; [congruence|].
    destruct l as [|y l]; [left; reflexivity|].
    right. change (In (last (y :: l) d) (y :: l)). apply IH. discriminate.
  Qed.

  Lemma span_in_range : forall la lb a b,
    choices_span (ms_localized space la lb) = Some (a, b) -> 0 <= a /\ a < b /\ b <= n.
  Proof.
    intros la lb a b Hspan.
    destruct (okspace_localized space n space_wf space_fits la lb) as ([W1 W2] & Hfit & _ & _).
    set (ms := ms_localized space la lb) in *.
    assert (Hss : StronglySorted ch_lt (multichoices ms))
      by (unfold multichoices; apply b_ss_filter; exact W2).
    assert (Hin0 : forall c, In c (multichoices ms) -> 0 <= cstart c < cend c /\ cend c <= n).
    { intros c Hc. pose proof (multichoices_In _ _ Hc) as Hc'. split.
      - rewrite Forall_forall in W1. destruct (W1 c Hc') as (Hw & _ & _). exact Hw.
      - apply Hfit. exact Hc'. }
    assert (Hpos : Forall (fun c => cstart c < cend c) (multichoices ms)).
    { apply Forall_forall. intros c Hc. destruct (Hin0 c Hc) as [Hw _]. lia. }
    unfold choices_span in Hspan.
    destruct (multichoices ms) as [|c0 mc] eqn:E; [discriminate|].
    assert (Ea : a = cstart c0) by (inversion Hspan; reflexivity).
    assert (Eb : b = cend (last (c0 :: mc) c0)) by (inversion Hspan; reflexivity).
    assert (H0 : In c0 (c0 :: mc)) by (left; reflexivity).
    assert (Hl : In (last (c0 :: mc) c0) (c0 :: mc)) by (apply last_In_ne; discriminate).
    pose proof (Hin0 _ H0) as [Hw0 _].
    pose proof (b_ss_last (c0 :: mc) c0 c0 Hss Hpos H0) as Hb0.
    pose proof (Hin0 _ Hl) as [_ Hfl]. rewrite <- Eb in Hfl, Hb0.
    subst a. lia.
  Qed.

  (* what the checks establish, and that evaluations never touch the sequence *)
  Lemma acp_spec : forall cs st b st',
    all_constraints_pass spec ev enforced cs st = (b, st') ->
    cur _ st' = cur _ st /\
    (b = true -> forall c, In c cs -> enforced c = false -> passes_c c (cur _ st)).
  Proof.
    intros cs st b st' H. unfold all_constraints_pass in H.
    destruct (all_pass_spec spec ev _ _ _ _ H) as (Hc & _ & Hb).
    split; [exact Hc|]. intros Hb1 c Hin Henf.
    apply (proj1 Hb Hb1). apply filter_In. split; [exact Hin | rewrite Henf; reflexivity].
  Qed.

  Lemma scores_sum_cur : forall objs st q st',
    scores_sum spec ev boost objs st = (q, st') -> cur _ st' = cur _ st.
  Proof.
    induction objs as [|ob objs IH]; intros st q st' H.
    - simpl in H. inversion H; subst. reflexivity.
    - cbn [scores_sum] in H. unfold evaluate in H.
      match type of H with context [scores_sum spec ev boost objs ?x] =>
        destruct (scores_sum spec ev boost objs x) as [r st2] eqn:E end.
      inversion H; subst. apply IH in E. simpl in E. exact E.
  Qed.

  Lemma evaluations_cur : forall cs st r st',
    evaluations spec ev enforced cs st = (r, st') -> cur _ st' = cur _ st.
  Proof.
    induction cs as [|c cs IH]; intros st r st' H.
    - simpl in H. inversion H; subst. reflexivity.
    - cbn [evaluations] in H. destruct (enforced c).
      + destruct (evaluations spec ev enforced cs st) as [r1 st1] eqn:E.
        inversion H; subst. eapply IH; eauto.
      + unfold evaluate in H.
        match type of H with context [evaluations spec ev enforced cs ?x] =>
          destruct (evaluations spec ev enforced cs x) as [r1 st1] eqn:E end.
        inversion H; subst. apply IH in E. simpl in E. exact E.
  Qed.

  (* a sequence on which all_constraints_pass(autopass) succeeds *)
  Definition ok_seq (p : lproblem spec) (s : dna) : Prop :=
    forall c, In c (lp_constraints _ p) -> enforced c = false -> passes_c c s.

  (* ---- exhaustive search: the best sequence is the initial one or an accepted candidate *)
  Lemma opt_exhaustive_loop_inv : forall (C : dna -> Prop) p bs vs bsc bseq st sc' bseq' st',
    (forall v, In v vs -> C v) -> C bseq -> ok_seq p bseq ->
    opt_exhaustive_loop spec ev enforced boost p bs vs bsc bseq st = (sc', bseq', st') ->
    C bseq' /\ ok_seq p bseq'.
  Proof.
    intros C p bs. induction vs as [|v vs IH]; intros bsc bseq st sc' bseq' st' Hvs Hb Hok H.
    - simpl in H. inversion H; subst. split; assumption.
    - cbn [opt_exhaustive_loop] in H.
      assert (Hv : C v) by (apply Hvs; left; reflexivity).
      assert (Hvs' : forall v', In v' vs -> C v') by (intros v' Hv'; apply Hvs; right; exact Hv').
      destruct (all_constraints_pass spec ev enforced (lp_constraints spec p) (assign spec st v))
        as [ok st2] eqn:E2.
      destruct (acp_spec _ _ _ _ E2) as [Hc2 Hp2]. simpl in Hc2, Hp2.
      destruct ok; [|eapply IH; [exact Hvs' | exact Hb | exact Hok | exact H]].
      assert (Hokv : ok_seq p v) by (intros c Hc He; apply Hp2; auto).
      destruct (scores_sum spec ev boost (lp_objectives spec p) st2) as [sc st3] eqn:E3.
      destruct (Qlt_le_dec bsc sc); [|eapply IH; [exact Hvs' | exact Hb | exact Hok | exact H]].
      destruct bs as [b|]; [|eapply IH; [exact Hvs' | exact Hv | exact Hokv | exact H]].
      destruct (Qle_bool b sc); [|eapply IH; [exact Hvs' | exact Hv | exact Hokv | exact H]].
      inversion H; subst. split; assumption.
  Qed.

  Lemma optimize_exhaustive_inv : forall (C : dna -> Prop) p st o st',
    (forall vs, all_variants (lp_space _ p) (cur _ st) = Some vs -> forall v, In v vs -> C v) ->
    C (cur _ st) ->
    optimize_exhaustive p st = (o, st') ->
    cur _ st' = cur _ st \/ (C (cur _ st') /\ ok_seq p (cur _ st')).
  Proof.
    intros C p st o st' Hvs HC H. unfold Solver.optimize_exhaustive in H.
    destruct (all_constraints_pass spec ev enforced (lp_constraints spec p) st) as [ok st1] eqn:E1.
    destruct (acp_spec _ _ _ _ E1) as [Hc1 Hp1].
    destruct ok; simpl in H.
    - destruct (scores_sum spec ev boost (lp_objectives spec p) st1) as [sc st2] eqn:E2.
      pose proof (scores_sum_cur _ _ _ _ E2) as Hc2.
      assert (Hc : cur _ st2 = cur _ st) by congruence.
      rewrite Hc in H.
      destruct (all_variants (lp_space spec p) (cur spec st)) as [vs|] eqn:Ev.
      + destruct (opt_exhaustive_loop spec ev enforced boost p (sum_best spec best boost (lp_objectives spec p) true)
                    vs sc (cur spec st) st2) as [[sc' bseq] st3] eqn:El.
        inversion H; subst. right. simpl.
        eapply opt_exhaustive_loop_inv; [exact (Hvs vs eq_refl) | exact HC | | exact El].
        intros c Hin He. apply Hp1; auto.
      + inversion H; subst. left. exact Hc.
    - inversion H; subst. left.
      destruct (evaluations spec ev enforced (lp_constraints spec p) st1) as [r st2] eqn:E2. simpl.
      rewrite (evaluations_cur _ _ _ _ E2). exact Hc1.
  Qed.

  (* ---- random search: the current sequence is the initial one or an accepted candidate *)
  Lemma opt_random_loop_inv : forall (C : dna -> Prop) p cfg bs,
    (forall st st1, C (cur _ st) -> mutate spec p (st_mutations cfg) st = Some st1 -> C (cur _ st1)) ->
    forall iters score stag st o st', C (cur _ st) -> ok_seq p (cur _ st) ->
    opt_random_loop spec ev enforced boost iters p cfg bs score stag st = (o, st') ->
    C (cur _ st') /\ ok_seq p (cur _ st').
  Proof.
    intros C p cfg bs Hmut. induction iters as [|it IH]; intros score stag st o st' HC Hok H.
    - simpl in H. inversion H; subst. split; assumption.
    - cbn [opt_random_loop] in H.
      destruct (match bs with Some b => Qle_bool b score | None => false end);
        [inversion H; subst; split; assumption|].
      destruct (match st_stagnation cfg with Some t => t <? stag | None => false end);
        [inversion H; subst; split; assumption|].
      destruct (mutate spec p (st_mutations cfg) st) as [st1|] eqn:Em;
        [|inversion H; subst; split; assumption].
      pose proof (Hmut _ _ HC Em) as HC1.
      destruct (all_constraints_pass spec ev enforced (lp_constraints spec p) st1) as [ok st2] eqn:E2.
      destruct (acp_spec _ _ _ _ E2) as [Hc2 Hp2].
      destruct ok.
      + destruct (scores_sum spec ev boost (lp_objectives spec p) st2) as [sc st3] eqn:E3.
        pose proof (scores_sum_cur _ _ _ _ E3) as Hc3.
        destruct (Qlt_le_dec score sc).
        * eapply IH; [| | exact H].
          -- rewrite Hc3, Hc2. exact HC1.
          -- rewrite Hc3, Hc2. intros c Hin He. apply Hp2; auto.
        * eapply IH; [| | exact H]; simpl; assumption.
      + eapply IH; [| | exact H]; simpl; assumption.
  Qed.

  Lemma optimize_random_inv : forall (C : dna -> Prop) cfg p st o st',
    (forall st st1, C (cur _ st) -> mutate spec p (st_mutations cfg) st = Some st1 -> C (cur _ st1)) ->
    C (cur _ st) ->
    optimize_random cfg p st = (o, st') ->
    cur _ st' = cur _ st \/ (C (cur _ st') /\ ok_seq p (cur _ st')).
  Proof.
    intros C cfg p st o st' Hmut HC H. unfold Solver.optimize_random in H.
    destruct (all_constraints_pass spec ev enforced (lp_constraints spec p) st) as [ok st1] eqn:E1.
    destruct (acp_spec _ _ _ _ E1) as [Hc1 Hp1].
    destruct ok; simpl in H.
    - destruct (scores_sum spec ev boost (lp_objectives spec p) st1) as [sc st2] eqn:E2.
      pose proof (scores_sum_cur _ _ _ _ E2) as Hc2.
      assert (Hc : cur _ st2 = cur _ st) by congruence.
      right. eapply opt_random_loop_inv; [exact Hmut | | | exact H].
      + rewrite Hc. exact HC.
      + rewrite Hc. intros c Hin He. apply Hp1; auto.
    - inversion H; subst. left.
      destruct (evaluations spec ev enforced (lp_constraints spec p) st1) as [r st2] eqn:E2. simpl.
      rewrite (evaluations_cur _ _ _ _ E2). exact Hc1.
  Qed.

  (* ---- one random mutation step *)
  Lemma mutate_facts : forall (p : lproblem spec) k st st1,
    okspace space n (lp_space _ p) -> good_ (cur _ st) -> mutate spec p k st = Some st1 ->
    good_ (cur _ st1) /\ zlen (cur _ st1) = zlen (cur _ st) /\
    (forall i, 0 <= i -> (forall c, In c (multichoices (lp_space _ p)) -> ~ (cstart c <= i < cend c)) ->
       nth_error (cur _ st1) (Z.to_nat i) = nth_error (cur _ st) (Z.to_nat i)).
  Proof.
    intros p k st st1 (WF & Hfit & Hmem & Hvar) Hc H. unfold mutate in H.
    destruct (apply_random_mutations (lp_space spec p) k (cur spec st) (rng spec st)) as [[s' r']|] eqn:E;
      [|discriminate].
    inversion H; subst; clear H. simpl.
    apply apply_random_mutations_member in E; [| exact WF | apply Hmem, Hc | ].
    - destruct E as (HL & HM & HO). split; [|split; assumption].
      apply (Hvar (cur spec st) s' Hc). split; [exact HL | split; [| exact HO]].
      intros c Hc'. unfold member in HM. rewrite Forall_forall in HM. apply HM, multichoices_In, Hc'.
    - intros c Hc'. destruct Hc as [Hn _]. rewrite Hn. apply Hfit, Hc'.
  Qed.

  (* ---- the local run of optimize_locations *)
  Lemma local_run : forall cfg x y a b (p : lproblem spec) st0 o lst,
    lp_space _ p = ms_localized space x y ->
    choices_span (ms_localized space x y) = Some (a, b) ->
    good_ (cur _ st0) ->
    (optimize_exhaustive p st0 = (o, lst) \/ optimize_random cfg p st0 = (o, lst)) ->
    cur _ lst = cur _ st0 \/
    (good_ (cur _ lst) /\ agree_out a b (cur _ st0) (cur _ lst) /\ ok_seq p (cur _ lst)).
  Proof.
    intros cfg x y a b p st0 o lst Hsp Hspan Hg0 Hrun.
    pose proof (okspace_localized space n space_wf space_fits x y) as Hok.
    rewrite <- Hsp in Hok, Hspan.
    set (C := fun s => good_ s /\ agree_out a b (cur _ st0) s).
    assert (HC0 : C (cur _ st0)) by (split; [exact Hg0 | apply agree_out_refl]).
    assert (Hres : cur _ lst = cur _ st0 \/ (C (cur _ lst) /\ ok_seq p (cur _ lst))).
    { destruct Hrun as [H|H].
      - apply (optimize_exhaustive_inv C p st0 o lst); [| exact HC0 | exact H].
        intros vs Hv v Hin. split.
        + eapply all_variants_good; [exact Hok | exact Hg0 | exact Hv | exact Hin].
        + destruct Hok as (WF & Hfit & Hmem & Hvar).
          destruct (all_variants_spec (lp_space _ p) (cur _ st0) WF (Hmem _ Hg0)) as (vs' & Hav & _ & _ & Hiff & _).
          * intros c' Hc'. destruct Hg0 as [Hn _]. rewrite Hn. apply Hfit, Hc'.
          * eapply span_multichoices; exact Hspan.
          * rewrite Hv in Hav. inversion Hav; subst vs'.
            apply Hiff in Hin. destruct Hin as (HL & _ & HO).
            eapply span_agree; [exact WF | exact Hspan | exact HL | exact HO].
      - apply (optimize_random_inv C cfg p st0 o lst); [| exact HC0 | exact H].
        intros st st1 [Hg Hag] Hm.
        destruct (mutate_facts _ _ _ _ Hok Hg Hm) as (Hg1 & HL & HO).
        split; [exact Hg1|].
        eapply agree_out_trans; [exact Hag|].
        eapply span_agree; [exact (proj1 Hok) | exact Hspan | exact HL | exact HO]. }
    destruct Hres as [E | [[Hg1 Hag] Hok1]]; [left; exact E | right; auto].
  Qed.

  (* ---- localize_all keeps every LSome localization, and fails on LError *)
  Lemma localize_all_spec : forall cs w s lcs, localize_all spec localize cs w s = Some lcs ->
    forall c, In c cs ->
      match localize c w true s with LSome c' => In c' lcs | LNone => True | LError => False end.
  Proof.
    induction cs as [|c0 cs IH]; intros w s lcs H c Hc; [destruct Hc|].
    cbn [localize_all] in H.
    destruct (localize_all spec localize cs w s) as [r|] eqn:ER.
    - destruct Hc as [E|Hc].
      + subst c0. destruct (localize c w true s) as [|c'|]; [exact I | | discriminate].
        inversion H; subst. left; reflexivity.
      + pose proof (IH w s r ER c Hc) as HI.
        destruct (localize c0 w true s) as [|c0'|]; [inversion H; subst; exact HI | | discriminate].
        inversion H; subst. destruct (localize c w true s); [exact I | right; exact HI | exact HI].
    - destruct (localize c0 w true s); discriminate.
  Qed.

  (* ---- from the local constraints back to the original ones *)
  Lemma transfer : forall cs a b s0 s1 lcs los lsp,
    0 <= a -> a < b -> b <= n ->
    (forall c, In c cs -> sound c) -> (forall c, In c cs -> passes_c c s0) ->
    good_ s0 -> good_ s1 -> agree_out a b s0 s1 ->
    localize_all spec localize cs (mkLoc a b 0) s0 = Some lcs ->
    ok_seq (mkLP spec None (map (fun c => reinit false c s0) lcs) los lsp) s1 ->
    forall c, In c cs -> passes_c c s1.
  Proof.
    intros cs a b s0 s1 lcs los lsp Ha Hab Hb Hsound Hpass Hg0 Hg1 Hag HLA Hok c Hc.
    pose proof (Hsound c Hc a b s0 s1 Ha Hab Hb Hg0 Hg1 Hag (Hpass c Hc)) as HS.
    pose proof (localize_all_spec _ _ _ _ HLA c Hc) as HL.
    destruct (localize c (mkLoc a b 0) true s0) as [|c'|].
    - exact HS.
    - cbv zeta in HS. apply HS. intros Henf. apply Hok; [|exact Henf].
      unfold lp_constraints; simpl. apply (in_map (fun c => reinit false c s0)), HL.
    - destruct HL.
  Qed.

  (* ---- optimize_locations / optimize_objective / optimize_each *)
  Lemma optimize_locations_keeps : forall cfg cs objs ob, opt_heuristic ob = None ->
    (forall c, In c cs -> sound c) ->
    forall locs st o st', sgood st -> (forall c, In c cs -> passes_c c (cur _ st)) ->
    optimize_locations spec ev localize reinit enforced best boost opt_heuristic
      cfg space cs objs ob locs st = (o, st') ->
    sgood st' /\ (forall c, In c cs -> passes_c c (cur _ st')).
  Proof.
    intros cfg cs objs ob Hoh Hsound. induction locs as [|l locs IH]; intros st o st' Hg Hpass H.
    - simpl in H. inversion H; subst. split; assumption.
    - cbn [optimize_locations] in H.
      set (lspace := ms_localized space (lstart l) (lend l)) in H.
      assert (Hok : okspace space n lspace) by (apply okspace_localized; assumption).
      destruct (space_size_exact lspace =? 0); [eapply IH; eauto|].
      destruct (choices_span lspace) as [[a b]|] eqn:Espan; [|inversion H; subst; split; assumption].
      destruct (localize_all spec localize cs (mkLoc a b 0) (cur spec st)) as [lcs|] eqn:ELA;
        [|inversion H; subst; split; assumption].
      destruct (localize_all spec localize (filter (fun o => negb (Qeq_bool (boost o) 0)) objs)
                  (mkLoc a b 0) (cur spec st)) as [los|]; [|inversion H; subst; split; assumption].
      set (lp := mkLP spec None (map (fun c => reinit false c (cur spec st)) lcs)
                   (map (fun o => reinit true o (cur spec st)) los) lspace) in H.
      set (st0 := mkState spec (cur spec st) (rng spec st) []) in H.
      assert (Hg0 : sgood st0) by (split; [exact (proj1 Hg) | apply trace_good_nil]).
      rewrite Hoh in H.
      match type of H with context [let '(o, lst) := ?X in _] => destruct X as [o1 lst] eqn:Eloc end.
      assert (Hrun : optimize_exhaustive lp st0 = (o1, lst) \/ optimize_random cfg lp st0 = (o1, lst)).
      { destruct (space_size_exact lspace <? st_threshold cfg); [left | right]; exact Eloc. }
      assert (Hgl : sgood lst).
      { destruct Hrun as [Hr|Hr].
        - eapply optimize_exhaustive_good; [| exact Hg0 | exact Hr]. exact Hok.
        - eapply optimize_random_good; [| exact Hg0 | exact Hr]. exact Hok. }
      pose proof (local_run cfg (lstart l) (lend l) a b lp st0 o1 lst eq_refl Espan (proj1 Hg) Hrun) as Hloc.
      pose proof (spliced_good _ _ _ _ _ Hg Hgl) as Hg3.
      destruct o1; try (inversion H; subst; split; [exact Hg3 | exact Hpass]).
      eapply IH; [| | exact H].
      + apply assign_good; [exact Hg3 | exact (proj1 Hgl)].
      + simpl. destruct Hloc as [E | (Hg1 & Hag & Hok1)].
        * rewrite E. exact Hpass.
        * destruct (span_in_range (lstart l) (lend l) a b Espan) as (Ha & Hab & Hb).
          eapply transfer; [exact Ha | exact Hab | exact Hb | exact Hsound | exact Hpass | exact (proj1 Hg) | exact Hg1 | exact Hag | exact ELA | exact Hok1].
  Qed.

  Lemma evaluate_cur : forall c st e st', evaluate spec ev c st = (e, st') -> cur _ st' = cur _ st.
  Proof. intros c st e st' H. unfold evaluate in H. inversion H; subst. reflexivity. Qed.

  Lemma optimize_objective_keeps : forall cfg cs objs ob st o st',
    opt_heuristic ob = None ->
    (forall c, In c cs -> sound c) ->
    sgood st -> (forall c, In c cs -> passes_c c (cur _ st)) ->
    optimize_objective cfg space cs objs ob st = (o, st') ->
    sgood st' /\ (forall c, In c cs -> passes_c c (cur _ st')).
  Proof.
    intros cfg cs objs ob st o st' Hoh Hsound Hg Hpass H. unfold Solver.optimize_objective in H.
    destruct (evaluate spec ev ob st) as [e st1] eqn:E.
    pose proof (evaluate_good _ _ _ _ _ _ _ _ E Hg) as Hg1.
    assert (Hpass1 : forall c, In c cs -> passes_c c (cur _ st1))
      by (rewrite (evaluate_cur _ _ _ _ E); exact Hpass).
    destruct (best ob) as [b|].
    - destruct (Qeq_bool (fst e) b); [inversion H; subst; split; assumption|].
      destruct (snd e) as [ls|]; [eapply optimize_locations_keeps; eauto | inversion H; subst; split; assumption].
    - destruct (snd e) as [ls|]; [eapply optimize_locations_keeps; eauto | inversion H; subst; split; assumption].
  Qed.

  Lemma optimize_each_keeps : forall cfg cs objs todo st o st',
    (forall ob, In ob todo -> opt_heuristic ob = None) ->
    (forall c, In c cs -> sound c) ->
    sgood st -> (forall c, In c cs -> passes_c c (cur _ st)) ->
    optimize_each spec ev localize reinit enforced best boost opt_heuristic
      cfg space cs objs todo st = (o, st') ->
    sgood st' /\ (forall c, In c cs -> passes_c c (cur _ st')).
  Proof.
    intros cfg cs objs. induction todo as [|ob todo IH]; intros st o st' Hoh Hsound Hg Hpass H.
    - simpl in H. inversion H; subst. split; assumption.
    - cbn [optimize_each] in H.
      destruct (optimize_objective cfg space cs objs ob st) as [o1 st1] eqn:Er.
      destruct (optimize_objective_keeps _ _ _ _ _ _ _ (Hoh ob (or_introl eq_refl)) Hsound Hg Hpass Er)
        as [Hg1 Hpass1].
      destruct o1; try (inversion H; subst; split; assumption).
      eapply IH; [| exact Hsound | exact Hg1 | exact Hpass1 | exact H].
      intros ob' Hin. apply Hoh. right; exact Hin.
  Qed.

  (* ------------------------------------------------------------------------------------ *)
  Theorem optimize_keeps_constraints : forall cfg cs objs st o st',
    (forall ob, In ob objs -> opt_heuristic ob = None) ->
    (forall c, In c cs -> sound c) ->
    state_good spec space n st ->
    (forall c, In c cs -> passes_c c (cur _ st)) ->
    optimize cfg space cs objs st = (o, st') ->
    forall c, In c cs -> passes_c c (cur _ st').
  Proof.
    intros cfg cs objs st o st' Hoh Hsound Hg Hpass H. unfold Solver.optimize in H.
    eapply (optimize_each_keeps cfg cs objs _ st o st'); [| exact Hsound | exact Hg | exact Hpass | exact H].
    intros ob Hin. apply filter_In in Hin. apply Hoh. exact (proj1 Hin).
  Qed.

  Theorem optimize_objective_keeps_constraints : forall cfg cs objs ob st o st',
    opt_heuristic ob = None ->
    (forall c, In c cs -> sound c) ->
    state_good spec space n st ->
    (forall c, In c cs -> passes_c c (cur _ st)) ->
    optimize_objective cfg space cs objs ob st = (o, st') ->
    forall c, In c cs -> passes_c c (cur _ st').
  Proof.
    intros cfg cs objs ob st o st' Hoh Hsound Hg Hpass H.
    exact (proj2 (optimize_objective_keeps _ _ _ _ _ _ _ Hoh Hsound Hg Hpass H)).
  Qed.

  (* the direct searches on the problem itself: accepted candidates pass every non-enforced
     constraint by construction; enforced ones must be guarded by the space *)
  Theorem direct_optimizers_keep_constraints : forall cfg (p : lproblem spec) st o st',
    lp_space _ p = space -> state_good spec space n st ->
    (forall c t, In c (lp_constraints _ p) -> enforced c = true -> good space n t -> passes_c c t) ->
    (forall c, In c (lp_constraints _ p) -> passes_c c (cur _ st)) ->
    (optimize_exhaustive p st = (o, st') \/ optimize_random cfg p st = (o, st')) ->
    forall c, In c (lp_constraints _ p) -> passes_c c (cur _ st').
  Proof.
    intros cfg p st o st' Hsp Hg Henf Hpass Hrun c Hc.
    assert (Hok : okspace space n (lp_space _ p))
      by (rewrite Hsp; exact (okspace_space space n space_wf space_fits)).
    assert (Hres : cur _ st' = cur _ st \/ (good_ (cur _ st') /\ ok_seq p (cur _ st'))).
    { destruct Hrun as [H|H].
      - apply (optimize_exhaustive_inv (good space n) p st o st'); [| exact (proj1 Hg) | exact H].
        intros vs Hv v Hin.
        eapply all_variants_good; [exact Hok | exact (proj1 Hg) | exact Hv | exact Hin].
      - apply (optimize_random_inv (good space n) cfg p st o st'); [| exact (proj1 Hg) | exact H].
        intros st2 st3 Hg2 Hm. exact (proj1 (mutate_facts _ _ _ _ Hok Hg2 Hm)). }
    destruct Hres as [E | [Hg' Hok']].
    - rewrite E. apply Hpass, Hc.
    - destruct (enforced c) eqn:Ee; [apply Henf | apply Hok']; assumption.
  Qed.
End SolverD.

