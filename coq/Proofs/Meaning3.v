(* C10, third series: what the scores of UniquifyAllKmers (global form) and AvoidHairpins count. *)
From Coq Require Import ZArith QArith Bool List Lia Ascii String.
From DC Require Import Model.Base Model.Loc Model.Bio Model.Pattern Model.MSpace Model.Specs
                       Proofs.SpecsDefs Proofs.PatternProofs Proofs.SpecsLocalA Proofs.SpecsEval
                       Proofs.Hairpins.
Import ListNotations.
Open Scope Z_scope.

Lemma m3_filter_ext_in {X} (f g : X -> bool) (l : list X) :
  (forall x, In x l -> f x = g x) -> filter f l = filter g l.
Proof.
  induction l as [|x l IH]; intros H; [reflexivity|].
  cbn [filter]. rewrite (H x) by (left; reflexivity).
  rewrite IH by (intros y Hy; apply H; right; exact Hy). reflexivity.
Qed.

(* UniquifyAllKmers, evaluated globally: the score is minus the number of window starts i of the
   reference span whose k-mer lies inside the specification's own location and occurs at least twice
   among the k-mers of the reference span (as written or, with include_rc, in canonical form); it passes
   iff every k-mer of the location is unique in the reference; one breach location (i, i+k) per such start *)
Theorem uniquify_global_meaning : forall k l ref irc s, 1 <= k ->
  let e := eval_uniquify_global k l ref irc s in
  let starts := zrange (lstart ref) (lend ref - k + 1) in
  let repeated i := 2 <=? count_dna (kmer_at s irc k i) (map (kmer_at s irc k) starts) in
  let inside i := (lstart l <=? i) && (i + k <=? lend l) in
  score e = zq (- zlen (filter (fun i => repeated i && inside i) starts)) /\
  (passes e = true <-> forall i, In i starts -> inside i = true -> repeated i = false) /\
  locs e = Some (map (fun i => mkLoc i (i + k) 0) (filter (fun i => repeated i && inside i) starts)).
Proof.
  intros k l ref irc s Hk e starts repeated inside.
  assert (Hf : filter (fun i => (2 <=? count_dna (kmer_at s irc k i) (map (kmer_at s irc k) starts))
                                && (lstart l <=? i) && (i <? i + k) && (i + k <=? lend l)) starts
               = filter (fun i => repeated i && inside i) starts).
  { apply m3_filter_ext_in. intros i _. unfold repeated, inside.
    replace (i <? i + k) with true by (symmetry; apply Z.ltb_lt; lia).
    rewrite andb_true_r. rewrite <- andb_assoc. reflexivity. }
  assert (Hsc : score e = zq (- zlen (filter (fun i => repeated i && inside i) starts))).
  { unfold e, eval_uniquify_global. cbv zeta. cbn [score]. fold starts. rewrite Hf. reflexivity. }
  split; [exact Hsc|]. split.
  - rewrite (passes_zq_score _ _ Hsc).
    pose proof (zlen_nonneg (filter (fun i => repeated i && inside i) starts)) as Hnn.
    split.
    + intros H i Hi Hin.
      assert (Hz : zlen (filter (fun i => repeated i && inside i) starts) = 0) by lia.
      apply zlen_zero_nil in Hz.
      destruct (repeated i) eqn:Er; [|reflexivity]. exfalso.
      assert (Hin' : In i (filter (fun i => repeated i && inside i) starts)).
      { apply filter_In. split; [exact Hi|]. rewrite Er, Hin. reflexivity. }
      rewrite Hz in Hin'. destruct Hin'.
    + intros H.
      assert (Hz : filter (fun i => repeated i && inside i) starts = []).
      { destruct (filter (fun i => repeated i && inside i) starts) as [|i r] eqn:Ef; [reflexivity|].
        exfalso.
        assert (Hin : In i (filter (fun i => repeated i && inside i) starts))
          by (rewrite Ef; left; reflexivity).
        apply filter_In in Hin. destruct Hin as [Hi Hc]. apply andb_true_iff in Hc.
        destruct Hc as [Hr Hin]. rewrite (H i Hi Hin) in Hr. discriminate. }
      rewrite Hz. change (zlen (@nil Z)) with 0. lia.
  - unfold e, eval_uniquify_global. cbv zeta. cbn [locs]. fold starts. rewrite Hf. reflexivity.
Qed.

(* ------------------------------------------------------------------ AvoidHairpins *)

(* a stem starting at offset i of the segment has a reverse-complement partner within the window:
   some offset j with i + stem <= j, j + stem <= min(n, i + window), whose word is the reverse
   complement of the stem word *)
Definition hairpin_at (stem window : Z) (sub : dna) (i : Z) : bool :=
  existsb (fun j => seq_eqb (slice sub j (j + stem)) (rc (slice sub i (i + stem))))
          (zrange (i + stem) (Z.min (zlen sub) (i + window) - stem + 1)).

Lemma m3_head (w r : dna) :
  (zlen w <=? zlen r) && seq_eqb (firstn (List.length w) r) w = true <-> firstn (List.length w) r = w.
Proof.
  rewrite andb_true_iff, seq_eqb_eq. split.
  - intros [_ H]. exact H.
  - intros H. split; [|exact H]. apply Z.leb_le.
    assert (Hl : List.length (firstn (List.length w) r) = List.length w) by (rewrite H; reflexivity).
    rewrite firstn_length in Hl. unfold zlen. lia.
Qed.

(* find_sub succeeds exactly when the word occurs somewhere in the text *)
Lemma m3_find_sub (w : dna) : forall r k,
  (exists idx, find_sub w r k = Some idx) <->
  (exists p : nat, firstn (List.length w) (skipn p r) = w).
Proof.
  induction r as [|x r IH]; intros k.
  - cbn [find_sub].
    destruct ((zlen w <=? zlen (@nil nuc)) && seq_eqb (firstn (List.length w) []) w) eqn:Ec.
    + split; intros _; [|eexists; reflexivity].
      exists 0%nat. cbn [skipn]. apply m3_head. exact Ec.
    + split; [intros [idx H]; discriminate|].
      intros [p Hp]. rewrite skipn_nil in Hp. apply m3_head in Hp. rewrite Hp in Ec. discriminate.
  - cbn [find_sub].
    destruct ((zlen w <=? zlen (x :: r)) && seq_eqb (firstn (List.length w) (x :: r)) w) eqn:Ec.
    + split; intros _; [|eexists; reflexivity].
      exists 0%nat. cbn [skipn]. apply m3_head. exact Ec.
    + rewrite (IH (k + 1)). split.
      * intros [p Hp]. exists (S p). cbn [skipn]. exact Hp.
      * intros [p Hp]. destruct p as [|p].
        -- cbn [skipn] in Hp. apply m3_head in Hp. rewrite Hp in Ec. discriminate.
        -- exists p. cbn [skipn] in Hp. exact Hp.
Qed.

(* a window of the reverse complement of x[a, m) is the reverse complement of a window of x *)
Lemma m3_rc_piece (x : dna) a m p st :
  0 <= a <= m -> m <= zlen x -> 0 <= p -> 0 <= st -> p + st <= m - a ->
  firstn (Z.to_nat st) (skipn (Z.to_nat p) (rc (slice x a m))) = rc (slice x (m - p - st) (m - p)).
Proof.
  intros Ha Hm Hp Hst Hps.
  rewrite rc_window by (rewrite ?zlen_slice by lia; lia).
  rewrite zlen_slice by lia.
  rewrite slice_window by lia.
  f_equal. f_equal; lia.
Qed.

(* the hit test of the model at offset i is the closed form *)
Lemma m3_hit_closed (x : dna) st win i :
  1 <= st -> st <= win -> 0 <= i -> i + st < zlen x ->
  hp_hit st win x (zlen x) i = hairpin_at st win x i.
Proof.
  intros Hst Hwin Hi Hin.
  set (n := zlen x) in *. set (m := Z.min n (i + win)).
  assert (Hm : i + st <= m <= n) by (unfold m; lia).
  assert (Hlw : List.length (slice x i (i + st)) = Z.to_nat st).
  { pose proof (zlen_slice x i (i + st)) as H. unfold zlen in H. fold (zlen x) in H. fold n in H. lia. }
  apply eq_iff_eq_true.
  assert (H1 : hp_hit st win x n i = true <->
               exists idx, find_sub (slice x i (i + st)) (rc (slice x (i + st) m)) 0 = Some idx).
  { unfold hp_hit. fold m.
    destruct (find_sub (slice x i (i + st)) (rc (slice x (i + st) m)) 0) as [idx|].
    - split; intros _; [exists idx|]; reflexivity.
    - split; [discriminate|]. intros [idx H]. discriminate. }
  rewrite H1, m3_find_sub, Hlw. clear H1.
  unfold hairpin_at. fold n. fold m. rewrite existsb_exists.
  split.
  - intros [p Hp].
    assert (Hlen : Z.of_nat p + st <= m - (i + st)).
    { assert (Hl : List.length (firstn (Z.to_nat st) (skipn p (rc (slice x (i + st) m)))) = Z.to_nat st)
        by (rewrite Hp; exact Hlw).
      rewrite firstn_length, skipn_length in Hl.
      pose proof (zlen_rc (slice x (i + st) m)) as Hz. rewrite zlen_slice in Hz by lia.
      unfold zlen in Hz. lia. }
    rewrite <- (Nat2Z.id p) in Hp.
    rewrite m3_rc_piece in Hp by lia.
    exists (m - Z.of_nat p - st). split.
    + apply pz_in_zrange. lia.
    + apply seq_eqb_eq. rewrite <- Hp. rewrite rc_involutive. f_equal. lia.
  - intros [j [Hj He]]. apply pz_in_zrange in Hj. apply seq_eqb_eq in He.
    exists (Z.to_nat (m - j - st)).
    rewrite m3_rc_piece by lia.
    replace (m - (m - j - st) - st) with j by lia.
    replace (m - (m - j - st)) with (j + st) by lia.
    rewrite He. apply rc_involutive.
Qed.

Lemma m3_slice_all {X} (l : list X) : slice l 0 (zlen l) = l.
Proof.
  unfold slice. change (Z.to_nat 0) with 0%nat. cbn [skipn].
  replace (Z.to_nat (zlen l - 0)) with (List.length l) by (unfold zlen; lia).
  apply firstn_all.
Qed.

(* the score depends on the location only through the extracted segment *)
Lemma m3_score_sub st win l s :
  score (eval_hairpins st win l s) =
  score (eval_hairpins st win (mkLoc 0 (zlen (extract l s)) 0) (extract l s)).
Proof.
  assert (He : extract (mkLoc 0 (zlen (extract l s)) 0) (extract l s) = extract l s).
  { generalize (extract l s). intros sub. unfold extract. cbn [lstart lend lstrand].
    change (0 =? -1) with false. cbv iota.
    pose proof (zlen_nonneg sub).
    rewrite pyslice_slice by lia. apply m3_slice_all. }
  unfold eval_hairpins. cbv zeta. cbn [score]. rewrite He. reflexivity.
Qed.

(* general form: any location (the statement only involves the extracted segment), stem <= window *)
Theorem hairpins_meaning_gen : forall stem window l s, 1 <= stem -> stem <= window ->
  let e := eval_hairpins stem window l s in
  let sub := extract l s in
  let starts := filter (hairpin_at stem window sub) (zrange 0 (zlen sub - stem)) in
  score e = zq (- zlen starts) /\
  (passes e = true <-> starts = []).
Proof.
  intros stem window l s Hst Hwin e sub starts.
  assert (Hsc : score e = zq (- zlen starts)).
  { unfold e. rewrite m3_score_sub. fold sub.
    pose proof (zlen_nonneg sub) as Hn.
    rewrite hairpins_score by (try lia; discriminate).
    unfold cnt, starts. f_equal. f_equal. f_equal.
    apply m3_filter_ext_in. intros i Hi. apply pz_in_zrange in Hi.
    apply m3_hit_closed; lia. }
  split; [exact Hsc|].
  rewrite (passes_zq_score _ _ Hsc). rewrite <- zlen_zero_nil.
  pose proof (zlen_nonneg starts). lia.
Qed.

(* AvoidHairpins: score = minus the number of stem starts with a partner in the window; passes iff none *)
Theorem hairpins_meaning : forall stem window l s, 1 <= stem -> 2 * stem <= window ->
  0 <= lstart l -> lstart l <= lend l -> lend l <= zlen s ->
  let e := eval_hairpins stem window l s in
  let sub := extract l s in
  let starts := filter (hairpin_at stem window sub) (zrange 0 (zlen sub - stem)) in
  score e = zq (- zlen starts) /\
  (passes e = true <-> starts = []).
Proof.
  intros stem window l s Hst Hwin _ _ _. apply hairpins_meaning_gen; lia.
Qed.
