(* C19 lemmas, part C: window subdivision and grouping of indices / segments. *)
From Coq Require Import ZArith Bool List Lia Sorting.Sorted Permutation.
From DC Require Import Model.Base Model.Bio.
Import ListNotations.
Open Scope Z_scope.

(* ps is a chain of consecutive pieces from x to y *)
Fixpoint chain (x : Z) (ps : list (Z * Z)) (y : Z) : Prop :=
  match ps with
  | [] => x = y
  | p :: ps' => fst p = x /\ chain (snd p) ps' y
  end.

Lemma zip_chain : forall (f : nat -> Z) m b n k,
  (forall j, f (S j) - f j = m) -> 1 <= m ->
  1 <= b - f (k + n)%nat <= m ->
  let ps := zip_next (map f (seq k (S n)) ++ [b]) in
  chain (f k) ps b /\ Forall (fun p => 1 <= snd p - fst p <= m) ps.
Proof.
  intros f m b n. induction n as [|n IH]; intros k Hf Hm Hb.
  - simpl. replace (k + 0)%nat with k in Hb by lia.
    split; [split; reflexivity|]. constructor; [simpl; lia|constructor].
  - cbv zeta.
    change (zip_next (map f (seq k (S (S n))) ++ [b]))
      with ((f k, f (S k)) :: zip_next (map f (seq (S k) (S n)) ++ [b])).
    assert (Hb' : 1 <= b - f (S k + n)%nat <= m).
    { replace (S k + n)%nat with (k + S n)%nat by lia. exact Hb. }
    destruct (IH (S k) Hf Hm Hb') as [IH1 IH2].
    split.
    + split; [reflexivity|exact IH1].
    + constructor; [|exact IH2]. simpl. specialize (Hf k). lia.
Qed.

Theorem subdivide_window_spec : forall a b m, a < b -> 1 <= m ->
  let ps := subdivide_window a b m in
  chain a ps b /\ Forall (fun p => 1 <= snd p - fst p <= m) ps.
Proof.
  intros a b m Hab Hm. cbv zeta. unfold subdivide_window, zrange_step.
  destruct (b <=? a) eqn:E; [apply Z.leb_le in E; lia|].
  set (q := (b - a + m - 1) / m).
  assert (Hq : m * q <= b - a + m - 1 < m * q + m).
  { unfold q. pose proof (Z.mul_div_le (b - a + m - 1) m) as H1.
    pose proof (Z.mul_succ_div_gt (b - a + m - 1) m) as H2. lia. }
  assert (Hq1 : 1 <= q).
  { unfold q. apply Z.div_le_lower_bound; lia. }
  assert (Hn : exists n, Z.to_nat q = S n).
  { exists (Z.to_nat (q - 1)). lia. }
  destruct Hn as [n Hn]. rewrite Hn.
  assert (Hn' : Z.of_nat n = q - 1) by lia.
  pose proof (zip_chain (fun k => a + Z.of_nat k * m) m b n 0) as H.
  cbv zeta beta in H.
  assert (Hf : forall j : nat, a + Z.of_nat (S j) * m - (a + Z.of_nat j * m) = m).
  { intros j. rewrite Nat2Z.inj_succ. lia. }
  assert (Hb : 1 <= b - (a + Z.of_nat (0 + n) * m) <= m).
  { rewrite Nat.add_0_l, Hn'. lia. }
  destruct (H Hf Hm Hb) as [H1 H2].
  split; [|exact H2].
  replace (a + Z.of_nat 0 * m) with a in H1 by (simpl; lia). exact H1.
Qed.

Theorem subdivide_window_empty : forall a b m, b <= a -> 1 <= m -> subdivide_window a b m = [].
Proof.
  intros a b m Hab Hm. unfold subdivide_window, zrange_step.
  destruct (b <=? a) eqn:E; [reflexivity|]. apply Z.leb_gt in E. lia.
Qed.

Lemma insert_z_perm : forall x l, Permutation (x :: l) (insert_z x l).
Proof.
  intros x l. induction l as [|a l IH]; simpl.
  - apply Permutation_refl.
  - destruct (a <? x).
    + eapply perm_trans; [apply perm_swap|]. apply perm_skip. exact IH.
    + apply Permutation_refl.
Qed.

Lemma insert_z_sorted : forall x l,
  StronglySorted (fun x y => x <= y) l -> StronglySorted (fun x y => x <= y) (insert_z x l).
Proof.
  intros x l. induction l as [|a l IH]; intros Hs; simpl.
  - constructor; constructor.
  - inversion Hs as [|a' l' Hs' Hall]; subst.
    destruct (a <? x) eqn:E.
    + apply Z.ltb_lt in E. constructor; [apply IH; exact Hs'|].
      rewrite Forall_forall. intros y Hy.
      apply Permutation_in with (l' := x :: l) in Hy; [|apply Permutation_sym, insert_z_perm].
      destruct Hy as [Hy|Hy]; [lia|].
      rewrite Forall_forall in Hall. apply Hall. exact Hy.
    + apply Z.ltb_ge in E. constructor; [exact Hs|].
      constructor; [exact E|].
      eapply Forall_impl; [|exact Hall]. intros y Hy. simpl in Hy. lia.
Qed.

Theorem sort_z_sorted_perm : forall l,
  Permutation l (sort_z l) /\ StronglySorted (fun x y => x <= y) (sort_z l).
Proof.
  intros l. induction l as [|x l [IHp IHs]]; simpl.
  - split; constructor.
  - split.
    + eapply perm_trans; [apply perm_skip; exact IHp|]. apply insert_z_perm.
    + apply insert_z_sorted. exact IHs.
Qed.

Fixpoint gaps_ok (gap : option Z) (last : Z) (g : list Z) : Prop :=
  match g with
  | [] => True
  | x :: g' => opt_lt (x - last) gap = true /\ gaps_ok gap x g'
  end.
Definition group_ok (gap spread : option Z) (g : list Z) : Prop :=
  match g with
  | [] => False
  | f :: rest => gaps_ok gap f rest /\ Forall (fun x => opt_lt (x - f) spread = true) rest
  end.
(* a new group starts only when one of the two bounds fails for its first element *)
Fixpoint breaks_ok (gap spread : option Z) (gs : list (list Z)) : Prop :=
  match gs with
  | g :: ((h :: _) as gs') =>
      match g, h with
      | f :: _, x :: _ => (opt_lt (x - last g f) gap && opt_lt (x - f) spread) = false
      | _, _ => False
      end /\ breaks_ok gap spread gs'
  | _ => True
  end.

Lemma last_cons_default : forall (A : Type) (g : list A) (a d : A), last (a :: g) d = last g a.
Proof.
  intros A g. induction g as [|b g IH]; intros a d.
  - reflexivity.
  - change (last (a :: b :: g) d) with (last (b :: g) d).
    rewrite (IH b d), (IH b a). reflexivity.
Qed.

Lemma gaps_ok_app : forall gap g l0 x,
  gaps_ok gap l0 (g ++ [x]) <-> gaps_ok gap l0 g /\ opt_lt (x - last g l0) gap = true.
Proof.
  intros gap g. induction g as [|a g IH]; intros l0 x.
  - simpl. tauto.
  - rewrite last_cons_default.
    change (gaps_ok gap l0 ((a :: g) ++ [x]))
      with (opt_lt (a - l0) gap = true /\ gaps_ok gap a (g ++ [x])).
    change (gaps_ok gap l0 (a :: g))
      with (opt_lt (a - l0) gap = true /\ gaps_ok gap a g).
    rewrite IH. tauto.
Qed.

Lemma breaks_ok_cons : forall gap spread f g x h gs,
  breaks_ok gap spread ((f :: g) :: (x :: h) :: gs) <->
  (opt_lt (x - last (f :: g) f) gap && opt_lt (x - f) spread) = false /\
  breaks_ok gap spread ((x :: h) :: gs).
Proof. intros. reflexivity. Qed.

Lemma group_from_spec : forall gap spread rest first lst cur_rev t,
  rev cur_rev = first :: t ->
  last t first = lst ->
  gaps_ok gap first t ->
  Forall (fun x => opt_lt (x - first) spread = true) t ->
  let gs := group_from first lst cur_rev rest gap spread in
  concat gs = rev cur_rev ++ rest /\ Forall (group_ok gap spread) gs /\
  breaks_ok gap spread gs /\
  exists tl gs', gs = (rev cur_rev ++ tl) :: gs'.
Proof.
  intros gap spread rest.
  induction rest as [|x rest IH]; intros first lst cur_rev t Hrev Hlast Hgaps Hspread; cbv zeta.
  - simpl. split; [reflexivity|]. split; [|split].
    + constructor; [|constructor]. rewrite Hrev. split; assumption.
    + exact I.
    + exists [], []. rewrite app_nil_r. reflexivity.
  - simpl group_from.
    destruct (opt_lt (x - lst) gap && opt_lt (x - first) spread) eqn:E.
    + apply andb_true_iff in E. destruct E as [E1 E2].
      assert (Hrev' : rev (x :: cur_rev) = first :: (t ++ [x])).
      { simpl. rewrite Hrev. reflexivity. }
      assert (Hlast' : last (t ++ [x]) first = x) by apply last_last.
      assert (Hgaps' : gaps_ok gap first (t ++ [x])).
      { apply gaps_ok_app. split; [exact Hgaps|]. rewrite Hlast. exact E1. }
      assert (Hspread' : Forall (fun y => opt_lt (y - first) spread = true) (t ++ [x])).
      { apply Forall_app. split; [exact Hspread|]. constructor; [exact E2|constructor]. }
      destruct (IH first x (x :: cur_rev) (t ++ [x]) Hrev' Hlast' Hgaps' Hspread')
        as [C [F [B [tl [gs' Hg]]]]].
      split; [|split; [exact F|split; [exact B|]]].
      * rewrite C. simpl. rewrite <- app_assoc. reflexivity.
      * exists (x :: tl), gs'. rewrite Hg. simpl. rewrite <- app_assoc. reflexivity.
    + assert (Hrev' : rev [x] = x :: []) by reflexivity.
      assert (Hlast' : last [] x = x) by reflexivity.
      destruct (IH x x [x] [] Hrev' Hlast' I (Forall_nil _))
        as [C [F [B [tl [gs' Hg]]]]].
      split; [|split; [|split]].
      * simpl. rewrite C. reflexivity.
      * constructor; [|exact F]. rewrite Hrev. split; assumption.
      * rewrite Hg in B |- *. change (rev [x] ++ tl) with (x :: tl) in B |- *.
        rewrite Hrev. apply breaks_ok_cons. split; [|exact B].
        rewrite last_cons_default, Hlast. exact E.
      * exists [], (group_from x x [x] rest gap spread). rewrite app_nil_r. reflexivity.
Qed.

Theorem group_nearby_indices_spec : forall l gap spread,
  let gs := group_nearby_indices l gap spread in
  concat gs = sort_z l /\ Forall (group_ok gap spread) gs /\ breaks_ok gap spread gs.
Proof.
  intros l gap spread. cbv zeta. unfold group_nearby_indices.
  destruct (sort_z l) as [|x rest].
  - simpl. split; [reflexivity|]. split; [constructor|exact I].
  - assert (Hrev : rev [x] = x :: []) by reflexivity.
    assert (Hlast : last [] x = x) by reflexivity.
    destruct (group_from_spec gap spread rest x x [x] [] Hrev Hlast I (Forall_nil _))
      as [C [F [B _]]].
    split; [|split; assumption]. rewrite C. reflexivity.
Qed.

(* the same for segments, grouped on their start coordinate *)
Fixpoint sgaps_ok (gap : option Z) (last : Z) (g : list (Z * Z)) : Prop :=
  match g with
  | [] => True
  | x :: g' => opt_lt (fst x - last) gap = true /\ sgaps_ok gap (fst x) g'
  end.
Definition sgroup_ok (gap spread : option Z) (g : list (Z * Z)) : Prop :=
  match g with
  | [] => False
  | f :: rest => sgaps_ok gap (fst f) rest /\ Forall (fun x => opt_lt (fst x - fst f) spread = true) rest
  end.
Fixpoint sbreaks_ok (gap spread : option Z) (gs : list (list (Z * Z))) : Prop :=
  match gs with
  | g :: ((h :: _) as gs') =>
      match g, h with
      | f :: _, x :: _ => (opt_lt (fst x - fst (last g f)) gap && opt_lt (fst x - fst f) spread) = false
      | _, _ => False
      end /\ sbreaks_ok gap spread gs'
  | _ => True
  end.

Lemma sgaps_ok_app : forall gap g (d x : Z * Z),
  sgaps_ok gap (fst d) (g ++ [x]) <->
  sgaps_ok gap (fst d) g /\ opt_lt (fst x - fst (last g d)) gap = true.
Proof.
  intros gap g. induction g as [|a g IH]; intros d x.
  - simpl. tauto.
  - rewrite last_cons_default.
    change (sgaps_ok gap (fst d) ((a :: g) ++ [x]))
      with (opt_lt (fst a - fst d) gap = true /\ sgaps_ok gap (fst a) (g ++ [x])).
    change (sgaps_ok gap (fst d) (a :: g))
      with (opt_lt (fst a - fst d) gap = true /\ sgaps_ok gap (fst a) g).
    rewrite IH. tauto.
Qed.

Lemma sbreaks_ok_cons : forall gap spread f g x h gs,
  sbreaks_ok gap spread ((f :: g) :: (x :: h) :: gs) <->
  (opt_lt (fst x - fst (last (f :: g) f)) gap && opt_lt (fst x - fst f) spread) = false /\
  sbreaks_ok gap spread ((x :: h) :: gs).
Proof. intros. reflexivity. Qed.

Lemma sgroup_from_spec : forall gap spread rest f lst cur_rev t,
  rev cur_rev = f :: t ->
  fst (last t f) = lst ->
  sgaps_ok gap (fst f) t ->
  Forall (fun x => opt_lt (fst x - fst f) spread = true) t ->
  let gs := sgroup_from (fst f) lst cur_rev rest gap spread in
  concat gs = rev cur_rev ++ rest /\ Forall (sgroup_ok gap spread) gs /\
  sbreaks_ok gap spread gs /\
  exists tl gs', gs = (rev cur_rev ++ tl) :: gs'.
Proof.
  intros gap spread rest.
  induction rest as [|x rest IH]; intros f lst cur_rev t Hrev Hlast Hgaps Hspread; cbv zeta.
  - simpl. split; [reflexivity|]. split; [|split].
    + constructor; [|constructor]. rewrite Hrev. split; assumption.
    + exact I.
    + exists [], []. rewrite app_nil_r. reflexivity.
  - simpl sgroup_from.
    destruct (opt_lt (fst x - lst) gap && opt_lt (fst x - fst f) spread) eqn:E.
    + apply andb_true_iff in E. destruct E as [E1 E2].
      assert (Hrev' : rev (x :: cur_rev) = f :: (t ++ [x])).
      { simpl. rewrite Hrev. reflexivity. }
      assert (Hlast' : fst (last (t ++ [x]) f) = fst x) by (rewrite last_last; reflexivity).
      assert (Hgaps' : sgaps_ok gap (fst f) (t ++ [x])).
      { apply sgaps_ok_app. split; [exact Hgaps|]. rewrite Hlast. exact E1. }
      assert (Hspread' : Forall (fun y => opt_lt (fst y - fst f) spread = true) (t ++ [x])).
      { apply Forall_app. split; [exact Hspread|]. constructor; [exact E2|constructor]. }
      destruct (IH f (fst x) (x :: cur_rev) (t ++ [x]) Hrev' Hlast' Hgaps' Hspread')
        as [C [F [B [tl [gs' Hg]]]]].
      split; [|split; [exact F|split; [exact B|]]].
      * rewrite C. simpl. rewrite <- app_assoc. reflexivity.
      * exists (x :: tl), gs'. rewrite Hg. simpl. rewrite <- app_assoc. reflexivity.
    + assert (Hrev' : rev [x] = x :: []) by reflexivity.
      assert (Hlast' : fst (last [] x) = fst x) by reflexivity.
      destruct (IH x (fst x) [x] [] Hrev' Hlast' I (Forall_nil _))
        as [C [F [B [tl [gs' Hg]]]]].
      split; [|split; [|split]].
      * simpl. rewrite C. reflexivity.
      * constructor; [|exact F]. rewrite Hrev. split; assumption.
      * rewrite Hg in B |- *. change (rev [x] ++ tl) with (x :: tl) in B |- *.
        rewrite Hrev. apply sbreaks_ok_cons. split; [|exact B].
        rewrite last_cons_default, Hlast. exact E.
      * exists [], (sgroup_from (fst x) (fst x) [x] rest gap spread). rewrite app_nil_r. reflexivity.
Qed.

Theorem group_nearby_segments_spec : forall l gap spread,
  let gs := group_nearby_segments l gap spread in
  concat gs = sort_segs l /\ Forall (sgroup_ok gap spread) gs /\ sbreaks_ok gap spread gs.
Proof.
  intros l gap spread. cbv zeta. unfold group_nearby_segments.
  destruct (sort_segs l) as [|x rest].
  - simpl. split; [reflexivity|]. split; [constructor|exact I].
  - assert (Hrev : rev [x] = x :: []) by reflexivity.
    assert (Hlast : fst (last [] x) = fst x) by reflexivity.
    destruct (sgroup_from_spec gap spread rest x (fst x) [x] [] Hrev Hlast I (Forall_nil _))
      as [C [F [B _]]].
    split; [|split; assumption]. rewrite C. reflexivity.
Qed.
