(* Shared definitions for the mutation-space lemmas (C15 / C04 / C12): well-formedness. *)
From Coq Require Import ZArith Bool List Lia Sorting.Sorted.
From DC Require Import Model.Base Model.Loc Model.MSpace.
Import ListNotations.
Open Scope Z_scope.

(* a choice: non-empty segment at a non-negative position, variants pairwise distinct and each as
   long as the segment *)
Definition wf_choice (c : choice) : Prop :=
  0 <= cstart c < cend c /\ NoDup (cvariants c) /\
  Forall (fun v => zlen v = cend c - cstart c) (cvariants c).

(* the index is a partition into contiguous choices: the de-duplicated list has increasing,
   disjoint segments, and position i of the index holds Some c exactly when i lies in c's segment *)
Definition wf_space (ms : mspace) : Prop :=
  let cl := choices_list ms in
  Forall wf_choice cl /\
  StronglySorted (fun a b => cend a <= cstart b) cl /\
  (forall i c, 0 <= i -> nth_error (choices_index ms) (Z.to_nat i) = Some (Some c) ->
               In c cl /\ cstart c <= i < cend c) /\
  (forall c i, In c cl -> cstart c <= i < cend c ->
               nth_error (choices_index ms) (Z.to_nat i) = Some (Some c)).

(* list-level part of well-formedness (enough for enumeration, mutation and constraining; it is
   what a localized space inherits): choices well-formed, segments increasing and disjoint *)
Definition wf_choices (ms : mspace) : Prop :=
  Forall wf_choice (choices_list ms) /\
  StronglySorted (fun a b => cend a <= cstart b) (choices_list ms).

(* t carries, on the segment of c, one of c's variants *)
Definition holds (c : choice) (t : dna) : Prop := In (slice t (cstart c) (cend c)) (cvariants c).
Definition member (ms : mspace) (t : dna) : Prop := Forall (fun c => holds c t) (choices_list ms).

(* answers of the random oracle are legitimate for the requests that were made *)
Definition valid_answer (q : req) (a : list Z) : Prop :=
  match q with
  | RInt n => exists v, a = [v] /\ 0 <= v < n
  | RChoice n k => zlen a = k /\ NoDup a /\ Forall (fun v => 0 <= v < n) a
  end.
(* a run started from [mkR stream []] and ended in r': the consumed answers match the log *)
Definition valid_run (stream : list (list Z)) (r' : rstate) : Prop :=
  Forall2 valid_answer (r_log r') (firstn (List.length (r_log r')) stream) /\
  r_stream r' = skipn (List.length (r_log r')) stream.

Lemma wf_space_choices : forall ms, wf_space ms -> wf_choices ms.
Proof. intros ms (W1 & W2 & _ & _). split; assumption. Qed.
