(* C10, second series: what the scores of EnforceChanges, EnforceTranslation, AvoidRareCodons and
   EnforceTerminalGCContent mean (formula = documented quantity, pass condition). *)
From Coq Require Import ZArith QArith Qabs Bool List Lia Ascii String Lqa.
From DC Require Import Model.Base Model.Loc Model.Bio Model.Pattern Model.MSpace Model.Specs
                       Proofs.SpecsDefs Proofs.SpecsLocalA Proofs.SpecsLocalB Proofs.SpecsEval
                       Proofs.RestrictMeaning.
Import ListNotations.
Open Scope Z_scope.

(* number of positions of [sub] that differ from the reference *)
Definition n_changed (sub ref : dna) : Z :=
  zlen (filter (fun p => negb (nuc_eqb (fst p) (snd p))) (combine sub ref)).

(* ------------------------------------------------------------------ auxiliary lemmas *)

Lemma m2_some_inj {X} (a b : X) : Some a = Some b -> a = b.
Proof. congruence. Qed.

Lemma m2_mapM_length {X Y} (f : X -> option Y) : forall l r,
  mapM f l = Some r -> List.length r = List.length l.
Proof.
  induction l as [|x l IH]; intros r H; cbn [mapM] in H.
  - injection H as <-. reflexivity.
  - destruct (f x); [|discriminate]. destruct (mapM f l) eqn:E; [|discriminate].
    injection H as <-. cbn [List.length]. f_equal. apply IH. reflexivity.
Qed.

(* every position is either equal to the reference (a [false] of diff_array) or changed *)
Lemma m2_diff_split : forall a b : dna, List.length a = List.length b ->
  zlen a = zlen (filter (fun b : bool => negb b) (diff_array a b)) + n_changed a b.
Proof.
  unfold n_changed.
  induction a as [|x a IH]; intros [|y b] Hl; cbn [List.length] in Hl; try discriminate.
  - reflexivity.
  - cbn [diff_array combine filter fst snd].
    assert (Hl' : List.length a = List.length b) by lia. specialize (IH b Hl').
    destruct (nuc_eqb x y); cbn [negb]; rewrite !zlenB_cons; lia.
Qed.

(* the count the implementation computes (number of positions - number of unchanged positions)
   is the number of changed positions *)
Lemma m2_n_diff l idx ref s sub :
  extract_subsequence l idx s = Some sub -> zlen sub = zlen ref ->
  (idx = None -> loc_len l = zlen ref) ->
  match idx with Some ix => zlen ix | None => loc_len l end
  - zlen (absolute_positions l idx (indices_where (fun b : bool => negb b) (diff_array sub ref) 0))
  = n_changed sub ref.
Proof.
  intros Hs Hlen Hloc. rewrite zlenB_abs_pos, zlenB_indices_where.
  assert (Hn : match idx with Some ix => zlen ix | None => loc_len l end = zlen sub).
  { destruct idx as [ix|].
    - unfold extract_subsequence, take_indices in Hs. apply m2_mapM_length in Hs.
      unfold zlen. lia.
    - rewrite (Hloc eq_refl). lia. }
  rewrite Hn. rewrite (m2_diff_split sub ref) at 1 by (unfold zlen in Hlen; lia). lia.
Qed.

(* EnforceChanges used as a constraint (minimum m): score = (number of changed positions) - m, it passes
   iff at least m positions differ from the reference; location or indices form.
   In the location form the implementation counts len(location) positions, so the location must have
   the length of the reference (what the constructor guarantees for a location inside the sequence);
   without it the statement is false, see [enforce_changes_location_length_needed]. *)
Theorem enforce_changes_minimum_meaning : forall l idx ref m am s e sub,
  extract_subsequence l idx s = Some sub -> zlen sub = zlen ref ->
  (idx = None -> loc_len l = zlen ref) ->
  eval_enforce_changes l idx ref (Some m) am s = Some e ->
  score e = zq (n_changed sub ref - m) /\
  (passes e = true <-> m <= n_changed sub ref) /\
  locs e = Some [l].
Proof.
  intros l idx ref m am s e sub Hs Hlen Hloc He.
  unfold eval_enforce_changes in He. rewrite Hs in He.
  replace (zlen sub =? zlen ref) with true in He by (symmetry; apply Z.eqb_eq; exact Hlen).
  cbn [negb] in He. cbv zeta in He. rewrite (m2_n_diff l idx ref s sub Hs Hlen Hloc) in He.
  injection He as <-.
  split; [reflexivity|]. split; [|reflexivity].
  rewrite passes_mkEv_zq. lia.
Qed.

(* the added hypothesis is needed: a location longer than the sequence *)
Lemma enforce_changes_location_length_needed :
  let l := mkLoc 0 6 1 in let s := sq "ACGT" in let ref := sq "ACGT" in
  extract_subsequence l None s = Some ref /\
  exists e, eval_enforce_changes l None ref (Some 1) None s = Some e /\
            passes e = true /\ n_changed ref ref = 0.
Proof.
  cbv zeta. split; [reflexivity|]. eexists. split; [reflexivity|]. split; reflexivity.
Qed.

(* EnforceChanges used as an objective (amount a): score = -|changed - a| *)
Theorem enforce_changes_amount_meaning : forall l idx ref a s e sub,
  extract_subsequence l idx s = Some sub -> zlen sub = zlen ref ->
  (idx = None -> loc_len l = zlen ref) ->
  eval_enforce_changes l idx ref None (Some a) s = Some e ->
  (score e == - Qabs (zq (n_changed sub ref) - a))%Q /\
  (passes e = true <-> (zq (n_changed sub ref) == a)%Q).
Proof.
  intros l idx ref a s e sub Hs Hlen Hloc He.
  unfold eval_enforce_changes in He. rewrite Hs in He.
  replace (zlen sub =? zlen ref) with true in He by (symmetry; apply Z.eqb_eq; exact Hlen).
  cbn [negb] in He. cbv zeta in He. rewrite (m2_n_diff l idx ref s sub Hs Hlen Hloc) in He.
  apply m2_some_inj in He. subst e. cbv beta iota delta [score].
  split; [apply Qeq_refl|].
  rewrite passes_score. cbv beta iota delta [score].
  set (d := (zq (n_changed sub ref) - a)%Q).
  pose proof (Qabs_nonneg d) as Hnn.
  split.
  - intros H. assert (Hle : (Qabs d <= 0)%Q) by lra.
    apply Qabs_Qle_condition in Hle. unfold d in Hle. lra.
  - intros H. assert (Hd : (d == 0)%Q) by (unfold d; lra).
    rewrite Hd. cbn. lra.
Qed.

(* a wanted protein read position by position: no wrong residue = the translation is a prefix *)
Lemma m2_prefix : forall (got tr : astr),
  filter (fun p : ascii * option ascii =>
            match snd p with Some want => negb (Ascii.eqb (fst p) want) | None => true end)
         (combine got (map (fun i => nth_error tr i) (List.seq 0 (List.length got)))) = [] ->
  (List.length got <= List.length tr)%nat /\ got = firstn (List.length got) tr.
Proof.
  induction got as [|a g IH]; intros tr H.
  - split; [cbn [List.length]; lia | reflexivity].
  - cbn [List.length List.seq map combine filter fst snd] in H.
    destruct tr as [|w tr']; cbn [nth_error] in H; [discriminate H|].
    destruct (Ascii.eqb a w) eqn:E; cbn [negb] in H; [|discriminate H].
    apply Ascii.eqb_eq in E. subst w.
    rewrite <- seq_shift, map_map in H. cbn [nth_error] in H.
    destruct (IH tr' H) as [H1 H2].
    split; [cbn [List.length]; lia|]. cbn [List.length firstn]. f_equal. exact H2.
Qed.

(* EnforceTranslation without start-codon policy: score = - number of codons whose amino acid is not
   the wanted one (a codon beyond the wanted protein counts as wrong); passes iff the region encodes
   exactly a prefix-compatible protein: every translated codon equals the wanted residue *)
Theorem translation_meaning : forall T l tr s e,
  eval_translation T l tr StartNone s = Some e ->
  exists got, translate_start T (extract l s) false = Some got /\
    let wrong := filter (fun p => match snd p with
                                  | Some want => negb (Ascii.eqb (fst p) want)
                                  | None => true
                                  end)
                        (combine got (map (fun i => nth_error tr i) (List.seq 0 (List.length got)))) in
    score e = zq (- zlen wrong) /\
    (passes e = true <-> wrong = []) /\
    (wrong = [] -> List.length got <= List.length tr /\ got = firstn (List.length got) tr)%nat.
Proof.
  intros T l tr s e He. unfold eval_translation in He. cbv beta zeta iota in He.
  destruct (translate_start T (extract l s) false) as [got|]; [|discriminate He].
  exists got. split; [reflexivity|].
  assert (Hg : match got with _ :: _ => got | [] => got end = got) by (destruct got; reflexivity).
  rewrite Hg in He. clear Hg. injection He as <-. cbv zeta.
  set (wrong := filter _ _).
  assert (Hsc : score (mkEv (zq (- zlen (indices_where
                  (fun p : ascii * option ascii =>
                     match snd p with Some want => negb (Ascii.eqb (fst p) want) | None => true end)
                  (combine got (map (fun i => nth_error tr i) (List.seq 0 (List.length got)))) 0)))
                  (Some (map (codon_loc l) (indices_where
                  (fun p : ascii * option ascii =>
                     match snd p with Some want => negb (Ascii.eqb (fst p) want) | None => true end)
                  (combine got (map (fun i => nth_error tr i) (List.seq 0 (List.length got)))) 0))))
                = zq (- zlen wrong)).
  { cbn [score]. rewrite zlenB_indices_where. reflexivity. }
  split; [exact Hsc|]. split.
  - rewrite (passes_zq_score _ _ Hsc). rewrite <- zlen_zero_nil.
    pose proof (zlenB_nonneg wrong). lia.
  - intros Hw. apply m2_prefix. exact Hw.
Qed.

(* AvoidRareCodons: score = sum over the rare codons (frequency below the threshold) of
   (frequency - threshold) <= 0; passes iff no codon of the region is rare *)
Theorem rare_codons_meaning : forall fr mf l s e,
  eval_rare_codons fr mf l s = Some e ->
  exists cods, get_codons l s = Some cods /\
    let is_rare c := match qassoc c fr with Some f => negb (Qle_bool mf f) | None => false end in
    (score e == qsum (map (fun c => match qassoc c fr with Some f => (f - mf)%Q | None => 0%Q end)
                          (filter is_rare cods)))%Q /\
    (score e <= 0)%Q /\
    (passes e = true <-> forall c, In c cods -> is_rare c = false).
Proof.
  intros fr mf l s e He. unfold eval_rare_codons in He.
  destruct (get_codons l s) as [cods|]; [|discriminate He].
  exists cods. split; [reflexivity|]. cbv zeta in He |- *. injection He as <-. cbn [score].
  set (is_rare := fun c : dna => match qassoc c fr with Some f => negb (Qle_bool mf f) | None => false end).
  set (g := fun c : dna => match qassoc c fr with Some f => (f - mf)%Q | None => 0%Q end).
  assert (Hneg : Forall (fun q => (q < 0)%Q) (map g (filter is_rare cods))).
  { rewrite Forall_map. apply Forall_forall. intros c Hin. apply filter_In in Hin.
    destruct Hin as [_ Hr]. unfold is_rare in Hr. unfold g.
    destruct (qassoc c fr) as [f|]; [|discriminate Hr].
    apply negb_true_iff in Hr.
    assert (Hn : ~ (mf <= f)%Q) by (intros Hle; apply Qle_bool_iff in Hle; congruence).
    apply Qnot_le_lt in Hn. lra. }
  split; [apply Qeq_refl|]. split; [apply qsum_neg_nonpos; exact Hneg|].
  rewrite passes_score. cbn [score]. rewrite (qsum_neg_iff _ Hneg).
  split.
  - intros H c Hc. apply map_eq_nil in H.
    change (is_rare c = false). destruct (is_rare c) eqn:E; [|reflexivity].
    assert (Hin : In c (filter is_rare cods)) by (apply filter_In; split; assumption).
    rewrite H in Hin. destruct Hin.
  - intros H. replace (filter is_rare cods) with (@nil dna); [reflexivity|].
    symmetry. apply filter_none. exact H.
Qed.

Lemma m2_qsum_map_opp {X} (f : X -> Q) (l : list X) :
  (qsum (map (fun w => (- f w)%Q) l) == - qsum (map f l))%Q.
Proof.
  induction l as [|x l IH]; [unfold qsum; cbn [map fold_right]; lra|].
  cbn [map].
  change (qsum ((- f x)%Q :: map (fun w => (- f w)%Q) l)) with (- f x + qsum (map (fun w => (- f w)%Q) l))%Q.
  change (qsum (f x :: map f l)) with (f x + qsum (map f l))%Q. lra.
Qed.

(* EnforceTerminalGCContent: score = - sum of the breaches of the terminal windows; passes iff both
   (all) windows are within bounds; the locations are exactly the breaching windows *)
Theorem terminal_gc_meaning : forall mini maxi ends s,
  (mini <= maxi)%Q ->
  let e := eval_terminal_gc mini maxi ends s in
  let g w := (count_gc (extract w s) # Z.to_pos (zlen (extract w s))) in
  (score e == - qsum (map (fun w => breach mini maxi (g w)) ends))%Q /\
  (passes e = true <-> forall w, In w ends -> (mini <= g w)%Q /\ (g w <= maxi)%Q) /\
  (forall w, In w ends -> ~ ((mini <= g w)%Q /\ (g w <= maxi)%Q) ->
     exists ls, locs e = Some ls /\ In w ls).
Proof.
  intros mini maxi ends s _. cbv zeta.
  set (g := fun w : loc => (count_gc (extract w s) # Z.to_pos (zlen (extract w s)))).
  assert (Hsc : (score (eval_terminal_gc mini maxi ends s)
                 == - qsum (map (fun w => breach mini maxi (g w)) ends))%Q).
  { unfold eval_terminal_gc. cbn [score]. rewrite map_map. cbn [snd].
    apply (m2_qsum_map_opp (fun w => breach mini maxi (g w))). }
  split; [exact Hsc|]. split.
  - rewrite passes_score. rewrite Hsc.
    assert (Hnn : Forall (fun x => (0 <= x)%Q) (map (fun w => breach mini maxi (g w)) ends)).
    { rewrite Forall_map. apply Forall_forall. intros w _. apply SpecsLocalA.breach_nonneg. }
    pose proof (qsum_le0_iff _ Hnn) as Hiff.
    rewrite Forall_map, Forall_forall in Hiff.
    split.
    + intros H w Hw. apply breach_le0_iff. apply Hiff; [lra | exact Hw].
    + intros H. assert (Hq : (qsum (map (fun w => breach mini maxi (g w)) ends) <= 0)%Q).
      { apply Hiff. intros w Hw. apply breach_le0_iff. apply H. exact Hw. }
      lra.
  - intros w Hw Hout. unfold eval_terminal_gc. cbn [locs]. eexists. split; [reflexivity|].
    apply in_map_iff. exists (w, (- breach mini maxi (g w))%Q). split; [reflexivity|].
    apply filter_In. split.
    + apply in_map_iff. exists w. split; [reflexivity | exact Hw].
    + cbn [snd]. apply negb_true_iff. apply not_true_iff_false. intros Hb.
      apply Qle_bool_iff in Hb. apply Hout. apply breach_le0_iff. lra.
Qed.
