(* Bridge: the kernels regenerated from /repo's Python source on this run are extensionally
   equal to the hand model.  Re-proved on every run; a semantic edit of the source breaks it. *)
From Coq Require Import ZArith Bool List Lia.
From DC Require Import Model.Base Model.Loc Generated.GenKernels.
Open Scope Z_scope.

Ltac brk :=
  repeat match goal with
  | |- context [if ?c then _ else _] => destruct c eqn:?
  | |- context [match ?x with Some _ => _ | None => _ end] => destruct x eqn:?
  end.

Lemma gen_overlap_region_eq a b : Gen.overlap_region a b = overlap_region a b.
Proof. unfold Gen.overlap_region, overlap_region. brk; try reflexivity; try lia. Qed.

Lemma gen_extended_eq a n lo up l r : Gen.extended a n lo up l r = extended a n lo up l r.
Proof. unfold Gen.extended, extended. destruct l, r, up; reflexivity. Qed.

Lemma gen_to_tuple_eq a : Gen.to_tuple a = to_tuple a.
Proof. reflexivity. Qed.
Lemma gen_loc_add_eq a n : Gen.loc_add a n = loc_add a n.
Proof. reflexivity. Qed.
Lemma gen_loc_sub_eq a n : Gen.loc_sub a n = loc_sub a n.
Proof. reflexivity. Qed.
Lemma gen_loc_len_eq a : Gen.loc_len a = loc_len a.
Proof. reflexivity. Qed.

Ltac zb :=
  repeat match goal with
  | |- context [?a <? ?b] => destruct (Z.ltb_spec a b)
  | |- context [?a <=? ?b] => destruct (Z.leb_spec a b)
  | |- context [?a =? ?b] => destruct (Z.eqb_spec a b)
  | |- context [?a >=? ?b] => rewrite (Z.geb_leb a b)
  | |- context [?a >? ?b] => rewrite (Z.gtb_ltb a b)
  end.

Lemma gen_windows_overlap_eq w1 w2 : Gen.windows_overlap w1 w2 = windows_overlap w1 w2.
Proof.
  destruct w1 as [s1 e1], w2 as [s2 e2].
  unfold Gen.windows_overlap, Gen.windows_overlap_rec, Gen.windows_overlap_rec0, windows_overlap.
  zb; simpl; try reflexivity; try lia.
Qed.
