(* C09 / C08 lemmas, part C: codon-wise specifications.  CodonSpecification.localized snaps the
   overlap to codon boundaries (codon_window); per-codon terms outside are unchanged.

   Proof plan: the codons of the extract of l split as prefix ++ middle ++ suffix, where the middle
   part is exactly the list of codons of the extract of the codon window nl (split_core); prefix
   and suffix do not meet the edited window, hence are the same lists for s and s'.  Every
   codon-wise score is a sum of per-codon terms indexed by the codon number (osum); the laws follow
   generically (gen_laws) from a "bridge" lemma per class relating evaluate to osum. *)
From Coq Require Import ZArith QArith Qminmax Qabs Bool List Lia ZifyBool Ascii.
From DC Require Import Model.Base Model.Loc Model.Bio Model.Pattern Model.MSpace Model.Specs
                       Proofs.SpecsDefs Proofs.LocProofs Proofs.BioA Generated.GenTables.
Import ListNotations.
Open Scope Z_scope.

Local Ltac Zify.zify_post_hook ::= Z.to_euclidean_division_equations.

Lemma some_triple_inv : forall {A B C} (a a' : A) (b b' : B) (c c' : C),
  Some (a, b, c) = Some (a', b', c') -> a = a' /\ b = b' /\ c = c'.
Proof. intros A B C a a' b b' c c' H. inversion H. auto. Qed.

(* internal version of codon_window_spec, also valid for an empty location *)
Lemma cw_facts : forall l w nl sc ec,
  loc_in l (lend l) -> (loc_len l) mod 3 = 0 -> lstart w < lend w ->
  codon_window l w = Some (nl, sc, ec) ->
  0 <= sc /\ sc < ec /\
  lstrand nl = lstrand l /\
  (if lstrand l =? -1
   then lend nl = lend l - 3 * sc /\ lstart nl = Z.max (lstart l) (lend l - 3 * ec)
   else lstart nl = lstart l + 3 * sc /\ lend nl = Z.min (lend l) (lstart l + 3 * ec)) /\
  lstart l <= lstart nl /\ lstart nl <= lend nl /\ lend nl <= lend l /\
  (lstart l < lend l -> 3 * ec <= loc_len l) /\
  (lstart l = lend l -> sc = 0 /\ ec = 1) /\
  (loc_len nl) mod 3 = 0 /\
  (forall i, lstart l <= i < lend l -> lstart w <= i < lend w -> lstart nl <= i < lend nl).
Proof.
  intros l w nl sc ec Hin Hmod Hw Hcw.
  unfold loc_in in Hin. unfold loc_len in *.
  unfold codon_window, overlap_region in Hcw.
  destruct (lstrand l =? -1) eqn:Hs; cbn [negb] in Hcw.
  - zb; try discriminate; cbn [lstart lend lstrand] in *;
    apply some_triple_inv in Hcw; destruct Hcw as [Hnl [Hsc Hec]]; subst nl sc ec;
    cbn [lstart lend lstrand]; repeat split; try lia.
  - zb; try discriminate; cbn [lstart lend lstrand] in *;
    apply some_triple_inv in Hcw; destruct Hcw as [Hnl [Hsc Hec]]; subst nl sc ec;
    cbn [lstart lend lstrand]; repeat split; try lia.
Qed.

(* ------------------------------------------------------------------ lists *)
Lemma skipn_skipn' : forall {A} (y x : nat) (l : list A), skipn x (skipn y l) = skipn (y + x) l.
Proof.
  intros A y. induction y as [|y IH]; intros x l.
  - reflexivity.
  - destruct l as [|a l].
    + cbn [skipn plus]. destruct x; reflexivity.
    + cbn [skipn plus]. apply IH.
Qed.

Lemma skipn_S_tl : forall {A} (x : nat) (l : list A), skipn (S x) l = skipn x (tl l).
Proof. intros A x l. destruct l as [|a l]; cbn [skipn tl]; [rewrite skipn_nil|]; reflexivity. Qed.

Lemma nth_error_tl : forall {A} (l : list A) i, nth_error (tl l) i = nth_error l (S i).
Proof. intros A l i. destruct l as [|a l]; cbn [tl nth_error]; [destruct i|]; reflexivity. Qed.

Lemma fs_ext : forall {A} (y x : nat) (s s' : list A),
  (forall i, (x <= i < x + y)%nat -> nth_error s i = nth_error s' i) ->
  firstn y (skipn x s) = firstn y (skipn x s').
Proof.
  intros A y x. induction x as [|x IHx]; intros s s' H.
  - cbn [skipn]. revert s s' H. induction y as [|y IHy]; intros s s' H.
    + reflexivity.
    + destruct s as [|a s], s' as [|a' s'].
      * reflexivity.
      * specialize (H 0%nat). cbn [nth_error] in H. assert (Hf : None = Some a') by (apply H; lia). discriminate.
      * specialize (H 0%nat). cbn [nth_error] in H. assert (Hf : Some a = None) by (apply H; lia). discriminate.
      * cbn [firstn]. f_equal.
        -- assert (Hf : Some a = Some a') by (apply (H 0%nat); lia). congruence.
        -- apply IHy. intros i Hi. apply (H (S i)). lia.
  - rewrite !skipn_S_tl. apply IHx. intros i Hi. rewrite !nth_error_tl. apply H. lia.
Qed.

Lemma nth_error_firstn_lt : forall {A} (m i : nat) (L : list A),
  (i < m)%nat -> nth_error (firstn m L) i = nth_error L i.
Proof.
  intros A m. induction m as [|m IH]; intros i L H; [lia|].
  destruct L as [|a L]; [reflexivity|]. destruct i as [|i]; [reflexivity|].
  cbn [firstn nth_error]. apply IH. lia.
Qed.

Lemma nth_error_skipn' : forall {A} (n i : nat) (L : list A),
  nth_error (skipn n L) i = nth_error L (n + i).
Proof.
  intros A n. induction n as [|n IH]; intros i L; [reflexivity|].
  rewrite skipn_S_tl, IH, nth_error_tl. reflexivity.
Qed.

Lemma nth_error_fs : forall {A} (m n i : nat) (L : list A),
  (i < m)%nat -> nth_error (firstn m (skipn n L)) i = nth_error L (n + i).
Proof. intros A m n i L H. rewrite nth_error_firstn_lt by exact H. apply nth_error_skipn'. Qed.

(* ------------------------------------------------------------------ codons *)
Lemma codons_firstn : forall k (t : dna), firstn k (codons t) = codons (firstn (3 * k) t).
Proof.
  induction k as [|k IH]; intro t.
  - reflexivity.
  - replace (3 * S k)%nat with (S (S (S (3 * k)))) by lia.
    destruct t as [|a [|b [|c t]]]; try reflexivity.
    rewrite codons_cons3. cbn [firstn]. rewrite codons_cons3. f_equal. apply IH.
Qed.

Lemma codons_skipn : forall k (t : dna), skipn k (codons t) = codons (skipn (3 * k) t).
Proof.
  induction k as [|k IH]; intro t.
  - reflexivity.
  - replace (3 * S k)%nat with (S (S (S (3 * k)))) by lia.
    destruct t as [|a [|b [|c t]]]; try reflexivity.
    rewrite codons_cons3. cbn [skipn]. apply IH.
Qed.

Lemma codons_length : forall k (t : dna), List.length t = (3 * k)%nat -> List.length (codons t) = k.
Proof.
  induction k as [|k IH]; intros t H.
  - destruct t; [reflexivity|simpl in H; lia].
  - destruct t as [|a [|b [|c t]]]; simpl in H; try lia.
    rewrite codons_cons3. cbn [List.length]. f_equal. apply IH. lia.
Qed.

(* ------------------------------------------------------------------ sub-extracts *)
Definition sub (neg : bool) (x y : nat) (s : dna) : dna :=
  if neg then rc (firstn y (skipn x s)) else firstn y (skipn x s).

Lemma sub_length : forall neg x y s, (x + y <= List.length s)%nat -> List.length (sub neg x y s) = y.
Proof.
  intros neg x y s H. unfold sub. destruct neg; [rewrite rc_length|];
  rewrite firstn_length, skipn_length; lia.
Qed.

Lemma extract_sub : forall l s, 0 <= lstart l -> lstart l <= lend l -> lend l <= zlen s ->
  extract l s = sub (lstrand l =? -1) (Z.to_nat (lstart l)) (Z.to_nat (lend l - lstart l)) s.
Proof.
  intros l s H0 H1 H2. unfold extract, sub, pyslice, norm_idx, slice.
  destruct (lstart l <? 0) eqn:E1; [lia|]. destruct (lend l <? 0) eqn:E2; [lia|].
  rewrite !Z.min_r by lia. reflexivity.
Qed.

Lemma sub_sub : forall neg x r p q s, (x + r <= List.length s)%nat ->
  firstn p (skipn q (sub neg x r s)) =
  sub neg (if neg then x + (r - q - p) else x + q)%nat
          (if neg then (r - q) - (r - q - p) else Nat.min p (r - q))%nat s.
Proof.
  intros neg x r p q s H. unfold sub. destruct neg.
  - assert (HX : List.length (firstn r (skipn x s)) = r)
      by (rewrite firstn_length, skipn_length; lia).
    unfold rc. rewrite skipn_rev, firstn_rev, firstn_length, map_length, HX.
    rewrite firstn_map, skipn_map. f_equal. f_equal.
    rewrite firstn_firstn, skipn_firstn_comm, skipn_skipn'.
    f_equal; [lia|]. f_equal. lia.
  - rewrite skipn_firstn_comm, firstn_firstn, skipn_skipn'. reflexivity.
Qed.

Lemma sub_agree : forall neg x y s s',
  (forall i, (x <= i < x + y)%nat -> nth_error s i = nth_error s' i) ->
  sub neg x y s = sub neg x y s'.
Proof. intros neg x y s s' H. unfold sub. rewrite (fs_ext y x s s' H). reflexivity. Qed.

Lemma agree_nat : forall w s s' i, agree_outside w s s' ->
  ~ (lstart w <= Z.of_nat i < lend w) -> nth_error s i = nth_error s' i.
Proof.
  intros w s s' i [_ H] Hn. specialize (H (Z.of_nat i)). rewrite Nat2Z.id in H. apply H; [lia|exact Hn].
Qed.

(* ------------------------------------------------------------------ the codon split *)
(* cw_facts restated with natural numbers *)
Lemma cw_nat : forall l w nl sc ec,
  loc_in l (lend l) -> (loc_len l) mod 3 = 0 -> lstart w < lend w ->
  codon_window l w = Some (nl, sc, ec) ->
  exists k,
    Z.to_nat (lend l - lstart l) = (3 * k)%nat /\ k = Z.to_nat (loc_len l / 3) /\
    (lstrand nl =? -1) = (lstrand l =? -1) /\
    0 <= lstart nl /\ lstart nl <= lend nl /\ lend nl <= lend l /\ 0 <= sc /\ sc < ec /\
    (((Z.to_nat sc + Z.to_nat (ec - sc) <= k)%nat /\
      Z.to_nat (lend nl - lstart nl) = (3 * Z.to_nat (ec - sc))%nat /\
      Z.to_nat (lstart nl) =
        (if lstrand l =? -1
         then (Z.to_nat (lstart l) + 3 * k - 3 * (Z.to_nat sc + Z.to_nat (ec - sc)))%nat
         else (Z.to_nat (lstart l) + 3 * Z.to_nat sc)%nat)) \/
     (k = 0%nat /\ Z.to_nat sc = 0%nat /\ Z.to_nat (ec - sc) = 1%nat /\
      Z.to_nat (lstart nl) = Z.to_nat (lstart l) /\ Z.to_nat (lend nl - lstart nl) = 0%nat)) /\
    (forall i : nat, (Z.to_nat (lstart l) <= i < Z.to_nat (lstart l) + 3 * k)%nat ->
       lstart w <= Z.of_nat i < lend w ->
       (Z.to_nat (lstart nl) <= i < Z.to_nat (lstart nl) + Z.to_nat (lend nl - lstart nl))%nat).
Proof.
  intros l w nl sc ec Hin Hmod Hw Hcw.
  destruct (cw_facts l w nl sc ec Hin Hmod Hw Hcw)
    as [Hsc [Hec [Hst [Hpos [Hn1 [Hn2 [Hn3 [Hne [Hem [Hm3 Hcov]]]]]]]]]].
  destruct Hin as [Hi0 [Hi1 _]]. unfold loc_len in *.
  exists (Z.to_nat ((lend l - lstart l) / 3)).
  assert (Hk : lend l - lstart l = 3 * ((lend l - lstart l) / 3)) by lia.
  assert (Hk0 : 0 <= (lend l - lstart l) / 3) by lia.
  set (q := (lend l - lstart l) / 3) in *. clearbody q. clear Hmod Hm3.
  split; [lia|]. split; [reflexivity|]. split; [rewrite Hst; reflexivity|].
  split; [lia|]. split; [lia|]. split; [lia|]. split; [lia|]. split; [lia|].
  split.
  - destruct (Z.eq_dec (lstart l) (lend l)) as [He|He].
    + right. destruct (Hem He) as [-> ->]. clear Hem Hne Hcov.
      destruct (lstrand l =? -1); lia.
    + left. assert (H3 : 3 * ec <= 3 * q) by lia. clear Hem Hne Hcov.
      destruct (lstrand l =? -1); lia.
  - intros i Hi Hwi. specialize (Hcov (Z.of_nat i)). lia.
Qed.

Lemma split_core : forall l w s s' nl sc ec,
  loc_in l (zlen s) -> (loc_len l) mod 3 = 0 -> window_in w (zlen s) -> agree_outside w s s' ->
  codon_window l w = Some (nl, sc, ec) ->
  exists P M M' S,
    codons (extract l s) = P ++ M ++ S /\ codons (extract l s') = P ++ M' ++ S /\
    codons (extract nl s) = M /\ codons (extract nl s') = M' /\
    List.length P = Z.to_nat sc /\ List.length M = List.length M' /\
    (List.length M <= Z.to_nat (ec - sc))%nat /\
    List.length (P ++ M ++ S) = Z.to_nat (loc_len l / 3) /\
    M = firstn (Z.to_nat (ec - sc)) (skipn (Z.to_nat sc) (P ++ M ++ S)) /\
    zlen (extract l s) = loc_len l /\ zlen (extract l s') = loc_len l /\
    zlen (extract nl s) = loc_len nl /\ zlen (extract nl s') = loc_len nl.
Proof.
  intros l w s s' nl sc ec Hin Hmod Hw Hag Hcw.
  assert (Hlen : zlen s' = zlen s) by (destruct Hag as [Hl _]; unfold zlen; rewrite Hl; reflexivity).
  destruct Hin as [Hi0 [Hi1 [Hi2 Hi3]]]. destruct Hw as [Hw0 [Hw1 Hw2]].
  assert (Hin' : loc_in l (lend l)) by (unfold loc_in; repeat split; auto; lia).
  destruct (cw_nat l w nl sc ec Hin' Hmod Hw1 Hcw)
    as [k [Hrk [Hkd [Hst [Hn0 [Hn1 [Hn2 [Hsc [Hec [Hcase Hcov]]]]]]]]]].
  rewrite <- Hkd. clear Hkd Hmod Hin' Hcw.
  unfold loc_len.
  rewrite (extract_sub l s), (extract_sub l s'), (extract_sub nl s), (extract_sub nl s') by lia.
  rewrite Hst.
  assert (Hls : (Z.to_nat (lstart l) + Z.to_nat (lend l - lstart l) <= List.length s)%nat)
    by (unfold zlen in *; lia).
  assert (Hls' : (Z.to_nat (lstart l) + Z.to_nat (lend l - lstart l) <= List.length s')%nat)
    by (unfold zlen in *; lia).
  assert (Hlsn : (Z.to_nat (lstart nl) + Z.to_nat (lend nl - lstart nl) <= List.length s)%nat)
    by (unfold zlen in *; lia).
  assert (Hlsn' : (Z.to_nat (lstart nl) + Z.to_nat (lend nl - lstart nl) <= List.length s')%nat)
    by (unfold zlen in *; lia).
  assert (Hz1 : Z.of_nat (Z.to_nat (lend l - lstart l)) = lend l - lstart l) by lia.
  assert (Hz2 : Z.of_nat (Z.to_nat (lend nl - lstart nl)) = lend nl - lstart nl) by lia.
  set (n := Z.to_nat sc) in *. set (m := Z.to_nat (ec - sc)) in *.
  set (a := Z.to_nat (lstart l)) in *. set (r := Z.to_nat (lend l - lstart l)) in *.
  set (na := Z.to_nat (lstart nl)) in *. set (ra := Z.to_nat (lend nl - lstart nl)) in *.
  set (neg := lstrand l =? -1) in *.
  clearbody n m a r na ra neg. clear Hi0 Hi1 Hi2 Hi3 Hn0 Hn1 Hn2 Hw0 Hw1 Hw2 Hsc Hec Hst Hlen.
  set (X := sub neg a r s). set (X' := sub neg a r s').
  assert (HXl : List.length X = (3 * k)%nat) by (unfold X; rewrite sub_length; assumption).
  assert (HXl' : List.length X' = (3 * k)%nat) by (unfold X'; rewrite sub_length; assumption).
  assert (HCl : List.length (codons X) = k) by (apply codons_length; exact HXl).
  assert (HCl' : List.length (codons X') = k) by (apply codons_length; exact HXl').
  (* the middle part is the extract of nl *)
  assert (Hmid : forall t, (a + r <= List.length t)%nat ->
            sub neg na ra t = firstn (3 * m) (skipn (3 * n) (sub neg a r t))).
  { intros t Ht. rewrite sub_sub by exact Ht. clear Hcov.
    destruct Hcase as [[Hc1 [Hc2 Hc3]]|[Hc1 [Hc2 [Hc3 [Hc4 Hc5]]]]]; destruct neg; f_equal; lia. }
  (* prefix and suffix agree *)
  assert (Hpre : firstn (3 * n) X = firstn (3 * n) X').
  { change (firstn (3 * n) X) with (firstn (3 * n) (skipn 0 X)).
    change (firstn (3 * n) X') with (firstn (3 * n) (skipn 0 X')).
    unfold X, X'. rewrite !sub_sub by assumption. apply sub_agree.
    intros i Hi. apply (agree_nat w); [exact Hag|]. intro Hwi.
    specialize (Hcov i).
    destruct Hcase as [[Hc1 [Hc2 Hc3]]|[Hc1 [Hc2 [Hc3 [Hc4 Hc5]]]]]; destruct neg; lia. }
  assert (Hsuf : skipn (3 * (n + m)) X = skipn (3 * (n + m)) X').
  { rewrite <- (firstn_all2 (n := r) (skipn (3 * (n + m)) X))
      by (rewrite skipn_length; lia).
    rewrite <- (firstn_all2 (n := r) (skipn (3 * (n + m)) X'))
      by (rewrite skipn_length; lia).
    unfold X, X'. rewrite !sub_sub by assumption. apply sub_agree.
    intros i Hi. apply (agree_nat w); [exact Hag|]. intro Hwi.
    specialize (Hcov i).
    destruct Hcase as [[Hc1 [Hc2 Hc3]]|[Hc1 [Hc2 [Hc3 [Hc4 Hc5]]]]]; destruct neg; lia. }
  exists (firstn n (codons X)), (firstn m (skipn n (codons X))),
         (firstn m (skipn n (codons X'))), (skipn m (skipn n (codons X))).
  assert (HC : firstn n (codons X) ++ firstn m (skipn n (codons X)) ++ skipn m (skipn n (codons X))
               = codons X) by (rewrite firstn_skipn; apply firstn_skipn).
  split; [symmetry; exact HC|].
  split.
  { rewrite !codons_firstn, Hpre, <- codons_firstn.
    rewrite (skipn_skipn' n m (codons X)), (codons_skipn (n + m) X), Hsuf, <- codons_skipn,
            <- skipn_skipn'.
    rewrite firstn_skipn. symmetry. apply firstn_skipn. }
  split; [rewrite (Hmid s Hls), <- codons_firstn, <- codons_skipn; reflexivity|].
  split; [rewrite (Hmid s' Hls'), <- codons_firstn, <- codons_skipn; reflexivity|].
  split; [rewrite firstn_length; clear Hcov; lia|].
  split; [rewrite !firstn_length, !skipn_length; clear Hcov; lia|].
  split; [rewrite firstn_length; clear Hcov; lia|].
  split; [rewrite HC; rewrite HCl; reflexivity|].
  split; [rewrite HC; reflexivity|].
  unfold zlen. rewrite !sub_length by assumption. rewrite HXl, HXl', <- Hrk. repeat split; assumption.
Qed.

(* ------------------------------------------------------------------ per-codon sums *)
Fixpoint osum (g : nat -> dna -> option Q) (k : nat) (L : list dna) : option Q :=
  match L with
  | [] => Some 0%Q
  | c :: L' => match g k c, osum g (S k) L' with
               | Some a, Some b => Some (a + b)%Q
               | _, _ => None
               end
  end.

Lemma osum_delta : forall g P M M' S k, List.length M = List.length M' ->
  match osum g k (P ++ M ++ S), osum g k (P ++ M' ++ S) with
  | Some x, Some x' =>
      exists y y', osum g (k + List.length P) M = Some y /\ osum g (k + List.length P) M' = Some y' /\
                   (x' - x == y' - y)%Q
  | _, _ => True
  end.
Proof.
  intros g P. induction P as [|c P IH]; intros M M' S k Hl.
  - cbn [app List.length]. rewrite Nat.add_0_r. revert M' k Hl.
    induction M as [|c M IHM]; intros M' k Hl; destruct M' as [|c' M']; try discriminate.
    + cbn [app osum]. destruct (osum g k S) as [x|]; [|exact I].
      exists 0%Q, 0%Q. split; [reflexivity|]. split; [reflexivity|]. ring.
    + cbn [app osum]. injection Hl as Hl. specialize (IHM M' (Datatypes.S k) Hl).
      destruct (g k c) as [q|]; [|exact I].
      destruct (osum g (Datatypes.S k) (M ++ S)) as [x|]; [|exact I].
      destruct (g k c') as [q'|]; [|exact I].
      destruct (osum g (Datatypes.S k) (M' ++ S)) as [x'|]; [|exact I].
      destruct IHM as [y [y' [H1 [H2 H3]]]]. rewrite H1, H2.
      exists (q + y)%Q, (q' + y')%Q. split; [reflexivity|]. split; [reflexivity|].
      assert (E : (x' == x + (y' - y))%Q) by (rewrite <- H3; ring). rewrite E. ring.
  - cbn [app osum List.length]. specialize (IH M M' S (Datatypes.S k) Hl).
    replace (k + Datatypes.S (List.length P))%nat with (Datatypes.S k + List.length P)%nat by lia.
    destruct (g k c) as [q|]; [|exact I].
    destruct (osum g (Datatypes.S k) (P ++ M ++ S)) as [x|]; [|exact I].
    destruct (osum g (Datatypes.S k) (P ++ M' ++ S)) as [x'|]; [|exact I].
    destruct IH as [y [y' [H1 [H2 H3]]]]. exists y, y'. split; [exact H1|]. split; [exact H2|].
    rewrite <- H3. ring.
Qed.

Lemma osum_shift : forall (g g' : nat -> dna -> option Q) d L k,
  (forall i c, (k <= i < k + List.length L)%nat -> g' i c = g (d + i)%nat c) ->
  osum g' k L = osum g (d + k) L.
Proof.
  intros g g' d L. induction L as [|c L IH]; intros k H.
  - reflexivity.
  - cbn [osum]. rewrite (H k c) by (cbn [List.length]; lia).
    rewrite (IH (S k)).
    + rewrite Nat.add_succ_r. reflexivity.
    + intros i c' Hi. apply H. cbn [List.length]. lia.
Qed.

Lemma osum_nonpos : forall g, (forall i c q, g i c = Some q -> (q <= 0)%Q) ->
  forall L k x, osum g k L = Some x -> (x <= 0)%Q.
Proof.
  intros g Hg L. induction L as [|c L IH]; intros k x H.
  - cbn [osum] in H. injection H as <-. apply Qle_refl.
  - cbn [osum] in H. destruct (g k c) as [q|] eqn:E1; [|discriminate].
    destruct (osum g (S k) L) as [y|] eqn:E2; [|discriminate]. injection H as <-.
    assert (H : (q + y <= 0 + 0)%Q) by (apply Qplus_le_compat; [eapply Hg; exact E1|eapply IH; exact E2]).
    exact H.
Qed.

Definition ev_rel (oe : option evaluation) (ox : option Q) : Prop :=
  match oe, ox with
  | Some e, Some x => (score e == x)%Q
  | None, None => True
  | _, _ => False
  end.

Lemma gen_laws : forall sp sp' w s s' g g' P M M' S,
  localized sp w true s = LSome sp' ->
  List.length M = List.length M' ->
  ev_rel (evaluate sp s) (osum g 0 (P ++ M ++ S)) ->
  ev_rel (evaluate sp s') (osum g 0 (P ++ M' ++ S)) ->
  ev_rel (evaluate sp' s) (osum g' 0 M) ->
  ev_rel (evaluate sp' s') (osum g' 0 M') ->
  (forall i c, (i < List.length M)%nat -> g' i c = g (List.length P + i)%nat c) ->
  local_delta_law sp w s s' /\
  ((forall i c q, g i c = Some q -> (q <= 0)%Q) -> local_pass_law sp w s s').
Proof.
  intros sp sp' w s s' g g' P M M' S Hloc Hl E1 E2 E3 E4 Hg.
  unfold local_delta_law, local_pass_law, delta. rewrite Hloc.
  pose proof (osum_delta g P M M' S 0 Hl) as Hd. cbn [plus] in Hd.
  rewrite (osum_shift g g' (List.length P) M 0) in E3
    by (intros i c Hi; apply Hg; lia).
  rewrite (osum_shift g g' (List.length P) M' 0) in E4
    by (intros i c Hi; apply Hg; lia).
  rewrite Nat.add_0_r in E3, E4.
  unfold ev_rel in *.
  destruct (evaluate sp s) as [e|]; [|split; [exact I|intros _; exact I]].
  destruct (osum g 0 (P ++ M ++ S)) as [x|]; [|contradiction].
  destruct (evaluate sp s') as [e'|]; [|split; [exact I|intros _; exact I]].
  destruct (osum g 0 (P ++ M' ++ S)) as [x'|]; [|contradiction].
  destruct Hd as [y [y' [H1 [H2 H3]]]]. rewrite H1 in E3. rewrite H2 in E4.
  destruct (evaluate sp' s) as [f|]; [|contradiction].
  destruct (evaluate sp' s') as [f'|]; [|contradiction].
  split.
  - rewrite E1, E2, E3, E4. exact H3.
  - intros Hnp Hp1 Hp2. unfold passes in *. rewrite Qle_bool_iff in *.
    rewrite E1 in Hp1. rewrite E4 in Hp2. rewrite E2.
    assert (Hy : (y <= 0)%Q) by (eapply (osum_nonpos g Hnp); exact H1).
    assert (E : (x' == x + (y' - y))%Q) by (rewrite <- H3; ring). rewrite E.
    assert (Hs : (0 + (0 - 0) <= x + (y' - y))%Q).
    { apply Qplus_le_compat; [exact Hp1|]. unfold Qminus. apply Qplus_le_compat; [exact Hp2|].
      apply Qopp_le_compat in Hy. exact Hy. }
    exact Hs.
Qed.

(* no overlap: the evaluation only reads the extract *)
Lemma none_laws : forall sp w s s',
  localized sp w true s = LNone -> evaluate sp s = evaluate sp s' ->
  local_delta_law sp w s s' /\ local_pass_law sp w s s'.
Proof.
  intros sp w s s' Hloc He. unfold local_delta_law, local_pass_law, delta. rewrite Hloc, He.
  destruct (evaluate sp s') as [e|]; split; try exact I.
  - ring.
  - intros _. reflexivity.
Qed.

Lemma extract_agree : forall l w s s',
  loc_in l (zlen s) -> agree_outside w s s' ->
  (forall i, lstart l <= i < lend l -> ~ (lstart w <= i < lend w)) ->
  extract l s = extract l s'.
Proof.
  intros l w s s' [H0 [H1 [H2 _]]] Hag Hd.
  assert (Hlen : zlen s' = zlen s) by (destruct Hag as [Hl _]; unfold zlen; rewrite Hl; reflexivity).
  rewrite (extract_sub l s), (extract_sub l s') by lia.
  apply sub_agree. intros i Hi. apply (agree_nat w); [exact Hag|]. intro Hw.
  apply (Hd (Z.of_nat i)); lia.
Qed.

Lemma overlap_none_disjoint : forall l w, lstart l <= lend l -> lstart w < lend w ->
  overlap_region l w = None ->
  forall i, lstart l <= i < lend l -> ~ (lstart w <= i < lend w).
Proof.
  intros l w Hl Hw H i Hi Hwi. unfold overlap_region in H. zb; try discriminate; lia.
Qed.

(* ------------------------------------------------------------------ helpers on Q / zq *)
Lemma zq_cons : forall {A} (i : A) r, (zq (- zlen (i :: r)) == zq (-1) + zq (- zlen r))%Q.
Proof.
  intros A i r. unfold zq, zlen. cbn [List.length]. rewrite Nat2Z.inj_succ.
  rewrite <- inject_Z_plus.
  replace (- Z.succ (Z.of_nat (List.length r))) with (-1 + - Z.of_nat (List.length r)) by lia.
  reflexivity.
Qed.

Lemma zq_neg_len_nonpos : forall {A} (r : list A), (zq (- zlen r) <= 0)%Q.
Proof.
  intros A r. unfold zq, zlen. change 0%Q with (inject_Z 0). rewrite <- Zle_Qle. lia.
Qed.

Lemma nl_mod3 : forall l w (s : dna) nl sc ec,
  loc_in l (zlen s) -> (loc_len l) mod 3 = 0 -> window_in w (zlen s) ->
  codon_window l w = Some (nl, sc, ec) -> (loc_len nl) mod 3 = 0.
Proof.
  intros l w s nl sc ec [H0 [H1 [H2 H3]]] Hmod [Hw0 [Hw1 Hw2]] Hcw.
  assert (Hin' : loc_in l (lend l)) by (unfold loc_in; repeat split; auto; lia).
  destruct (cw_facts l w nl sc ec Hin' Hmod Hw1 Hcw)
    as [_ [_ [_ [_ [_ [_ [_ [_ [_ [Hm3 _]]]]]]]]]]. exact Hm3.
Qed.

Lemma cw_none_disjoint : forall l w (s : dna), loc_in l (zlen s) -> window_in w (zlen s) ->
  codon_window l w = None ->
  forall i, lstart l <= i < lend l -> ~ (lstart w <= i < lend w).
Proof.
  intros l w s [H0 [H1 _]] [_ [Hw _]] Hcw. apply overlap_none_disjoint; [exact H1|exact Hw|].
  unfold codon_window in Hcw. destruct (overlap_region l w); [|reflexivity].
  destruct (negb (lstrand l =? -1)); discriminate.
Qed.

(* ------------------------------------------------------------------ AvoidStopCodons *)
Definition gS (T : gtable) (_ : nat) (c : dna) : option Q :=
  match codon_aa T c with
  | Some a => Some (if Ascii.eqb a "*" then zq (-1) else 0%Q)
  | None => None
  end.

Lemma stop_aux : forall T L k i,
  match mapM (codon_aa T) L, osum (gS T) k L with
  | Some got, Some x => (zq (- zlen (indices_where (fun a => Ascii.eqb a "*") got i)) == x)%Q
  | None, None => True
  | _, _ => False
  end.
Proof.
  intros T L. induction L as [|c L IH]; intros k i.
  - cbn [mapM osum indices_where]. reflexivity.
  - cbn [mapM osum]. specialize (IH (S k) (i + 1)).
    change (gS T k c) with (match codon_aa T c with
                            | Some a => Some (if Ascii.eqb a "*" then zq (-1) else 0%Q)
                            | None => None end).
    destruct (codon_aa T c) as [a|]; [|exact I].
    destruct (mapM (codon_aa T) L) as [got|]; destruct (osum (gS T) (S k) L) as [x|];
      try contradiction; try exact I.
    cbn [indices_where]. destruct (Ascii.eqb a "*").
    + rewrite zq_cons, IH. reflexivity.
    + rewrite IH. ring.
Qed.

Lemma bridge_stop : forall T l t,
  ev_rel (evaluate (SStopCodons T l) t) (osum (gS T) 0 (codons (extract l t))).
Proof.
  intros T l t. cbn [evaluate]. unfold eval_stop_codons, translate.
  pose proof (stop_aux T (codons (extract l t)) 0 0) as H. unfold ev_rel.
  destruct (mapM (codon_aa T) (codons (extract l t))) as [got|];
    destruct (osum (gS T) 0 (codons (extract l t))) as [x|]; try contradiction; try exact I.
  cbn [score]. exact H.
Qed.

Lemma gS_nonpos : forall T i c q, gS T i c = Some q -> (q <= 0)%Q.
Proof.
  intros T i c q H. unfold gS in H. destruct (codon_aa T c) as [a|]; [|discriminate].
  injection H as <-. destruct (Ascii.eqb a "*"); unfold Qle; simpl; lia.
Qed.

(* ------------------------------------------------------------------ AvoidRareCodons *)
Definition is_rare (fr : list (dna * Q)) (mf : Q) (c : dna) : bool :=
  match qassoc c fr with Some f => negb (Qle_bool mf f) | None => false end.
Definition rare_term (fr : list (dna * Q)) (mf : Q) (c : dna) : Q :=
  match qassoc c fr with Some f => (f - mf)%Q | None => 0%Q end.
Definition gR (fr : list (dna * Q)) (mf : Q) (_ : nat) (c : dna) : option Q :=
  Some (if is_rare fr mf c then rare_term fr mf c else 0%Q).

Lemma rare_aux : forall fr mf L k,
  exists x, osum (gR fr mf) k L = Some x /\
            (qsum (map (rare_term fr mf) (filter (is_rare fr mf) L)) == x)%Q.
Proof.
  intros fr mf L. induction L as [|c L IH]; intro k.
  - exists 0%Q. split; reflexivity.
  - destruct (IH (S k)) as [x [H1 H2]]. cbn [osum filter]. rewrite H1.
    change (gR fr mf k c) with (Some (if is_rare fr mf c then rare_term fr mf c else 0%Q)).
    destruct (is_rare fr mf c).
    + eexists. split; [reflexivity|]. cbn [map qsum fold_right]. fold (qsum (map (rare_term fr mf) (filter (is_rare fr mf) L))).
      rewrite H2. reflexivity.
    + eexists. split; [reflexivity|]. rewrite H2. ring.
Qed.

Lemma bridge_rare : forall fr mf l t, (zlen (extract l t)) mod 3 = 0 ->
  ev_rel (evaluate (SRareCodons fr mf l) t) (osum (gR fr mf) 0 (codons (extract l t))).
Proof.
  intros fr mf l t Hm. cbn [evaluate]. unfold eval_rare_codons, get_codons. rewrite Hm.
  cbn [Z.eqb]. destruct (rare_aux fr mf (codons (extract l t)) 0) as [x [H1 H2]].
  rewrite H1. unfold ev_rel. cbn [score]. exact H2.
Qed.

Lemma gR_nonpos : forall fr mf i c q, gR fr mf i c = Some q -> (q <= 0)%Q.
Proof.
  intros fr mf i c q H. unfold gR in H. injection H as <-.
  unfold is_rare, rare_term. destruct (qassoc c fr) as [f|]; [|apply Qle_refl].
  destruct (Qle_bool mf f) eqn:E; cbn [negb]; [apply Qle_refl|].
  assert (Hn : ~ (mf <= f)%Q) by (intro Hc; apply Qle_bool_iff in Hc; congruence).
  apply Qnot_le_lt in Hn. apply Qlt_le_weak in Hn.
  unfold Qle, Qminus, Qplus, Qopp in *. simpl in *. lia.
Qed.

(* ------------------------------------------------------------------ MaximizeCAI *)
Definition cai_h (lf lb : list (dna * Q)) (c : dna) : option Q :=
  match qassoc c lf, qassoc c lb with Some f, Some b => Some (b - f)%Q | _, _ => None end.
Definition gC (lf lb : list (dna * Q)) (_ : nat) (c : dna) : option Q :=
  match cai_h lf lb c with Some d => Some (- d)%Q | None => None end.

Lemma cai_aux : forall lf lb L k,
  match mapM (cai_h lf lb) L, osum (gC lf lb) k L with
  | Some no, Some x => (- qsum no == x)%Q
  | None, None => True
  | _, _ => False
  end.
Proof.
  intros lf lb L. induction L as [|c L IH]; intro k.
  - cbn [mapM osum qsum fold_right]. reflexivity.
  - cbn [mapM osum]. specialize (IH (S k)).
    change (gC lf lb k c) with (match cai_h lf lb c with Some d => Some (- d)%Q | None => None end).
    destruct (cai_h lf lb c) as [d|]; [|exact I].
    destruct (mapM (cai_h lf lb) L) as [no|]; destruct (osum (gC lf lb) (S k) L) as [x|];
      try contradiction; try exact I.
    cbn [qsum fold_right]. fold (qsum no). rewrite <- IH. ring.
Qed.

Lemma bridge_cai : forall lf lb l t, (zlen (extract l t)) mod 3 = 0 ->
  ev_rel (evaluate (SMaximizeCAI lf lb l) t) (osum (gC lf lb) 0 (codons (extract l t))).
Proof.
  intros lf lb l t Hm. cbn [evaluate]. unfold eval_maximize_cai, get_codons. rewrite Hm.
  cbn [Z.eqb]. pose proof (cai_aux lf lb (codons (extract l t)) 0) as H.
  fold (cai_h lf lb). unfold ev_rel.
  destruct (mapM (cai_h lf lb) (codons (extract l t))) as [no|];
    destruct (osum (gC lf lb) 0 (codons (extract l t))) as [x|]; try contradiction; try exact I.
  destruct no as [|d [|d2 no]]; cbn [score]; try exact H.
  rewrite <- H. cbn [qsum fold_right]. ring.
Qed.

Lemma gC_nonpos : forall lf lb,
  (forall c f b, qassoc c lf = Some f -> qassoc c lb = Some b -> (f <= b)%Q) ->
  forall i c q, gC lf lb i c = Some q -> (q <= 0)%Q.
Proof.
  intros lf lb Hfb i c q H. unfold gC, cai_h in H.
  destruct (qassoc c lf) as [f|] eqn:E1; [|discriminate].
  destruct (qassoc c lb) as [b|] eqn:E2; [|discriminate]. injection H as <-.
  specialize (Hfb c f b E1 E2).
  unfold Qle, Qminus, Qplus, Qopp in *. simpl in *. lia.
Qed.

(* ------------------------------------------------------------------ the laws, table-free classes *)
Theorem codon_window_none : forall l w,
  codon_window l w = None <-> overlap_region l w = None.
Proof.
  intros l w. unfold codon_window. destruct (overlap_region l w) as [o|].
  - destruct (negb (lstrand l =? -1)); split; intro H; discriminate.
  - split; reflexivity.
Qed.

Theorem stop_codons_laws : forall T l w s s',
  wf_spec (SStopCodons T l) (zlen s) -> window_in w (zlen s) -> agree_outside w s s' ->
  local_delta_law (SStopCodons T l) w s s' /\ local_pass_law (SStopCodons T l) w s s'.
Proof.
  intros T l w s s' [Hin Hmod] Hw Hag.
  destruct (codon_window l w) as [[[nl sc] ec]|] eqn:Hcw.
  - destruct (split_core l w s s' nl sc ec Hin Hmod Hw Hag Hcw)
      as [P [M [M' [S [HC [HC' [HM [HM' [HP [HMl _]]]]]]]]]].
    assert (Hloc : localized (SStopCodons T l) w true s = LSome (SStopCodons T nl))
      by (unfold localized; cbn [localized_raw]; rewrite Hcw; reflexivity).
    destruct (gen_laws _ _ w s s' (gS T) (gS T) P M M' S Hloc HMl) as [Hd Hp].
    + rewrite <- HC. apply bridge_stop.
    + rewrite <- HC'. apply bridge_stop.
    + rewrite <- HM. apply bridge_stop.
    + rewrite <- HM'. apply bridge_stop.
    + intros i c Hi. reflexivity.
    + split; [exact Hd|apply Hp, gS_nonpos].
  - apply none_laws.
    + unfold localized; cbn [localized_raw]; rewrite Hcw; reflexivity.
    + cbn [evaluate]. unfold eval_stop_codons.
      rewrite (extract_agree l w s s' Hin Hag (cw_none_disjoint l w s Hin Hw Hcw)). reflexivity.
Qed.

Theorem rare_codons_laws : forall fr mf l w s s',
  wf_spec (SRareCodons fr mf l) (zlen s) -> window_in w (zlen s) -> agree_outside w s s' ->
  local_delta_law (SRareCodons fr mf l) w s s' /\ local_pass_law (SRareCodons fr mf l) w s s'.
Proof.
  intros fr mf l w s s' [Hin [Hmod _]] Hw Hag.
  destruct (codon_window l w) as [[[nl sc] ec]|] eqn:Hcw.
  - destruct (split_core l w s s' nl sc ec Hin Hmod Hw Hag Hcw)
      as [P [M [M' [S [HC [HC' [HM [HM' [HP [HMl [_ [_ [_ [Z1 [Z2 [Z3 Z4]]]]]]]]]]]]]]]].
    pose proof (nl_mod3 l w s nl sc ec Hin Hmod Hw Hcw) as Hm3.
    assert (Hloc : localized (SRareCodons fr mf l) w true s = LSome (SRareCodons fr mf nl))
      by (unfold localized; cbn [localized_raw]; rewrite Hcw; reflexivity).
    destruct (gen_laws _ _ w s s' (gR fr mf) (gR fr mf) P M M' S Hloc HMl) as [Hd Hp].
    + rewrite <- HC. apply bridge_rare. rewrite Z1. exact Hmod.
    + rewrite <- HC'. apply bridge_rare. rewrite Z2. exact Hmod.
    + rewrite <- HM. apply bridge_rare. rewrite Z3. exact Hm3.
    + rewrite <- HM'. apply bridge_rare. rewrite Z4. exact Hm3.
    + intros i c Hi. reflexivity.
    + split; [exact Hd|apply Hp, gR_nonpos].
  - apply none_laws.
    + unfold localized; cbn [localized_raw]; rewrite Hcw; reflexivity.
    + cbn [evaluate]. unfold eval_rare_codons, get_codons.
      rewrite (extract_agree l w s s' Hin Hag (cw_none_disjoint l w s Hin Hw Hcw)). reflexivity.
Qed.

Theorem maximize_cai_laws : forall lf lb l w s s',
  wf_spec (SMaximizeCAI lf lb l) (zlen s) -> window_in w (zlen s) -> agree_outside w s s' ->
  (forall c f b, qassoc c lf = Some f -> qassoc c lb = Some b -> (f <= b)%Q) ->
  local_delta_law (SMaximizeCAI lf lb l) w s s' /\ local_pass_law (SMaximizeCAI lf lb l) w s s'.
Proof.
  intros lf lb l w s s' [Hin [Hmod _]] Hw Hag Hfb.
  destruct (codon_window l w) as [[[nl sc] ec]|] eqn:Hcw.
  - destruct (split_core l w s s' nl sc ec Hin Hmod Hw Hag Hcw)
      as [P [M [M' [S [HC [HC' [HM [HM' [HP [HMl [_ [_ [_ [Z1 [Z2 [Z3 Z4]]]]]]]]]]]]]]]].
    pose proof (nl_mod3 l w s nl sc ec Hin Hmod Hw Hcw) as Hm3.
    assert (Hloc : localized (SMaximizeCAI lf lb l) w true s = LSome (SMaximizeCAI lf lb nl))
      by (unfold localized; cbn [localized_raw]; rewrite Hcw; reflexivity).
    destruct (gen_laws _ _ w s s' (gC lf lb) (gC lf lb) P M M' S Hloc HMl) as [Hd Hp].
    + rewrite <- HC. apply bridge_cai. rewrite Z1. exact Hmod.
    + rewrite <- HC'. apply bridge_cai. rewrite Z2. exact Hmod.
    + rewrite <- HM. apply bridge_cai. rewrite Z3. exact Hm3.
    + rewrite <- HM'. apply bridge_cai. rewrite Z4. exact Hm3.
    + intros i c Hi. reflexivity.
    + split; [exact Hd|apply Hp, gC_nonpos, Hfb].
  - apply none_laws.
    + unfold localized; cbn [localized_raw]; rewrite Hcw; reflexivity.
    + cbn [evaluate]. unfold eval_maximize_cai, get_codons.
      rewrite (extract_agree l w s s' Hin Hag (cw_none_disjoint l w s Hin Hw Hcw)). reflexivity.
Qed.

(* never-positive scores (C20) *)
Theorem stop_codons_nonpos : forall T l s e, eval_stop_codons T l s = Some e -> (score e <= 0)%Q.
Proof.
  intros T l s e H. unfold eval_stop_codons in H.
  destruct (translate T (extract l s)) as [got|]; [|discriminate]. injection H as <-.
  cbn [score]. apply zq_neg_len_nonpos.
Qed.

Theorem translation_nonpos : forall T l tr st s e, eval_translation T l tr st s = Some e -> (score e <= 0)%Q.
Proof.
  intros T l tr st s e H. unfold eval_translation in H.
  destruct (translate_start T (extract l s) _) as [got|]; [|discriminate]. injection H as <-.
  cbv zeta. cbn [score]. apply zq_neg_len_nonpos.
Qed.

Theorem rare_codons_nonpos : forall fr mf l s e, eval_rare_codons fr mf l s = Some e -> (score e <= 0)%Q.
Proof.
  intros fr mf l s e H. unfold eval_rare_codons in H.
  destruct (get_codons l s) as [cods|]; [|discriminate]. injection H as <-. cbn [score].
  destruct (rare_aux fr mf cods 0) as [x [H1 H2]].
  change (qsum (map (rare_term fr mf) (filter (is_rare fr mf) cods)) <= 0)%Q.
  rewrite H2. exact (osum_nonpos _ (gR_nonpos fr mf) _ _ _ H1).
Qed.

Theorem maximize_cai_nonpos : forall lf lb l s e,
  (forall c f b, qassoc c lf = Some f -> qassoc c lb = Some b -> (f <= b)%Q) ->
  eval_maximize_cai lf lb l s = Some e -> (score e <= 0)%Q.
Proof.
  intros lf lb l s e Hfb H. unfold eval_maximize_cai in H.
  destruct (get_codons l s) as [cods|]; [|discriminate].
  fold (cai_h lf lb) in H. pose proof (cai_aux lf lb cods 0) as Ha.
  destruct (mapM (cai_h lf lb) cods) as [no|]; [|discriminate].
  destruct (osum (gC lf lb) 0 cods) as [x|] eqn:Ex; [|contradiction].
  pose proof (osum_nonpos _ (gC_nonpos lf lb Hfb) _ _ _ Ex) as Hx.
  destruct no as [|d [|d2 no]]; injection H as <-; cbn [score]; try (rewrite Ha; exact Hx).
  rewrite <- Ha in Hx. cbn [qsum fold_right] in Hx.
  assert (E : (- d == - (d + 0))%Q) by ring. rewrite E. exact Hx.
Qed.

(* ------------------------------------------------------------------ HarmonizeRCA *)
Definition harm_h (r ro : list (dna * Q)) (syn : list (dna * list dna)) (p : dna * dna) : option (Q * Q) :=
  match qassoc (fst p) r, qassoc (snd p) ro, smallest_discrepancy r ro syn (snd p) with
  | Some a, Some b, Some sm => Some (Qabs (b - a), sm)
  | _, _, _ => None
  end.
Definition gH (r ro : list (dna * Q)) (syn : list (dna * list dna)) (orig : list dna)
           (i : nat) (c : dna) : option Q :=
  match nth_error orig i with
  | None => None
  | Some o => match harm_h r ro syn (c, o) with Some p => Some (- fst p)%Q | None => None end
  end.

Lemma harm_aux : forall r ro syn orig L O k,
  List.length L = List.length O ->
  (forall j, (j < List.length O)%nat -> nth_error O j = nth_error orig (k + j)) ->
  match mapM (harm_h r ro syn) (combine L O), osum (gH r ro syn orig) k L with
  | Some ds, Some x => (- qsum (map fst ds) == x)%Q
  | None, None => True
  | _, _ => False
  end.
Proof.
  intros r ro syn orig L. induction L as [|c L IH]; intros O k Hl HO; destruct O as [|o O]; try discriminate.
  - cbn [combine mapM osum map qsum fold_right]. reflexivity.
  - cbn [combine mapM osum]. injection Hl as Hl.
    assert (Ho : nth_error orig k = Some o).
    { rewrite <- (Nat.add_0_r k), <- (HO 0%nat); [reflexivity|cbn [List.length]; lia]. }
    change (gH r ro syn orig k c) with
      (match nth_error orig k with
       | None => None
       | Some o => match harm_h r ro syn (c, o) with Some p => Some (- fst p)%Q | None => None end
       end).
    rewrite Ho.
    assert (IH' := IH O (S k) Hl). 
    assert (HO' : forall j, (j < List.length O)%nat -> nth_error O j = nth_error orig (S k + j)).
    { intros j Hj. replace (S k + j)%nat with (k + S j)%nat by lia.
      rewrite <- (HO (S j)); [reflexivity|cbn [List.length]; lia]. }
    specialize (IH' HO').
    destruct (harm_h r ro syn (c, o)) as [p|]; [|exact I].
    destruct (mapM (harm_h r ro syn) (combine L O)) as [ds|];
      destruct (osum (gH r ro syn orig) (S k) L) as [x|]; try contradiction; try exact I.
    cbn [map qsum fold_right]. fold (qsum (map fst ds)). rewrite <- IH'. ring.
Qed.

Lemma bridge_harm : forall r ro syn orig l t, (zlen (extract l t)) mod 3 = 0 ->
  List.length (codons (extract l t)) = List.length orig ->
  ev_rel (evaluate (SHarmonizeRCA r ro syn orig l) t)
         (osum (gH r ro syn orig) 0 (codons (extract l t))).
Proof.
  intros r ro syn orig l t Hm Hl. cbn [evaluate]. unfold eval_harmonize, get_codons. rewrite Hm.
  cbn [Z.eqb]. unfold zlen. rewrite Hl, Z.eqb_refl. cbn [negb].
  pose proof (harm_aux r ro syn orig (codons (extract l t)) orig 0 Hl (fun j _ => eq_refl)) as H.
  fold (harm_h r ro syn). unfold ev_rel.
  destruct (mapM (harm_h r ro syn) (combine (codons (extract l t)) orig)) as [ds|];
    destruct (osum (gH r ro syn orig) 0 (codons (extract l t))) as [x|]; try contradiction; try exact I.
  destruct ds as [|[d sm] [|d2 ds]]; cbn [score]; try exact H.
  rewrite <- H. cbn [map fst qsum fold_right]. ring.
Qed.

Lemma gH_nonpos : forall r ro syn orig i c q, gH r ro syn orig i c = Some q -> (q <= 0)%Q.
Proof.
  intros r ro syn orig i c q H. unfold gH, harm_h in H.
  destruct (nth_error orig i) as [o|]; [|discriminate]. cbn [fst snd] in H.
  destruct (qassoc c r) as [a|]; [|discriminate].
  destruct (qassoc o ro) as [b|]; [|discriminate].
  destruct (smallest_discrepancy r ro syn o) as [sm|]; [|discriminate].
  injection H as <-. cbn [fst].
  assert (H0 : (- Qabs (b - a) <= - 0)%Q) by (apply Qopp_le_compat, Qabs_nonneg). exact H0.
Qed.

Lemma pyslice_nat : forall {A} (L : list A) a b, 0 <= a -> a <= b ->
  pyslice L a b = firstn (Z.to_nat (b - a)) (skipn (Z.to_nat a) L).
Proof.
  intros A L a b Ha Hb. unfold pyslice, norm_idx, slice.
  destruct (a <? 0) eqn:E1; [lia|]. destruct (b <? 0) eqn:E2; [lia|].
  unfold zlen.
  destruct (Z_le_gt_dec a (Z.of_nat (List.length L))) as [H1|H1].
  - rewrite (Z.min_r _ a) by lia.
    destruct (Z_le_gt_dec b (Z.of_nat (List.length L))) as [H2|H2].
    + rewrite Z.min_r by lia. reflexivity.
    + rewrite Z.min_l by lia.
      rewrite (firstn_all2 (n := Z.to_nat (b - a))) by (rewrite skipn_length; lia).
      rewrite firstn_all2 by (rewrite skipn_length; lia). reflexivity.
  - rewrite !Z.min_l by lia. rewrite !skipn_all2 by lia. rewrite !firstn_nil. reflexivity.
Qed.

Theorem harmonize_laws : forall r ro syn orig l w s s',
  wf_spec (SHarmonizeRCA r ro syn orig l) (zlen s) -> window_in w (zlen s) -> agree_outside w s s' ->
  local_delta_law (SHarmonizeRCA r ro syn orig l) w s s'.
Proof.
  intros r ro syn orig l w s s' [Hin [Hlo _]] Hw Hag.
  assert (Hmod : (loc_len l) mod 3 = 0) by (rewrite Hlo; lia).
  destruct (codon_window l w) as [[[nl sc] ec]|] eqn:Hcw.
  - destruct (split_core l w s s' nl sc ec Hin Hmod Hw Hag Hcw)
      as [P [M [M' [S [HC [HC' [HM [HM' [HP [HMl [HMm [HCl [HMe [Z1 [Z2 [Z3 Z4]]]]]]]]]]]]]]]].
    pose proof (nl_mod3 l w s nl sc ec Hin Hmod Hw Hcw) as Hm3.
    assert (Hse : 0 <= sc /\ sc <= ec).
    { destruct Hin as [H0 [H1 [H2 H3]]]. destruct Hw as [Hw0 [Hw1 Hw2]].
      assert (Hin' : loc_in l (lend l)) by (unfold loc_in; repeat split; auto; lia).
      destruct (cw_facts l w nl sc ec Hin' Hmod Hw1 Hcw) as [Ha [Hb _]]. lia. }
    assert (Hloc : localized (SHarmonizeRCA r ro syn orig l) w true s
                   = LSome (SHarmonizeRCA r ro syn (pyslice orig sc ec) nl))
      by (unfold localized; cbn [localized_raw]; rewrite Hcw; reflexivity).
    rewrite (pyslice_nat orig sc ec) in Hloc by lia.
    set (n := Z.to_nat sc) in *. set (m := Z.to_nat (ec - sc)) in *.
    set (orig' := firstn m (skipn n orig)) in *.
    assert (Hlo' : List.length (P ++ M ++ S) = List.length orig).
    { rewrite HCl, Hlo. unfold zlen. rewrite Z.mul_comm, Z.div_mul by lia. apply Nat2Z.id. }
    assert (Hlo'' : List.length (P ++ M' ++ S) = List.length orig).
    { rewrite <- Hlo'. rewrite !app_length. lia. }
    assert (HlM : List.length M = List.length orig').
    { rewrite HMe. unfold orig'. rewrite !firstn_length, !skipn_length, Hlo'. reflexivity. }
    destruct (gen_laws _ _ w s s' (gH r ro syn orig) (gH r ro syn orig') P M M' S Hloc HMl) as [Hd _].
    + rewrite <- HC. apply bridge_harm; [rewrite Z1; exact Hmod|rewrite HC; exact Hlo'].
    + rewrite <- HC'. apply bridge_harm; [rewrite Z2; exact Hmod|rewrite HC'; exact Hlo''].
    + rewrite <- HM. apply bridge_harm; [rewrite Z3; exact Hm3|rewrite HM; exact HlM].
    + rewrite <- HM'. apply bridge_harm; [rewrite Z4; exact Hm3|rewrite HM', <- HMl; exact HlM].
    + intros i c Hi. unfold gH, orig'. rewrite nth_error_fs by lia. rewrite HP. reflexivity.
    + exact Hd.
  - apply none_laws.
    + unfold localized; cbn [localized_raw]; rewrite Hcw; reflexivity.
    + cbn [evaluate]. unfold eval_harmonize, get_codons.
      rewrite (extract_agree l w s s' Hin Hag (cw_none_disjoint l w s Hin Hw Hcw)). reflexivity.
Qed.

Theorem harmonize_nonpos : forall r ro syn orig l s e,
  eval_harmonize r ro syn orig l s = Some e -> (score e <= 0)%Q.
Proof.
  intros r ro syn orig l s e H. unfold eval_harmonize in H.
  destruct (get_codons l s) as [cods|]; [|discriminate].
  destruct (zlen cods =? zlen orig) eqn:El; cbn [negb] in H; [|discriminate].
  apply Z.eqb_eq in El. unfold zlen in El. apply Nat2Z.inj in El.
  fold (harm_h r ro syn) in H.
  pose proof (harm_aux r ro syn orig cods orig 0 El (fun j _ => eq_refl)) as Ha.
  destruct (mapM (harm_h r ro syn) (combine cods orig)) as [ds|]; [|discriminate].
  destruct (osum (gH r ro syn orig) 0 cods) as [x|] eqn:Ex; [|contradiction].
  pose proof (osum_nonpos _ (gH_nonpos r ro syn orig) _ _ _ Ex) as Hx.
  destruct ds as [|[d sm] [|d2 ds]]; injection H as <-; cbn [score]; try (rewrite Ha; exact Hx).
  rewrite <- Ha in Hx. cbn [map fst qsum fold_right] in Hx.
  assert (E : (- d == - (d + 0))%Q) by ring. rewrite E. exact Hx.
Qed.

(* ------------------------------------------------------------------ EnforceTranslation *)
Definition assume_of (st : start_policy) : bool := match st with StartNone => false | _ => true end.
(* the first codon is one of the start codons the user declared *)
Definition decl_of (st : start_policy) (c : dna) : bool :=
  match st with StartCodons cs => dna_mem c cs | _ => false end.
Definition tbad (p : ascii * option ascii) : bool :=
  match snd p with Some want => negb (Ascii.eqb (fst p) want) | None => true end.
Definition gT (T : gtable) (tr : astr) (st : start_policy) (i : nat) (c : dna) : option Q :=
  match (if (Nat.eqb i 0 && (assume_of st && dna_mem c (gt_starts T)))%bool
         then Some "M"%char else codon_aa T c) with
  | None => None
  | Some a => Some (if tbad ((if (Nat.eqb i 0 && decl_of st c)%bool then "M"%char else a), nth_error tr i)
                    then zq (-1) else 0%Q)
  end.
Definition trans_score (T : gtable) (x : dna) (tr : astr) (st : start_policy) : option Q :=
  match translate_start T x (assume_of st) with
  | None => None
  | Some got0 =>
      let got := match got0 with
                 | _ :: rest => if decl_of st (firstn 3 x) then "M"%char :: rest else got0
                 | [] => got0
                 end in
      Some (zq (- zlen (indices_where tbad
                 (combine got (map (fun i => nth_error tr i) (List.seq 0 (List.length got)))) 0)))
  end.

Lemma eval_translation_score : forall T l tr st s,
  option_map score (evaluate (STranslation T l tr st) s) = trans_score T (extract l s) tr st.
Proof.
  intros T l tr st s. cbn [evaluate]. unfold eval_translation, trans_score.
  destruct st; cbn [assume_of decl_of];
  (match goal with |- context [translate_start ?a ?b ?c] => destruct (translate_start a b c) end);
  reflexivity.
Qed.

Definition oq_rel (oq ox : option Q) : Prop :=
  match oq, ox with Some q, Some x => (q == x)%Q | None, None => True | _, _ => False end.
Lemma ev_rel_score : forall oe ox, oq_rel (option_map score oe) ox -> ev_rel oe ox.
Proof. intros [e|] [x|] H; exact H. Qed.

Lemma trans_tail_aux : forall T tr st L k i,
  match mapM (codon_aa T) L, osum (gT T tr st) (S k) L with
  | Some got, Some x =>
      (zq (- zlen (indices_where tbad
             (combine got (map (fun j => nth_error tr j) (List.seq (S k) (List.length got)))) i)) == x)%Q
  | None, None => True
  | _, _ => False
  end.
Proof.
  intros T tr st L. induction L as [|c L IH]; intros k i.
  - cbn [mapM osum List.length List.seq map combine indices_where]. reflexivity.
  - cbn [mapM osum]. specialize (IH (S k) (i + 1)).
    change (gT T tr st (S k) c) with
      (match codon_aa T c with
       | None => None
       | Some a => Some (if tbad (a, nth_error tr (S k)) then zq (-1) else 0%Q)
       end).
    destruct (codon_aa T c) as [a|]; [|exact I].
    destruct (mapM (codon_aa T) L) as [got|]; destruct (osum (gT T tr st) (S (S k)) L) as [x|];
      try contradiction; try exact I.
    cbn [List.length List.seq map combine indices_where].
    destruct (tbad (a, nth_error tr (S k))).
    + rewrite zq_cons, IH. reflexivity.
    + rewrite IH. ring.
Qed.

Lemma bridge_trans_aux : forall T tr st a b c x',
  oq_rel (trans_score T (a :: b :: c :: x') tr st)
         (osum (gT T tr st) 0 (codons (a :: b :: c :: x'))).
Proof.
  intros T tr st a b c x'. unfold trans_score, translate_start. cbn [firstn skipn].
  rewrite codons_cons3. cbn [osum].
  change (gT T tr st 0 [a; b; c]) with
    (match (if (assume_of st && dna_mem [a; b; c] (gt_starts T))%bool
            then Some "M"%char else codon_aa T [a; b; c]) with
     | None => None
     | Some a0 => Some (if tbad ((if decl_of st [a; b; c] then "M"%char else a0), nth_error tr 0)
                        then zq (-1) else 0%Q)
     end).
  pose proof (trans_tail_aux T tr st (codons x') 0 (0 + 1)) as H.
  unfold oq_rel.
  destruct (assume_of st && dna_mem [a; b; c] (gt_starts T))%bool.
  - unfold translate.
    destruct (mapM (codon_aa T) (codons x')) as [got|];
      destruct (osum (gT T tr st) 1 (codons x')) as [x|];
      cbn [option_map]; try contradiction; try exact I.
    destruct (decl_of st [a; b; c]);
    cbn [List.length List.seq map combine indices_where];
    (destruct (tbad ("M"%char, nth_error tr 0)); [rewrite zq_cons, H; reflexivity | rewrite H; ring]).
  - unfold translate. rewrite codons_cons3. cbn [mapM].
    destruct (codon_aa T [a; b; c]) as [a0|]; [|exact I].
    destruct (mapM (codon_aa T) (codons x')) as [got|];
      destruct (osum (gT T tr st) 1 (codons x')) as [x|];
      try contradiction; try exact I.
    destruct (decl_of st [a; b; c]);
    cbn [List.length List.seq map combine indices_where].
    + destruct (tbad ("M"%char, nth_error tr 0)); [rewrite zq_cons, H; reflexivity | rewrite H; ring].
    + destruct (tbad (a0, nth_error tr 0)); [rewrite zq_cons, H; reflexivity | rewrite H; ring].
Qed.

Lemma three_cons : forall x : dna, 3 <= zlen x -> exists a b c x', x = a :: b :: c :: x'.
Proof.
  intros x H. destruct x as [|a [|b [|c x']]]; unfold zlen in H; cbn [List.length] in H; try lia.
  exists a, b, c, x'. reflexivity.
Qed.

Lemma bridge_trans : forall T l tr st t, 3 <= zlen (extract l t) ->
  ev_rel (evaluate (STranslation T l tr st) t)
         (osum (gT T tr st) 0 (codons (extract l t))).
Proof.
  intros T l tr st t H. apply ev_rel_score. rewrite eval_translation_score.
  destruct (three_cons _ H) as [a [b [c [x' E]]]]. rewrite E. apply bridge_trans_aux.
Qed.

Lemma gT_nonpos : forall T tr st i c q, gT T tr st i c = Some q -> (q <= 0)%Q.
Proof.
  intros T tr st i c q H. unfold gT in H.
  destruct (if (Nat.eqb i 0 && (assume_of st && dna_mem c (gt_starts T)))%bool
            then Some "M"%char else codon_aa T c) as [a|]; [|discriminate].
  injection H as <-. destruct (tbad _).
  - change 0%Q with (inject_Z 0). unfold zq. rewrite <- Zle_Qle. lia.
  - apply Qle_refl.
Qed.

Lemma extract_strand_norm : forall nl t,
  extract (mkLoc (lstart nl) (lend nl) (if lstrand nl =? -1 then -1 else 1)) t = extract nl t.
Proof.
  intros nl t. unfold extract. cbn [lstart lend lstrand]. destruct (lstrand nl =? -1); reflexivity.
Qed.

Lemma extract_empty : forall l (s : dna), 0 <= lstart l -> lstart l = lend l -> lend l <= zlen s ->
  extract l s = [].
Proof.
  intros l s H0 H1 H2. rewrite extract_sub by lia.
  replace (Z.to_nat (lend l - lstart l)) with 0%nat by lia.
  unfold sub. destruct (lstrand l =? -1); reflexivity.
Qed.

(* all four evaluations have the same score *)
Lemma same_laws : forall sp sp' w s s' q,
  localized sp w true s = LSome sp' ->
  option_map score (evaluate sp s) = q -> option_map score (evaluate sp s') = q ->
  option_map score (evaluate sp' s) = q -> option_map score (evaluate sp' s') = q ->
  local_delta_law sp w s s' /\ local_pass_law sp w s s'.
Proof.
  intros sp sp' w s s' q Hloc E1 E2 E3 E4.
  unfold local_delta_law, local_pass_law, delta. rewrite Hloc.
  destruct (evaluate sp s) as [e|]; [|split; exact I].
  cbn [option_map] in E1. subst q.
  destruct (evaluate sp s') as [e'|]; [|discriminate].
  destruct (evaluate sp' s) as [f|]; [|discriminate].
  destruct (evaluate sp' s') as [f'|]; [|discriminate].
  cbn [option_map] in *. injection E2 as E2. injection E3 as E3. injection E4 as E4.
  split.
  - rewrite E2, E3, E4. reflexivity.
  - intros Hp _. unfold passes in *. rewrite E2. exact Hp.
Qed.

Theorem translation_laws : forall T l tr st w s s',
  wf_spec (STranslation T l tr st) (zlen s) -> window_in w (zlen s) -> agree_outside w s s' ->
  local_delta_law (STranslation T l tr st) w s s' /\ local_pass_law (STranslation T l tr st) w s s'.
Proof.
  intros T l tr st w s s' [Hin Hlo] Hw Hag.
  assert (Hmod : (loc_len l) mod 3 = 0) by (rewrite Hlo; lia).
  assert (Hlen : zlen s' = zlen s) by (destruct Hag as [Hl _]; unfold zlen; rewrite Hl; reflexivity).
  destruct (codon_window l w) as [[[nl sc] ec]|] eqn:Hcw.
  - assert (Hcf := Hcw). apply cw_facts in Hcf;
      [|destruct Hin as [H0 [H1 [H2 H3]]]; unfold loc_in; repeat split; auto; lia
       |exact Hmod|destruct Hw as [_ [Hw1 _]]; exact Hw1].
    destruct Hcf as [Hsc [Hec [Hst [Hpos [Hn1 [Hn2 [Hn3 [Hne [Hem [Hm3 Hcov]]]]]]]]]].
    set (nl' := mkLoc (lstart nl) (lend nl) (if lstrand nl =? -1 then -1 else 1)).
    set (at_start := if lstrand l =? -1 then lend l <=? lend nl else lstart nl <=? lstart l).
    assert (Hloc : localized (STranslation T l tr st) w true s
                   = LSome (STranslation T nl' (pyslice tr sc ec) (if at_start then st else StartNone)))
      by (unfold localized; cbn [localized_raw]; rewrite Hcw; reflexivity).
    assert (Hat : at_start = (sc =? 0)).
    { unfold at_start. clear Hcov Hne Hem. destruct (lstrand l =? -1); lia. }
    rewrite Hat in Hloc. clear Hat at_start.
    destruct (Z.eq_dec (lstart l) (lend l)) as [Hemp|Hnemp].
    + (* empty location: every extract is empty *)
      destruct (Hem Hemp) as [-> ->]. cbn [Z.eqb] in Hloc.
      assert (Htr : tr = []).
      { destruct tr as [|x tr]; [reflexivity|]. unfold loc_len, zlen in Hlo. cbn [List.length] in Hlo. lia. }
      subst tr. change (pyslice (@nil ascii) 0 1) with (@nil ascii) in Hloc.
      destruct Hin as [H0 [H1 [H2 H3]]].
      apply (same_laws _ _ w s s' (trans_score T [] [] st) Hloc);
        rewrite eval_translation_score; unfold nl'; rewrite ?extract_strand_norm;
        rewrite extract_empty by lia; reflexivity.
    + assert (H3ec : 3 * ec <= loc_len l) by (apply Hne; destruct Hin as [_ [H1 _]]; lia).
      assert (Hnl3 : 3 <= loc_len nl).
      { unfold loc_len in *. clear Hcov Hne Hem. destruct (lstrand l =? -1); lia. }
      destruct (split_core l w s s' nl sc ec Hin Hmod Hw Hag Hcw)
        as [P [M [M' [S [HC [HC' [HM [HM' [HP [HMl [HMm [HCl [HMe [Z1 [Z2 [Z3 Z4]]]]]]]]]]]]]]]].
      rewrite (pyslice_nat tr sc ec) in Hloc by lia.
      set (n := Z.to_nat sc) in *. set (m := Z.to_nat (ec - sc)) in *.
      set (tr' := firstn m (skipn n tr)) in *.
      set (st' := if sc =? 0 then st else StartNone) in *.
      destruct (gen_laws _ _ w s s' (gT T tr st) (gT T tr' st') P M M' S Hloc HMl)
        as [Hd Hp].
      * rewrite <- HC. apply bridge_trans. rewrite Z1. unfold loc_len in *. lia.
      * rewrite <- HC'. apply bridge_trans. rewrite Z2. unfold loc_len in *. lia.
      * rewrite <- HM. unfold nl'. rewrite <- (extract_strand_norm nl s).
        apply bridge_trans. rewrite extract_strand_norm, Z3. exact Hnl3.
      * rewrite <- HM'. unfold nl'. rewrite <- (extract_strand_norm nl s').
        apply bridge_trans. rewrite extract_strand_norm, Z4. exact Hnl3.
      * intros i c Hi. unfold gT, tr'. rewrite nth_error_fs by lia. rewrite HP. fold n.
        unfold st'. destruct (Z.eqb_spec sc 0) as [E0|E0].
        -- replace n with 0%nat by (unfold n; lia). reflexivity.
        -- replace (Nat.eqb (n + i) 0) with false
             by (symmetry; apply Nat.eqb_neq; unfold n; lia).
           cbn [assume_of decl_of andb]. rewrite !andb_false_r. reflexivity.
      * split; [exact Hd|apply Hp, gT_nonpos].
  - apply none_laws.
    + unfold localized; cbn [localized_raw]; rewrite Hcw; reflexivity.
    + cbn [evaluate]. unfold eval_translation.
      rewrite (extract_agree l w s s' Hin Hag (cw_none_disjoint l w s Hin Hw Hcw)). reflexivity.
Qed.

(* ------------------------------------------------------------------ codon_window_spec
   REPAIRED STATEMENT: the hypothesis [lstart l < lend l] (non-empty location) was added.  Without
   it the statement is false: for the empty location l = [3,3) and the window w = [0,6),
   codon_window l w = Some ([3,3), 0, 1), which violates [lstart nl < lend nl],
   [3 * ec <= loc_len l + 2] and [loc_len nl = 3 * (ec - sc)] (see the refutation lemma below). *)
Theorem codon_window_spec : forall l w nl sc ec,
  loc_in l (lend l) -> lstart l < lend l -> (loc_len l) mod 3 = 0 -> lstart w < lend w ->
  codon_window l w = Some (nl, sc, ec) ->
  0 <= sc /\ sc < ec /\ 3 * ec <= loc_len l + 2 /\
  lstrand nl = lstrand l /\
  lstart l <= lstart nl /\ lstart nl < lend nl /\ lend nl <= lend l /\
  (loc_len nl) mod 3 = 0 /\
  (if lstrand l =? -1 then lend nl = lend l - 3 * sc else lstart nl = lstart l + 3 * sc) /\
  loc_len nl = 3 * (ec - sc) /\
  (forall i, lstart l <= i < lend l -> lstart w <= i < lend w -> lstart nl <= i < lend nl).
Proof.
  intros l w nl sc ec Hin Hne Hmod Hw Hcw.
  destruct (cw_facts l w nl sc ec Hin Hmod Hw Hcw)
    as [Hsc [Hec [Hst [Hpos [Hn1 [Hn2 [Hn3 [H3 [_ [Hm3 Hcov]]]]]]]]]].
  specialize (H3 Hne). unfold loc_len in *. clear Hmod.
  split; [exact Hsc|]. split; [exact Hec|]. split; [lia|]. split; [exact Hst|].
  split; [exact Hn1|].
  split; [clear Hcov Hm3; destruct (lstrand l =? -1); lia|].
  split; [exact Hn3|]. split; [exact Hm3|].
  split; [destruct (lstrand l =? -1); tauto|].
  split; [clear Hcov Hm3; destruct (lstrand l =? -1); lia|].
  exact Hcov.
Qed.

(* the original statement (without the non-emptiness hypothesis) does not hold *)
Lemma codon_window_spec_empty_refuted :
  let l := mkLoc 3 3 1 in let w := mkLoc 0 6 1 in
  loc_in l (lend l) /\ (loc_len l) mod 3 = 0 /\ lstart w < lend w /\
  exists nl sc ec, codon_window l w = Some (nl, sc, ec) /\ ~ (lstart nl < lend nl) /\
                   ~ (3 * ec <= loc_len l + 2).
Proof.
  cbv zeta. split; [unfold loc_in; cbn; lia|]. split; [reflexivity|]. split; [cbn; lia|].
  exists (mkLoc 3 3 1), 0, 1. split; [vm_compute; reflexivity|]. split; cbn; lia.
Qed.
