(* C09 / C08 lemmas, part A: pattern and GC-content specifications.
   Core idea: a fixed-size window statistic (a pattern occurrence of size k, a GC window of size k)
   that does not meet the edited zone W is unchanged, and every one that meets W lies inside
   overlap(location, extended(W, k-1)). *)
From Coq Require Import ZArith QArith Qminmax Qabs Bool List Lia Lqa.
From DC Require Import Model.Base Model.Loc Model.Bio Model.Pattern Model.MSpace Model.Specs
                       Proofs.SpecsDefs Proofs.PatternProofs Proofs.BioB.
Import ListNotations.
Open Scope Z_scope.

(* ------------------------------------------------------------------ *)
(* ranges, counts and sums over ranges *)

Lemma zrange_empty a b : b <= a -> zrange a b = [].
Proof.
  intros Hba. unfold zrange. replace (Z.to_nat (b - a)) with 0%nat by lia. reflexivity.
Qed.

Lemma zrange_split_nat : forall n a m c, Z.to_nat (m - a) = n -> a <= m <= c ->
  zrange a c = zrange a m ++ zrange m c.
Proof.
  induction n as [|n IHn]; intros a m c Hn Hamc.
  - assert (Heq : m = a) by lia. subst m. rewrite (zrange_empty a a) by lia. reflexivity.
  - rewrite (zrange_cons a c) by lia. rewrite (zrange_cons a m) by lia.
    simpl app. f_equal. apply IHn; lia.
Qed.

Lemma zrange_split a m c : a <= m <= c -> zrange a c = zrange a m ++ zrange m c.
Proof. intros Hamc. apply (zrange_split_nat (Z.to_nat (m - a))); [reflexivity | exact Hamc]. Qed.

Lemma zrange_single a : zrange a (a + 1) = [a].
Proof. rewrite zrange_cons by lia. rewrite zrange_empty by lia. reflexivity. Qed.

Lemma zrange_rev_nat : forall n c, map (fun j => c - j) (zrange 0 (Z.of_nat n)) = rev (zrange (c - Z.of_nat n + 1) (c + 1)).
Proof.
  induction n as [|n IHn]; intros c.
  - simpl Z.of_nat. rewrite !zrange_empty by lia. reflexivity.
  - rewrite (zrange_split 0 (Z.of_nat n) (Z.of_nat (S n))) by lia.
    replace (Z.of_nat (S n)) with (Z.of_nat n + 1) by lia.
    rewrite zrange_single. rewrite map_app. rewrite IHn.
    rewrite (zrange_cons (c - (Z.of_nat n + 1) + 1)) by lia.
    simpl rev. simpl map. f_equal.
    + f_equal. f_equal. lia.
    + f_equal. lia.
Qed.

Lemma zrange_rev c m : 0 <= m ->
  map (fun j => c - j) (zrange 0 m) = rev (zrange (c - m + 1) (c + 1)).
Proof.
  intros Hm. rewrite <- (Z2Nat.id m) by exact Hm. apply zrange_rev_nat.
Qed.

Definition cnt (g : Z -> bool) (lo hi : Z) : Z := zlen (filter g (zrange lo hi)).

Lemma zlen_app {X} (l1 l2 : list X) : zlen (l1 ++ l2) = zlen l1 + zlen l2.
Proof. unfold zlen. rewrite app_length. lia. Qed.

Lemma zlen_rev {X} (l : list X) : zlen (rev l) = zlen l.
Proof. unfold zlen. rewrite rev_length. reflexivity. Qed.

Lemma zlen_map {X Y} (f : X -> Y) (l : list X) : zlen (map f l) = zlen l.
Proof. unfold zlen. rewrite map_length. reflexivity. Qed.

Lemma filter_rev {X} (g : X -> bool) (l : list X) : filter g (rev l) = rev (filter g l).
Proof.
  induction l as [|x l IHl].
  - reflexivity.
  - simpl. rewrite filter_app. rewrite IHl. simpl. destruct (g x); simpl.
    + reflexivity.
    + rewrite app_nil_r. reflexivity.
Qed.

Lemma filter_none {X} (g : X -> bool) (l : list X) :
  (forall x, In x l -> g x = false) -> filter g l = [].
Proof.
  induction l as [|x l IHl]; intros Hall.
  - reflexivity.
  - simpl. rewrite (Hall x) by (left; reflexivity). apply IHl.
    intros y Hy. apply Hall. right. exact Hy.
Qed.

Lemma cnt_nonneg g lo hi : 0 <= cnt g lo hi.
Proof. unfold cnt. apply zlen_nonneg. Qed.

Lemma cnt_empty g lo hi : hi <= lo -> cnt g lo hi = 0.
Proof. intros Hle. unfold cnt. rewrite zrange_empty by exact Hle. reflexivity. Qed.

Lemma cnt_split g lo m hi : lo <= m <= hi -> cnt g lo hi = cnt g lo m + cnt g m hi.
Proof.
  intros Hm. unfold cnt. rewrite (zrange_split lo m hi) by exact Hm.
  rewrite filter_app. apply zlen_app.
Qed.

Lemma cnt_ext g g' lo hi : (forall i, lo <= i < hi -> g i = g' i) -> cnt g lo hi = cnt g' lo hi.
Proof.
  intros Hext. unfold cnt. f_equal. apply filter_ext_in.
  intros i Hin. apply pz_in_zrange in Hin. apply Hext. exact Hin.
Qed.

(* the difference of two counts is carried by any sub-range outside which the predicates agree *)
Lemma cnt_diff_local g g' a B lo hi :
  (forall i, a <= i < B -> ~ (lo <= i < hi) -> g i = g' i) -> a <= lo -> hi <= B ->
  cnt g' a B - cnt g a B = cnt g' lo hi - cnt g lo hi.
Proof.
  intros Hout Halo HhiB.
  destruct (Z_le_gt_dec lo hi) as [Hle|Hgt].
  - rewrite (cnt_split g a lo B) by lia. rewrite (cnt_split g' a lo B) by lia.
    rewrite (cnt_split g lo hi B) by lia. rewrite (cnt_split g' lo hi B) by lia.
    rewrite (cnt_ext g g' a lo) by (intros i Hi; apply Hout; lia).
    rewrite (cnt_ext g g' hi B) by (intros i Hi; apply Hout; lia).
    lia.
  - rewrite (cnt_empty g lo hi) by lia. rewrite (cnt_empty g' lo hi) by lia.
    rewrite (cnt_ext g g' a B) by (intros i Hi; apply Hout; lia).
    lia.
Qed.

(* the forward candidate list of find_forced_forward *)
Lemma cnt_forward g a b k : 0 <= k -> a <= b ->
  zlen (filter (fun i => (i + k <=? b) && g i) (zrange a (b + 1))) = cnt g a (b - k + 1).
Proof.
  intros Hk Hab. unfold cnt.
  destruct (Z_le_gt_dec a (b - k + 1)) as [Hle|Hgt].
  - rewrite (zrange_split a (b - k + 1) (b + 1)) by lia.
    rewrite filter_app. rewrite zlen_app.
    rewrite (filter_none _ (zrange (b - k + 1) (b + 1))).
    + rewrite zlen_nil. rewrite Z.add_0_r. f_equal. apply filter_ext_in.
      intros i Hin. apply pz_in_zrange in Hin.
      destruct (Z.leb_spec (i + k) b) as [H1|H1]; [reflexivity | lia].
    + intros i Hin. apply pz_in_zrange in Hin.
      destruct (Z.leb_spec (i + k) b) as [H1|H1]; [lia | reflexivity].
  - rewrite (zrange_empty a (b - k + 1)) by lia.
    rewrite filter_none.
    + reflexivity.
    + intros i Hin. apply pz_in_zrange in Hin.
      destruct (Z.leb_spec (i + k) b) as [H1|H1]; [lia | reflexivity].
Qed.

(* the reverse candidate list of find_forced_reverse *)
Lemma cnt_reverse g a b k : 0 <= k -> a <= b ->
  zlen (filter (fun i => (a <=? i) && g i) (map (fun j => b - k - j) (zrange 0 (b - a + 1)))) =
  cnt g a (b - k + 1).
Proof.
  intros Hk Hab. unfold cnt.
  rewrite zrange_rev by lia. rewrite filter_rev. rewrite zlen_rev.
  replace (b - k - (b - a + 1) + 1) with (a - k) by lia.
  rewrite (zrange_split (a - k) (Z.min a (b - k + 1)) (b - k + 1)) by lia.
  rewrite filter_app. rewrite zlen_app.
  rewrite (filter_none _ (zrange (a - k) (Z.min a (b - k + 1)))).
  - rewrite zlen_nil. rewrite Z.add_0_l.
    destruct (Z_le_gt_dec a (b - k + 1)) as [Hle|Hgt].
    + rewrite Z.min_l by lia. f_equal. apply filter_ext_in.
      intros i Hin. apply pz_in_zrange in Hin.
      destruct (Z.leb_spec a i) as [H1|H1]; [reflexivity | lia].
    + rewrite Z.min_r by lia. rewrite !zrange_empty by lia. reflexivity.
  - intros i Hin. apply pz_in_zrange in Hin.
    destruct (Z.leb_spec a i) as [H1|H1]; [lia | reflexivity].
Qed.

(* ------------------------------------------------------------------ *)
(* a slice that does not meet the edited window is unchanged *)

Lemma firstn_skipn_agree {X} : forall (m n : nat) (l l' : list X),
  List.length l = List.length l' ->
  (forall j, (m <= j < m + n)%nat -> nth_error l j = nth_error l' j) ->
  firstn n (skipn m l) = firstn n (skipn m l').
Proof.
  induction m as [|m IHm].
  - induction n as [|n IHn]; intros l l' Hlen Hnth.
    + reflexivity.
    + destruct l as [|x l]; destruct l' as [|y l']; simpl in Hlen; try discriminate.
      * reflexivity.
      * simpl. f_equal.
        -- assert (H0 : nth_error (x :: l) 0 = nth_error (y :: l') 0) by (apply Hnth; lia).
           simpl in H0. inversion H0. reflexivity.
        -- apply (IHn l l').
           ++ lia.
           ++ intros j Hj. apply (Hnth (S j)). lia.
  - intros n l l' Hlen Hnth.
    destruct l as [|x l]; destruct l' as [|y l']; simpl in Hlen; try discriminate.
    + reflexivity.
    + simpl skipn. apply IHm.
      * lia.
      * intros j Hj. apply (Hnth (S j)). lia.
Qed.

Lemma agree_len w s s' : agree_outside w s s' -> zlen s' = zlen s.
Proof. intros [Hlen _]. unfold zlen. rewrite Hlen. reflexivity. Qed.

Lemma slice_agree w s s' i k : agree_outside w s s' -> 0 <= i -> 0 <= k ->
  (i + k <= lstart w \/ lend w <= i) -> slice s i (i + k) = slice s' i (i + k).
Proof.
  intros [Hlen Hnth] Hi Hk Hdis. unfold slice.
  apply firstn_skipn_agree.
  - exact Hlen.
  - intros j Hj.
    rewrite <- (Nat2Z.id j). apply Hnth; lia.
Qed.

Lemma occurs_fwd_slice P s i : 0 <= psize P -> 0 <= i -> i + psize P <= zlen s ->
  occurs_fwd P s i = matches_at_head P (slice s i (i + psize P)).
Proof.
  intros Hk Hi Hin. unfold occurs_fwd.
  destruct (Z.leb_spec 0 i) as [H0|H0]; [|lia]. simpl andb.
  rewrite matches_at_head_local by exact Hk.
  rewrite zlen_skipn by lia.
  destruct (Z.leb_spec (psize P) (zlen s - i)) as [H1|H1]; [|lia]. simpl andb.
  unfold slice. replace (i + psize P - i) with (psize P) by lia. reflexivity.
Qed.

Lemma occurs_rev_slice P s i : 0 <= i -> i + psize P <= zlen s ->
  occurs_rev P s i = matches_at_head P (rc (slice s i (i + psize P))).
Proof.
  intros Hi Hin. unfold occurs_rev.
  destruct (Z.leb_spec 0 i) as [H0|H0]; [|lia].
  destruct (Z.leb_spec (i + psize P) (zlen s)) as [H1|H1]; [|lia].
  reflexivity.
Qed.

Lemma occurs_fwd_agree P w s s' i : agree_outside w s s' -> 0 <= psize P -> 0 <= i ->
  i + psize P <= zlen s -> (i + psize P <= lstart w \/ lend w <= i) ->
  occurs_fwd P s i = occurs_fwd P s' i.
Proof.
  intros Hag Hk Hi Hin Hdis.
  rewrite (occurs_fwd_slice P s i) by lia.
  rewrite (occurs_fwd_slice P s' i) by (rewrite ?(agree_len w s s' Hag); lia).
  rewrite (slice_agree w s s' i (psize P) Hag Hi Hk Hdis). reflexivity.
Qed.

Lemma occurs_rev_agree P w s s' i : agree_outside w s s' -> 0 <= psize P -> 0 <= i ->
  i + psize P <= zlen s -> (i + psize P <= lstart w \/ lend w <= i) ->
  occurs_rev P s i = occurs_rev P s' i.
Proof.
  intros Hag Hk Hi Hin Hdis.
  rewrite (occurs_rev_slice P s i) by lia.
  rewrite (occurs_rev_slice P s' i) by (rewrite ?(agree_len w s s' Hag); lia).
  rewrite (slice_agree w s s' i (psize P) Hag Hi Hk Hdis). reflexivity.
Qed.

(* ------------------------------------------------------------------ *)
(* number of matches of a pattern in a location, as counts of occurrences *)

Definition nmatch (P : pattern) (s : dna) (a b st : Z) : Z :=
  let cf := cnt (occurs_fwd P s) a (b - psize P + 1) in
  let cr := cnt (occurs_rev P s) a (b - psize P + 1) in
  if st =? 1 then cf
  else if st =? -1 then (if is_palindromic P then cf else cr)
  else cf + (if is_palindromic P then 0 else cr).

Lemma zlen_find_forced_fwd P s a b st : 0 <= psize P -> 0 <= a <= b -> b <= zlen s ->
  zlen (find_forced P s (mkLoc a b st) 1) = cnt (occurs_fwd P s) a (b - psize P + 1).
Proof.
  intros Hk Hab Hb. rewrite find_forced_forward by lia.
  rewrite zlen_map. apply cnt_forward; lia.
Qed.

Lemma zlen_find_forced_rev P s a b st : 0 <= psize P -> 0 <= a <= b -> b <= zlen s ->
  zlen (find_forced P s (mkLoc a b st) (-1)) = cnt (occurs_rev P s) a (b - psize P + 1).
Proof.
  intros Hk Hab Hb. rewrite find_forced_reverse by lia.
  rewrite zlen_map. apply cnt_reverse; lia.
Qed.

Lemma zlen_find_matches P s a b st : 0 <= psize P -> 0 <= a <= b -> b <= zlen s ->
  zlen (find_matches P s (mkLoc a b st)) = nmatch P s a b st.
Proof.
  intros Hk Hab Hb. rewrite find_matches_dispatch. unfold nmatch. simpl lstrand.
  destruct (st =? 1).
  - apply zlen_find_forced_fwd; lia.
  - destruct (st =? -1).
    + destruct (is_palindromic P).
      * apply zlen_find_forced_fwd; lia.
      * apply zlen_find_forced_rev; lia.
    + rewrite zlen_app. rewrite zlen_find_forced_fwd by lia.
      destruct (is_palindromic P).
      * reflexivity.
      * rewrite zlen_find_forced_rev by lia. reflexivity.
Qed.

(* the difference of the numbers of matches is carried by the sub-location [lo, hi + k - 1) *)
Lemma nmatch_diff P w s s' a b st lo hi :
  agree_outside w s s' -> 0 <= psize P -> 0 <= a -> b <= zlen s ->
  a <= lo -> hi <= b - psize P + 1 ->
  (forall i, a <= i < b - psize P + 1 -> ~ (lo <= i < hi) ->
             i + psize P <= lstart w \/ lend w <= i) ->
  nmatch P s' a b st - nmatch P s a b st =
  nmatch P s' lo (hi + psize P - 1) st - nmatch P s lo (hi + psize P - 1) st.
Proof.
  intros Hag Hk Ha Hb Hlo Hhi Hout. unfold nmatch.
  replace (hi + psize P - 1 - psize P + 1) with hi by lia.
  assert (Hf : cnt (occurs_fwd P s') a (b - psize P + 1) - cnt (occurs_fwd P s) a (b - psize P + 1) =
               cnt (occurs_fwd P s') lo hi - cnt (occurs_fwd P s) lo hi).
  { apply cnt_diff_local; try lia.
    intros i Hi Hni. apply (occurs_fwd_agree P w s s' i Hag); try lia. apply Hout; assumption. }
  assert (Hr : cnt (occurs_rev P s') a (b - psize P + 1) - cnt (occurs_rev P s) a (b - psize P + 1) =
               cnt (occurs_rev P s') lo hi - cnt (occurs_rev P s) lo hi).
  { apply cnt_diff_local; try lia.
    intros i Hi Hni. apply (occurs_rev_agree P w s s' i Hag); try lia. apply Hout; assumption. }
  destruct (st =? 1); [lia|].
  destruct (st =? -1); destruct (is_palindromic P); lia.
Qed.

Lemma nmatch_nonneg P s a b st : 0 <= nmatch P s a b st.
Proof.
  unfold nmatch.
  pose proof (cnt_nonneg (occurs_fwd P s) a (b - psize P + 1)) as Hf.
  pose proof (cnt_nonneg (occurs_rev P s) a (b - psize P + 1)) as Hr.
  destruct (st =? 1); [lia|].
  destruct (st =? -1); destruct (is_palindromic P); lia.
Qed.

(* no change at all when every occurrence inside the location avoids the window *)
Lemma nmatch_same P w s s' a b st :
  agree_outside w s s' -> 0 <= psize P -> 0 <= a -> b <= zlen s ->
  (b <= lstart w \/ lend w <= a) ->
  nmatch P s' a b st = nmatch P s a b st.
Proof.
  intros Hag Hk Ha Hb Hdis.
  pose proof (nmatch_diff P w s s' a b st a a Hag Hk Ha Hb) as Hd.
  assert (Hz : forall t, nmatch P t a (a + psize P - 1) st = 0).
  { intros t. unfold nmatch. rewrite !cnt_empty by lia.
    destruct (st =? 1); [reflexivity|].
    destruct (st =? -1); destruct (is_palindromic P); reflexivity. }
  rewrite !Hz in Hd.
  destruct (Z_le_gt_dec (b - psize P + 1) a) as [Hle|Hgt].
  - unfold nmatch. rewrite !cnt_empty by lia. reflexivity.
  - assert (Hd' : nmatch P s' a b st - nmatch P s a b st = 0 - 0).
    { apply Hd; lia. }
    lia.
Qed.

(* ------------------------------------------------------------------ *)
(* overlap with the window and with the extended window *)

Lemma overlap_none_dis l w : overlap_region l w = None ->
  lend l <= lstart w \/ lend w <= lstart l.
Proof.
  unfold overlap_region. intros Hov.
  destruct (Z.ltb_spec (lstart w) (lstart l)) as [H1|H1];
    rewrite Z.geb_leb in Hov;
    match type of Hov with context [?x <=? ?y] => destruct (Z.leb_spec x y) as [H2|H2] end;
    try discriminate; lia.
Qed.

Lemma overlap_some_cases l w r : overlap_region l w = Some r ->
  (lstart w < lstart l /\ lstart l < lend w) \/ (lstart l <= lstart w /\ lstart w < lend l).
Proof.
  unfold overlap_region. intros Hov.
  destruct (Z.ltb_spec (lstart w) (lstart l)) as [H1|H1];
    rewrite Z.geb_leb in Hov;
    match type of Hov with context [?x <=? ?y] => destruct (Z.leb_spec x y) as [H2|H2] end;
    try discriminate; lia.
Qed.

Lemma ext_overlap_spec l w r e : 0 <= e -> 0 <= lstart w -> lstart w < lend w ->
  0 <= lstart l -> lstart l <= lend l -> overlap_region l w = Some r ->
  extended_overlap l w e true =
  Some (mkLoc (Z.max (lstart l) (lstart w - e)) (Z.min (lend l) (lend w + e)) (lstrand l)).
Proof.
  intros He Hw0 Hw Hl0 Hl Hov.
  pose proof (overlap_some_cases l w r Hov) as Hc.
  unfold extended_overlap, extended, overlap_region. cbn [lstart lend lstrand].
  destruct (Z.ltb_spec (Z.max 0 (lstart w - e)) (lstart l)) as [H1|H1];
    cbn [lstart lend lstrand]; rewrite Z.geb_leb;
    match goal with |- context [?x <=? ?y] => destruct (Z.leb_spec x y) as [H2|H2] end;
    try lia; f_equal; f_equal; lia.
Qed.

Lemma zq_diff n n' m m' : n' - n = m' - m ->
  (zq (- n') - zq (- n) == zq (- m') - zq (- m))%Q.
Proof.
  intros Heq. unfold zq, Qeq, Qminus, Qplus, Qopp, inject_Z. simpl. lia.
Qed.

Lemma zq_nonpos n : 0 <= n -> (zq (- n) <= 0)%Q.
Proof. intros Hn. unfold zq, Qle, inject_Z. simpl. lia. Qed.

(* C08 follows from C09 when the localized specification never scores above 0 *)
Lemma pass_from_delta sp w s s' :
  local_delta_law sp w s s' ->
  (forall sp' e0, localized sp w true s = LSome sp' -> evaluate sp' s = Some e0 -> (score e0 <= 0)%Q) ->
  local_pass_law sp w s s'.
Proof.
  unfold local_delta_law, local_pass_law, delta. intros Hd Hnp.
  destruct (evaluate sp s) as [e|] eqn:He; [|exact I].
  destruct (evaluate sp s') as [e'|] eqn:He'; [|exact I].
  intros Hpass. unfold passes in Hpass. apply Qle_bool_iff in Hpass.
  destruct (localized sp w true s) as [|sp'|] eqn:Hloc.
  - lra.
  - destruct (evaluate sp' s) as [l0|] eqn:Hl0; [|contradiction].
    destruct (evaluate sp' s') as [l'|] eqn:Hl'; [|contradiction].
    intros Hp'. unfold passes in *. apply Qle_bool_iff in Hp'. apply Qle_bool_iff.
    pose proof (Hnp sp' l0 eq_refl Hl0) as Hn0.
    lra.
  - exact Hd.
Qed.

(* ------------------------------------------------------------------ *)
(* AvoidPattern *)

Theorem avoid_pattern_delta : forall P l w s s',
  wf_spec (SAvoidPattern P l) (zlen s) -> window_in w (zlen s) -> agree_outside w s s' ->
  local_delta_law (SAvoidPattern P l) w s s'.
Proof.
  intros P [a b st] w s s' [Hk Hin] [Hw0 [Hw Hwn]] Hag.
  unfold loc_in in Hin. simpl in Hin. destruct Hin as [Ha [Hab [Hb Hst]]].
  pose proof (agree_len w s s' Hag) as Hlen.
  unfold local_delta_law, localized.
  cbn [accepts_righthand negb orb localized_raw].
  destruct (overlap_region (mkLoc a b st) w) as [r|] eqn:Hov.
  - rewrite (ext_overlap_spec (mkLoc a b st) w r (psize P - 1)) by (simpl; (lia || exact Hov)).
    pose proof (overlap_some_cases _ _ _ Hov) as Hc. simpl in Hc.
    simpl lstart. simpl lend. simpl lstrand.
    unfold delta. cbn [evaluate]. unfold eval_avoid_pattern. cbn [score].
    rewrite !zlen_find_matches by lia.
    apply zq_diff.
    replace (Z.min b (lend w + (psize P - 1)))
      with (Z.min (b - psize P + 1) (lend w) + psize P - 1) by lia.
    apply (nmatch_diff P w s s'); try assumption; try lia.
  - pose proof (overlap_none_dis _ _ Hov) as Hdis. simpl in Hdis.
    unfold delta. cbn [evaluate]. unfold eval_avoid_pattern. cbn [score].
    rewrite !zlen_find_matches by lia.
    rewrite (nmatch_same P w s s') by (try assumption; lia).
    unfold zq, Qeq, Qminus, Qplus, Qopp, inject_Z. simpl. lia.
Qed.

(* scores of these classes are never positive (used for C08 and C20) *)
Theorem avoid_pattern_nonpos : forall P l s, (score (eval_avoid_pattern P l s) <= 0)%Q.
Proof.
  intros P l s. unfold eval_avoid_pattern. cbn [score]. apply zq_nonpos. apply zlen_nonneg.
Qed.

Theorem avoid_pattern_pass : forall P l w s s',
  wf_spec (SAvoidPattern P l) (zlen s) -> window_in w (zlen s) -> agree_outside w s s' ->
  local_pass_law (SAvoidPattern P l) w s s'.
Proof.
  intros P l w s s' Hwf Hw Hag.
  apply pass_from_delta.
  - apply avoid_pattern_delta; assumption.
  - intros sp' e0 Hloc Hev.
    unfold localized in Hloc. cbn [accepts_righthand negb orb localized_raw] in Hloc.
    destruct (overlap_region l w); [|discriminate].
    destruct (extended_overlap l w (psize P - 1) true) as [nl|]; [|discriminate].
    inversion Hloc; subst sp'. cbn [evaluate] in Hev. inversion Hev; subst e0.
    apply avoid_pattern_nonpos.
Qed.

Theorem pattern_occ_nonpos : forall P occ l s, (score (eval_pattern_occ P occ l s) <= 0)%Q.
Proof.
  intros P occ l s. unfold eval_pattern_occ. cbn [score]. apply zq_nonpos. lia.
Qed.

(* ------------------------------------------------------------------ *)
(* EnforcePatternOccurence *)

Theorem pattern_occ_delta : forall P occ l w s s',
  wf_spec (SPatternOcc P occ l) (zlen s) -> window_in w (zlen s) -> agree_outside w s s' ->
  local_delta_law (SPatternOcc P occ l) w s s' /\ local_pass_law (SPatternOcc P occ l) w s s'.
Proof.
  intros P occ [a b st] w s s' [Hk Hin] [Hw0 [Hw Hwn]] Hag.
  unfold loc_in in Hin. simpl in Hin. destruct Hin as [Ha [Hab [Hb Hst]]].
  pose proof (agree_len w s s' Hag) as Hlen.
  unfold local_delta_law, local_pass_law, localized.
  cbn [accepts_righthand negb orb localized_raw].
  destruct (overlap_region (mkLoc a b st) w) as [r|] eqn:Hov.
  - split.
    + destruct (delta (SPatternOcc P occ (mkLoc a b st)) s s') as [d|]; [apply Qeq_refl | exact I].
    + cbn [evaluate]. intros Hp Hp'. exact Hp'.
  - pose proof (overlap_none_dis _ _ Hov) as Hdis. simpl in Hdis.
    assert (Hsame : zlen (find_matches P s' (mkLoc a b st)) = zlen (find_matches P s (mkLoc a b st))).
    { rewrite !zlen_find_matches by lia. apply (nmatch_same P w s s'); try assumption; lia. }
    split.
    + unfold delta. cbn [evaluate]. unfold eval_pattern_occ. cbn [score].
      rewrite Hsame. lra.
    + cbn [evaluate]. intros _. unfold eval_pattern_occ. cbn [score].
      rewrite Hsame. apply Qeq_refl.
Qed.

(* ------------------------------------------------------------------ *)
(* sums of rationals over ranges *)

Definition qsr (g : Z -> Q) (lo hi : Z) : Q := qsum (map g (zrange lo hi)).

Lemma qsum_app l1 l2 : (qsum (l1 ++ l2) == qsum l1 + qsum l2)%Q.
Proof.
  induction l1 as [|x l1 IHl1].
  - simpl app. unfold qsum at 2. simpl fold_right. lra.
  - simpl app. unfold qsum in *. simpl fold_right. lra.
Qed.

Lemma qsum_nonneg l : Forall (fun x => (0 <= x)%Q) l -> (0 <= qsum l)%Q.
Proof.
  induction 1 as [|x l Hx Hl IHl].
  - unfold qsum. simpl. lra.
  - unfold qsum in *. simpl fold_right. lra.
Qed.

Lemma qsr_empty g lo hi : hi <= lo -> qsr g lo hi = 0%Q.
Proof. intros Hle. unfold qsr. rewrite zrange_empty by exact Hle. reflexivity. Qed.

Lemma qsr_split g lo m hi : lo <= m <= hi -> (qsr g lo hi == qsr g lo m + qsr g m hi)%Q.
Proof.
  intros Hm. unfold qsr. rewrite (zrange_split lo m hi) by exact Hm.
  rewrite map_app. apply qsum_app.
Qed.

Lemma qsr_ext g g' lo hi : (forall i, lo <= i < hi -> g i = g' i) -> qsr g lo hi = qsr g' lo hi.
Proof.
  intros Hext. unfold qsr. f_equal. apply map_ext_in.
  intros i Hin. apply pz_in_zrange in Hin. apply Hext. exact Hin.
Qed.

Lemma qsr_diff_local g g' a B lo hi :
  (forall i, a <= i < B -> ~ (lo <= i < hi) -> g i = g' i) -> a <= lo -> hi <= B ->
  (qsr g' a B - qsr g a B == qsr g' lo hi - qsr g lo hi)%Q.
Proof.
  intros Hout Halo HhiB.
  destruct (Z_le_gt_dec lo hi) as [Hle|Hgt].
  - pose proof (qsr_split g a lo B ltac:(lia)) as H1.
    pose proof (qsr_split g' a lo B ltac:(lia)) as H2.
    pose proof (qsr_split g lo hi B ltac:(lia)) as H3.
    pose proof (qsr_split g' lo hi B ltac:(lia)) as H4.
    rewrite (qsr_ext g g' a lo) in H1 by (intros i Hi; apply Hout; lia).
    rewrite (qsr_ext g g' hi B) in H3 by (intros i Hi; apply Hout; lia).
    lra.
  - rewrite (qsr_empty g lo hi) by lia. rewrite (qsr_empty g' lo hi) by lia.
    rewrite (qsr_ext g g' a B) by (intros i Hi; apply Hout; lia).
    lra.
Qed.

(* ------------------------------------------------------------------ *)
(* EnforceGCContent *)

Lemma breach_nonneg mini maxi gc : (0 <= breach mini maxi gc)%Q.
Proof.
  unfold breach.
  pose proof (Q.le_max_l 0 (mini - gc)) as H1.
  pose proof (Q.le_max_l 0 (gc - maxi)) as H2.
  lra.
Qed.

Theorem gc_nonpos : forall mini maxi win l s,
  match win with Some k => 1 <= k | None => True end ->
  (score (eval_gc mini maxi win l s) <= 0)%Q.
Proof.
  intros mini maxi win l s _. unfold eval_gc. destruct win as [k|]; cbn [score].
  - match goal with |- (- qsum ?br <= 0)%Q => assert (Hs : (0 <= qsum br)%Q) end.
    { apply qsum_nonneg. apply Forall_forall. intros x Hx.
      apply in_map_iff in Hx. destruct Hx as [c [Hc _]]. subst x. apply breach_nonneg. }
    lra.
  - match goal with |- (- ?b <= 0)%Q => assert (Hs : (0 <= b)%Q) by apply breach_nonneg end.
    lra.
Qed.

(* breach of the GC window of size k starting at absolute position j *)
Definition gcw (mini maxi : Q) (k : Z) (s : dna) (j : Z) : Q :=
  breach mini maxi (count_gc (slice s j (j + k)) # Z.to_pos k).

Lemma slice_slice {X} (l : list X) a b i k : 0 <= a <= b -> b <= zlen l -> 0 <= i -> 0 <= k ->
  i + k <= b - a -> slice (slice l a b) i (i + k) = slice l (i + a) (i + a + k).
Proof.
  intros Hab Hb Hi Hk Hik. unfold slice at 1.
  replace (i + k - i) with k by lia.
  rewrite slice_window by lia. f_equal; lia.
Qed.

Lemma gc_score mini maxi k a b st s : 1 <= k -> 0 <= a <= b -> b <= zlen s -> st <> -1 ->
  score (eval_gc mini maxi (Some k) (mkLoc a b st) s) = (- qsr (gcw mini maxi k s) a (b - k + 1))%Q.
Proof.
  intros Hk Hab Hb Hst. unfold eval_gc. cbn [score]. f_equal.
  unfold extract. cbn [lstart lend lstrand].
  destruct (Z.eqb_spec st (-1)) as [He|He]; [contradiction|].
  rewrite pyslice_slice by lia.
  unfold qsr. f_equal.
  destruct (Z_le_gt_dec k (b - a)) as [Hle|Hgt].
  - rewrite gc_window_counts_spec by (rewrite zlen_slice by lia; lia).
    rewrite zlen_slice by lia. rewrite map_map.
    replace (zrange a (b - k + 1)) with (zrange (0 + a) (b - a - k + 1 + a)) by (f_equal; lia).
    rewrite zrange_shift. rewrite map_map.
    apply map_ext_in. intros i Hin. apply pz_in_zrange in Hin.
    unfold gcw. rewrite slice_slice by lia. reflexivity.
  - rewrite gc_window_counts_short by (rewrite zlen_slice by lia; lia).
    rewrite zrange_empty by lia. reflexivity.
Qed.

Lemma gcw_agree mini maxi k w s s' j : agree_outside w s s' -> 0 <= k -> 0 <= j ->
  (j + k <= lstart w \/ lend w <= j) -> gcw mini maxi k s j = gcw mini maxi k s' j.
Proof.
  intros Hag Hk Hj Hdis. unfold gcw.
  rewrite (slice_agree w s s' j k Hag Hj Hk Hdis). reflexivity.
Qed.

Theorem gc_delta : forall mini maxi win l w s s',
  wf_spec (SGC mini maxi win l) (zlen s) -> window_in w (zlen s) -> agree_outside w s s' ->
  local_delta_law (SGC mini maxi win l) w s s'.
Proof.
  intros mini maxi win [a b st] w s s' [Hin [Hst1 Hk]] [Hw0 [Hw Hwn]] Hag.
  unfold loc_in in Hin. simpl in Hin. destruct Hin as [Ha [Hab [Hb Hst]]]. simpl in Hst1.
  pose proof (agree_len w s s' Hag) as Hlen.
  unfold local_delta_law, localized.
  destruct win as [k|]; cbn [accepts_righthand negb orb localized_raw].
  - destruct (overlap_region (mkLoc a b st) w) as [r|] eqn:Hov.
    + rewrite (ext_overlap_spec (mkLoc a b st) w r (k - 1)) by (simpl; (lia || exact Hov)).
      pose proof (overlap_some_cases _ _ _ Hov) as Hc. simpl in Hc.
      cbn [lstart lend lstrand].
      unfold delta. cbn [evaluate].
      rewrite !gc_score by lia.
      replace (Z.min b (lend w + (k - 1)) - k + 1) with (Z.min (b - k + 1) (lend w)) by lia.
      pose proof (qsr_diff_local (gcw mini maxi k s) (gcw mini maxi k s') a (b - k + 1)
                    (Z.max a (lstart w - (k - 1))) (Z.min (b - k + 1) (lend w))) as Hd.
      assert (Hd' : (qsr (gcw mini maxi k s') a (b - k + 1) - qsr (gcw mini maxi k s) a (b - k + 1) ==
                     qsr (gcw mini maxi k s') (Z.max a (lstart w - (k - 1))) (Z.min (b - k + 1) (lend w)) -
                     qsr (gcw mini maxi k s) (Z.max a (lstart w - (k - 1))) (Z.min (b - k + 1) (lend w)))%Q).
      { apply Hd; try lia.
        intros i Hi Hni. apply (gcw_agree mini maxi k w s s' i Hag); lia. }
      lra.
    + pose proof (overlap_none_dis _ _ Hov) as Hdis. simpl in Hdis.
      unfold delta. cbn [evaluate].
      rewrite !gc_score by lia.
      rewrite (qsr_ext (gcw mini maxi k s) (gcw mini maxi k s') a (b - k + 1)).
      * lra.
      * intros i Hi. apply (gcw_agree mini maxi k w s s' i Hag); lia.
  - destruct (delta (SGC mini maxi None (mkLoc a b st)) s s') as [d|]; [apply Qeq_refl | exact I].
Qed.

Theorem gc_pass : forall mini maxi win l w s s',
  wf_spec (SGC mini maxi win l) (zlen s) -> window_in w (zlen s) -> agree_outside w s s' ->
  local_pass_law (SGC mini maxi win l) w s s'.
Proof.
  intros mini maxi win l w s s' Hwf Hw Hag.
  apply pass_from_delta.
  - apply gc_delta; assumption.
  - intros sp' e0 Hloc Hev.
    destruct Hwf as [_ [_ Hk]].
    unfold localized in Hloc.
    destruct win as [k|]; cbn [accepts_righthand negb orb localized_raw] in Hloc.
    + destruct (overlap_region l w); [|discriminate].
      destruct (extended_overlap l w (k - 1) true) as [nl|]; [|discriminate].
      inversion Hloc; subst sp'.
      change (Some (eval_gc mini maxi (Some k) nl s) = Some e0) in Hev.
      injection Hev as Hev'. subst e0.
      exact (gc_nonpos mini maxi (Some k) nl s Hk).
    + inversion Hloc; subst sp'.
      change (Some (eval_gc mini maxi None l s) = Some e0) in Hev.
      injection Hev as Hev'. subst e0.
      exact (gc_nonpos mini maxi None l s I).
Qed.
