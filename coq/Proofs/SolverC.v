(* Solver lemmas, part C (C06 second half, C03): the exhaustive optimisation is exactly optimal over
   the feasible variants; no optimisation step lowers the boost-weighted total; and with
   score-faithful localization (the C09 law) optimize() never lowers the global total. *)
From Coq Require Import ZArith QArith Bool List Lia Lqa Sorting.Sorted.
From DC Require Import Model.Base Model.Loc Model.MSpace Model.Solver
                       Proofs.MSpaceDefs Proofs.MSpaceA Proofs.MSpaceB Proofs.MSpaceC Proofs.SolverA Proofs.SolverB.
Import ListNotations.
Open Scope Z_scope.

Section SolverC.
  Variable spec : Type.
  Variable spec_eqb : spec -> spec -> bool.
  Variable ev : spec -> dna -> Q * option (list loc).
  Variable localize : spec -> loc -> bool -> dna -> lres spec.
  Variable accepts_rh : spec -> bool.
  Variable reinit : bool -> spec -> dna -> spec.
  Variable enforced : spec -> bool.
  Variable priority : spec -> Z.
  Variable best : spec -> option Q.
  Variable boost : spec -> Q.
  Variable passive : spec -> bool.
  Variable heuristic : spec -> option (settings -> lproblem spec -> state spec -> outcome * state spec).
  Variable opt_heuristic : spec -> option (settings -> lproblem spec -> state spec -> outcome * state spec).

  Notation optimize :=
    (optimize spec ev localize reinit enforced best boost passive opt_heuristic).
  Notation optimize_exhaustive := (optimize_exhaustive spec ev enforced best boost).
  Notation optimize_random := (optimize_random spec ev enforced best boost).

  (* boost-weighted total of a list of objectives on a sequence (objective_scores_sum) *)
  Definition total (objs : list spec) (s : dna) : Q :=
    fold_right (fun o acc => (boost o * fst (ev o s) + acc)%Q) 0%Q objs.
  (* what all_constraints_pass() tests *)
  Definition cfeasible (cs : list spec) (t : dna) : Prop :=
    forall c, In c cs -> enforced c = false -> passesq (fst (ev c t)) = true.


  (* ------------------------------------------------------------------------------------ *)
  (* basic facts about the evaluation helpers *)
  Lemma scores_sum_spec : forall objs st q st',
    scores_sum spec ev boost objs st = (q, st') ->
    q = total objs (cur _ st) /\ cur _ st' = cur _ st /\ rng _ st' = rng _ st.
  Proof.
    induction objs as [|o objs IH]; intros st q st' H.
    - simpl in H. inversion H; subst. simpl. auto.
    - cbn [scores_sum] in H. unfold evaluate in H.
      destruct (scores_sum spec ev boost objs
                  (mkState spec (cur _ st) (rng _ st) (EvEval spec o (cur _ st) :: trace _ st)))
        as [r st2] eqn:E.
      apply IH in E. cbn [cur rng] in E. destruct E as (Hr & Hc & Hg).
      inversion H; subst. cbn [fst]. simpl. auto.
  Qed.

  Lemma acp_spec : forall cs st b st',
    all_constraints_pass spec ev enforced cs st = (b, st') ->
    cur _ st' = cur _ st /\ rng _ st' = rng _ st /\ (b = true <-> cfeasible cs (cur _ st)).
  Proof.
    intros cs st b st' H. unfold all_constraints_pass in H.
    apply all_pass_spec in H. destruct H as (Hc & Hr & Hb).
    split; [exact Hc|]. split; [exact Hr|]. rewrite Hb. unfold cfeasible, passes_on. split.
    - intros Hall c Hin He. apply Hall. apply filter_In. split; [exact Hin | rewrite He; reflexivity].
    - intros Hall c Hin. apply filter_In in Hin. destruct Hin as [Hin He].
      apply Hall; [exact Hin|]. destruct (enforced c); [discriminate | reflexivity].
  Qed.

  Lemma evaluations_spec : forall cs st r st',
    evaluations spec ev enforced cs st = (r, st') -> cur _ st' = cur _ st /\ rng _ st' = rng _ st.
  Proof.
    induction cs as [|c cs IH]; intros st r st' H.
    - simpl in H. inversion H; subst. auto.
    - cbn [evaluations] in H. destruct (enforced c).
      + destruct (evaluations spec ev enforced cs st) as [r1 st1] eqn:E1.
        inversion H; subst. eapply IH; eauto.
      + unfold evaluate in H.
        destruct (evaluations spec ev enforced cs
                    (mkState spec (cur _ st) (rng _ st) (EvEval spec c (cur _ st) :: trace _ st)))
          as [r2 st2] eqn:E2.
        apply IH in E2. cbn [cur rng] in E2. inversion H; subst. exact E2.
  Qed.

  Lemma evaluations_snd_spec : forall cs st,
    cur _ (snd (evaluations spec ev enforced cs st)) = cur _ st /\
    rng _ (snd (evaluations spec ev enforced cs st)) = rng _ st.
  Proof.
    intros cs st. destruct (evaluations spec ev enforced cs st) as [r st'] eqn:E.
    simpl. eapply evaluations_spec; eauto.
  Qed.

  (* the weighted sum of bests exists whenever the un-weighted one does, and bounds the total *)
  Lemma sum_best_bound : forall objs t B,
    (forall ob, In ob objs -> (0 <= boost ob)%Q) ->
    (forall ob b, In ob objs -> best ob = Some b -> (fst (ev ob t) <= b)%Q) ->
    sum_best spec best boost objs false = Some B ->
    exists Bw, sum_best spec best boost objs true = Some Bw /\ (total objs t <= Bw)%Q.
  Proof.
    induction objs as [|o objs IH]; intros t B Hpos Hbest HB.
    - exists 0%Q. simpl. split; [reflexivity | lra].
    - cbn [sum_best fold_right] in HB |- *.
      fold (sum_best spec best boost objs false) in HB.
      fold (sum_best spec best boost objs true).
      destruct (best o) as [b|] eqn:Eb; [|discriminate].
      destruct (sum_best spec best boost objs false) as [a|] eqn:Ea; [|discriminate].
      destruct (IH t a) as (Bw & HBw & Hle).
      + intros ob Hin. apply Hpos. right; exact Hin.
      + intros ob b' Hin. apply Hbest. right; exact Hin.
      + reflexivity.
      + rewrite HBw. exists (b * boost o + Bw)%Q. split; [reflexivity|].
        cbn [total fold_right]. fold (total objs t).
        pose proof (Hpos o (or_introl eq_refl)) as Hk.
        pose proof (Hbest o b (or_introl eq_refl) Eb) as Hs.
        nra.
  Qed.

  (* the weighted sum of bests bounds the weighted total *)
  Lemma sum_best_weighted_bound : forall objs t Bw,
    (forall ob, In ob objs -> (0 <= boost ob)%Q) ->
    (forall ob b, In ob objs -> best ob = Some b -> (fst (ev ob t) <= b)%Q) ->
    sum_best spec best boost objs true = Some Bw -> (total objs t <= Bw)%Q.
  Proof.
    induction objs as [|o objs IH]; intros t Bw Hpos Hbest HB.
    - simpl in HB. inversion HB; subst. simpl. lra.
    - cbn [sum_best fold_right] in HB.
      fold (sum_best spec best boost objs true) in HB.
      destruct (best o) as [b|] eqn:Eb; [|discriminate].
      destruct (sum_best spec best boost objs true) as [a|] eqn:Ea; [|discriminate].
      inversion HB; subst Bw.
      assert (Hle : (total objs t <= a)%Q).
      { apply IH; [intros ob Hin; apply Hpos; right; exact Hin
                  |intros ob b' Hin; apply Hbest; right; exact Hin|reflexivity]. }
      cbn [total fold_right]. fold (total objs t).
      pose proof (Hpos o (or_introl eq_refl)) as Hk.
      pose proof (Hbest o b (or_introl eq_refl) Eb) as Hs.
      nra.
  Qed.

  (* ------------------------------------------------------------------------------------ *)
  (* the exhaustive loop *)
  Lemma opt_exhaustive_loop_spec : forall (p : lproblem spec) bs vs bsc bseq st sc' bseq' st',
    opt_exhaustive_loop spec ev enforced boost p bs vs bsc bseq st = (sc', bseq', st') ->
    bsc = total (lp_objectives _ p) bseq ->
    cfeasible (lp_constraints _ p) bseq ->
    rng _ st' = rng _ st /\
    (bseq' = bseq \/ In bseq' vs) /\
    cfeasible (lp_constraints _ p) bseq' /\
    sc' = total (lp_objectives _ p) bseq' /\
    (total (lp_objectives _ p) bseq <= total (lp_objectives _ p) bseq')%Q /\
    ((forall t, In t vs -> cfeasible (lp_constraints _ p) t ->
                (total (lp_objectives _ p) t <= total (lp_objectives _ p) bseq')%Q) \/
     (exists b, bs = Some b /\ (b <= total (lp_objectives _ p) bseq')%Q)).
  Proof.
    intros p bs. induction vs as [|v vs IH]; intros bsc bseq st sc' bseq' st' H Hsc Hf.
    - simpl in H. inversion H; subst.
      split; [reflexivity|]. split; [left; reflexivity|]. split; [exact Hf|].
      split; [reflexivity|]. split; [lra|]. left. intros t [].
    - cbn [opt_exhaustive_loop] in H.
      destruct (all_constraints_pass spec ev enforced (lp_constraints _ p) (assign spec st v))
        as [ok st2] eqn:E2.
      apply acp_spec in E2. cbn [assign cur rng] in E2. destruct E2 as (Hc2 & Hr2 & Hok).
      (* the three ways of continuing with the same best *)
      assert (Hsame : forall stx, rng _ stx = rng _ st ->
                (ok = true -> (total (lp_objectives _ p) v <= bsc)%Q) ->
                opt_exhaustive_loop spec ev enforced boost p bs vs bsc bseq stx = (sc', bseq', st') ->
                rng _ st' = rng _ st /\
                (bseq' = bseq \/ In bseq' (v :: vs)) /\
                cfeasible (lp_constraints _ p) bseq' /\
                sc' = total (lp_objectives _ p) bseq' /\
                (total (lp_objectives _ p) bseq <= total (lp_objectives _ p) bseq')%Q /\
                ((forall t, In t (v :: vs) -> cfeasible (lp_constraints _ p) t ->
                            (total (lp_objectives _ p) t <= total (lp_objectives _ p) bseq')%Q) \/
                 (exists b, bs = Some b /\ (b <= total (lp_objectives _ p) bseq')%Q))).
      { intros stx Hrx Hv Hx.
        destruct (IH _ _ _ _ _ _ Hx Hsc Hf) as (Hr & Hin & Hf' & Hsc' & Hmono & Hopt).
        split; [rewrite Hr; exact Hrx|].
        split; [destruct Hin as [Hin|Hin]; [left; exact Hin | right; right; exact Hin]|].
        split; [exact Hf'|]. split; [exact Hsc'|]. split; [exact Hmono|].
        destruct Hopt as [Hopt|Hopt]; [left | right; exact Hopt].
        intros t [Et|Ht] Hft; [subst t | apply Hopt; assumption].
        assert (Hok' : ok = true) by (apply Hok; exact Hft).
        specialize (Hv Hok'). subst bsc. lra. }
      destruct ok.
      + destruct (scores_sum spec ev boost (lp_objectives _ p) st2) as [sc st3] eqn:E3.
        apply scores_sum_spec in E3. destruct E3 as (Hsc3 & Hc3 & Hr3).
        rewrite Hc2 in Hsc3.
        assert (Hfv : cfeasible (lp_constraints _ p) v) by (apply Hok; reflexivity).
        assert (Hr3' : rng _ st3 = rng _ st) by (rewrite Hr3; exact Hr2).
        (* continuing with v as the new best *)
        assert (Hnew : (bsc < sc)%Q ->
                  opt_exhaustive_loop spec ev enforced boost p bs vs sc v st3 = (sc', bseq', st') ->
                  rng _ st' = rng _ st /\
                  (bseq' = bseq \/ In bseq' (v :: vs)) /\
                  cfeasible (lp_constraints _ p) bseq' /\
                  sc' = total (lp_objectives _ p) bseq' /\
                  (total (lp_objectives _ p) bseq <= total (lp_objectives _ p) bseq')%Q /\
                  ((forall t, In t (v :: vs) -> cfeasible (lp_constraints _ p) t ->
                              (total (lp_objectives _ p) t <= total (lp_objectives _ p) bseq')%Q) \/
                   (exists b, bs = Some b /\ (b <= total (lp_objectives _ p) bseq')%Q))).
        { intros Hlt Hx.
          destruct (IH _ _ _ _ _ _ Hx Hsc3 Hfv) as (Hr & Hin & Hf' & Hsc' & Hmono & Hopt).
          split; [rewrite Hr; exact Hr3'|].
          split; [destruct Hin as [Hin|Hin]; [right; left; symmetry; exact Hin | right; right; exact Hin]|].
          split; [exact Hf'|]. split; [exact Hsc'|].
          split; [subst bsc sc; lra|].
          destruct Hopt as [Hopt|Hopt]; [left | right; exact Hopt].
          intros t [Et|Ht] Hft; [subst t; exact Hmono | apply Hopt; assumption]. }
        destruct (Qlt_le_dec bsc sc) as [Hlt|Hle].
        * destruct bs as [b|]; [|apply Hnew; assumption].
          destruct (Qle_bool b sc) eqn:Eb; [|apply Hnew; assumption].
          inversion H; subst sc' bseq' st'.
          apply Qle_bool_iff in Eb.
          split; [exact Hr3'|]. split; [right; left; reflexivity|]. split; [exact Hfv|].
          split; [exact Hsc3|]. split; [subst bsc sc; lra|].
          right. exists b. split; [reflexivity | subst sc; exact Eb].
        * apply (Hsame st3 Hr3'); [|exact H]. intros _. subst sc. exact Hle.
      + apply (Hsame st2 Hr2); [|exact H]. discriminate.
  Qed.

  (* ---- C06, second half *)
  Theorem optimize_exhaustive_spec : forall (p : lproblem spec) st vs o st',
    all_variants (lp_space _ p) (cur _ st) = Some vs ->
    optimize_exhaustive p st = (o, st') ->
    rng _ st' = rng _ st /\
    (o = ONoSolution -> ~ cfeasible (lp_constraints _ p) (cur _ st) /\ cur _ st' = cur _ st) /\
    (o = ODone ->
       cfeasible (lp_constraints _ p) (cur _ st) /\
       (cur _ st' = cur _ st \/ In (cur _ st') vs) /\
       cfeasible (lp_constraints _ p) (cur _ st') /\
       (total (lp_objectives _ p) (cur _ st) <= total (lp_objectives _ p) (cur _ st'))%Q /\
       (* exact optimality, provided no objective exceeds its declared best and boosts are
          non-negative *)
       ((forall ob, In ob (lp_objectives _ p) -> (0 <= boost ob)%Q) ->
        (forall ob b t, In ob (lp_objectives _ p) -> best ob = Some b -> In t vs -> (fst (ev ob t) <= b)%Q) ->
        forall t, In t vs -> cfeasible (lp_constraints _ p) t ->
                  (total (lp_objectives _ p) t <= total (lp_objectives _ p) (cur _ st'))%Q)).
  Proof.
    intros p st vs o st' Hvs H. unfold Solver.optimize_exhaustive in H.
    destruct (all_constraints_pass spec ev enforced (lp_constraints _ p) st) as [ok st1] eqn:E1.
    apply acp_spec in E1. destruct E1 as (Hc1 & Hr1 & Hok).
    destruct ok; cbn [negb] in H.
    - assert (Hf0 : cfeasible (lp_constraints _ p) (cur _ st)) by (apply Hok; reflexivity).
      destruct (scores_sum spec ev boost (lp_objectives _ p) st1) as [sc st2] eqn:E2.
      apply scores_sum_spec in E2. destruct E2 as (Hsc & Hc2 & Hr2).
      assert (Hc2' : cur _ st2 = cur _ st) by (rewrite Hc2; exact Hc1).
      rewrite Hc2', Hvs in H. rewrite Hc1 in Hsc.
      destruct (opt_exhaustive_loop spec ev enforced boost p
                  (sum_best spec best boost (lp_objectives _ p) true) vs sc (cur _ st) st2)
        as [[sc' bseq] st3] eqn:El.
      destruct (opt_exhaustive_loop_spec _ _ _ _ _ _ _ _ _ El Hsc Hf0)
        as (Hr3 & Hin & Hfb & Hsc' & Hmono & Hopt).
      inversion H; subst o st'. cbn [assign cur rng].
      split; [rewrite Hr3, Hr2; exact Hr1|].
      split; [discriminate|]. intros _.
      split; [exact Hf0|]. split; [exact Hin|]. split; [exact Hfb|]. split; [exact Hmono|].
      intros Hpos Hbest t Ht Hft.
      destruct Hopt as [Hopt | (b & HB & Hb)]; [apply Hopt; assumption|].
      assert (Hle : (total (lp_objectives _ p) t <= b)%Q).
      { apply (sum_best_weighted_bound (lp_objectives _ p) t b Hpos); [|exact HB].
        intros ob b' Hin' Hb'. eapply Hbest; eauto. }
      lra.
    - inversion H; subst o st'.
      destruct (evaluations_snd_spec (lp_constraints _ p) st1) as [Hce Hre].
      split; [rewrite Hre; exact Hr1|].
      split; [|discriminate]. intros _.
      split; [|rewrite Hce; exact Hc1].
      intros Hf. apply Hok in Hf. discriminate.
  Qed.

  Theorem optimize_exhaustive_outcomes : forall (p : lproblem spec) st o st',
    optimize_exhaustive p st = (o, st') -> o = ODone \/ o = ONoSolution \/ o = OPyError 5.
  Proof.
    intros p st o st' H. unfold Solver.optimize_exhaustive in H.
    destruct (all_constraints_pass spec ev enforced (lp_constraints _ p) st) as [ok st1].
    destruct ok; cbn [negb] in H.
    - destruct (scores_sum spec ev boost (lp_objectives _ p) st1) as [sc st2].
      destruct (all_variants (lp_space _ p) (cur _ st2)) as [vs|].
      + destruct (opt_exhaustive_loop spec ev enforced boost p
                    (sum_best spec best boost (lp_objectives _ p) true) vs sc (cur _ st2) st2)
          as [[sc' bseq] st3].
        inversion H; subst. left; reflexivity.
      + inversion H; subst. right; right; reflexivity.
    - inversion H; subst. right; left; reflexivity.
  Qed.

  (* ------------------------------------------------------------------------------------ *)
  (* the random loop *)
  Lemma mutate_spec : forall (p : lproblem spec) k st st1,
    mutate spec p k st = Some st1 ->
    exists r', apply_random_mutations (lp_space _ p) k (cur _ st) (rng _ st) = Some (cur _ st1, r').
  Proof.
    intros p k st st1 H. unfold mutate in H.
    destruct (apply_random_mutations (lp_space _ p) k (cur _ st) (rng _ st)) as [[s' r']|]; [|discriminate].
    inversion H; subst. exists r'. reflexivity.
  Qed.

  Lemma opt_random_loop_spec : forall (p : lproblem spec) cfg bs iters score stag st o st',
    opt_random_loop spec ev enforced boost iters p cfg bs score stag st = (o, st') ->
    cfeasible (lp_constraints _ p) (cur _ st) ->
    score = total (lp_objectives _ p) (cur _ st) ->
    (o = ODone \/ o = OOutOfStream) /\
    cfeasible (lp_constraints _ p) (cur _ st') /\
    (total (lp_objectives _ p) (cur _ st) <= total (lp_objectives _ p) (cur _ st'))%Q.
  Proof.
    intros p cfg bs. induction iters as [|it IH]; intros score stag st o st' H Hf Hsc.
    - simpl in H. inversion H; subst. split; [left; reflexivity|]. split; [exact Hf | lra].
    - cbn [opt_random_loop] in H.
      destruct (match bs with Some b => Qle_bool b score | None => false end).
      { inversion H; subst. split; [left; reflexivity|]. split; [exact Hf | lra]. }
      destruct (match st_stagnation cfg with Some t => t <? stag | None => false end).
      { inversion H; subst. split; [left; reflexivity|]. split; [exact Hf | lra]. }
      destruct (mutate spec p (st_mutations cfg) st) as [st1|] eqn:Em.
      2:{ inversion H; subst. split; [right; reflexivity|]. split; [exact Hf | lra]. }
      destruct (all_constraints_pass spec ev enforced (lp_constraints _ p) st1) as [ok st2] eqn:E2.
      apply acp_spec in E2. destruct E2 as (Hc2 & Hr2 & Hok).
      destruct ok.
      + destruct (scores_sum spec ev boost (lp_objectives _ p) st2) as [sc st3] eqn:E3.
        apply scores_sum_spec in E3. destruct E3 as (Hsc3 & Hc3 & Hr3).
        destruct (Qlt_le_dec score sc) as [Hlt|Hle].
        * assert (Hf3 : cfeasible (lp_constraints _ p) (cur _ st3)).
          { rewrite Hc3, Hc2. apply Hok. reflexivity. }
          assert (Hsc3' : sc = total (lp_objectives _ p) (cur _ st3)) by (rewrite Hc3; exact Hsc3).
          destruct (IH _ _ _ _ _ H Hf3 Hsc3') as (Ho & Hf' & Hm).
          split; [exact Ho|]. split; [exact Hf'|]. subst score sc. rewrite Hc3 in Hm. lra.
        * apply (IH _ _ _ _ _ H); cbn [assign cur]; assumption.
      + apply (IH _ _ _ _ _ H); cbn [assign cur]; assumption.
  Qed.

  (* every sequence the random loop is at satisfies any invariant kept by the mutation step *)
  Lemma opt_random_loop_inv : forall (I : dna -> Prop) (p : lproblem spec) cfg bs,
    (forall s r s' r', I s ->
       apply_random_mutations (lp_space _ p) (st_mutations cfg) s r = Some (s', r') -> I s') ->
    forall iters score stag st o st',
    opt_random_loop spec ev enforced boost iters p cfg bs score stag st = (o, st') ->
    I (cur _ st) -> I (cur _ st').
  Proof.
    intros I p cfg bs Hstep. induction iters as [|it IH]; intros score stag st o st' H HI.
    - simpl in H. inversion H; subst. exact HI.
    - cbn [opt_random_loop] in H.
      destruct (match bs with Some b => Qle_bool b score | None => false end).
      { inversion H; subst. exact HI. }
      destruct (match st_stagnation cfg with Some t => t <? stag | None => false end).
      { inversion H; subst. exact HI. }
      destruct (mutate spec p (st_mutations cfg) st) as [st1|] eqn:Em.
      2:{ inversion H; subst. exact HI. }
      destruct (mutate_spec _ _ _ _ Em) as (r' & Hm).
      pose proof (Hstep _ _ _ _ HI Hm) as HI1.
      destruct (all_constraints_pass spec ev enforced (lp_constraints _ p) st1) as [ok st2] eqn:E2.
      apply acp_spec in E2. destruct E2 as (Hc2 & Hr2 & Hok).
      destruct ok.
      + destruct (scores_sum spec ev boost (lp_objectives _ p) st2) as [sc st3] eqn:E3.
        apply scores_sum_spec in E3. destruct E3 as (Hsc3 & Hc3 & Hr3).
        destruct (Qlt_le_dec score sc) as [Hlt|Hle].
        * apply (IH _ _ _ _ _ H). rewrite Hc3, Hc2. exact HI1.
        * apply (IH _ _ _ _ _ H). cbn [assign cur]. exact HI.
      + apply (IH _ _ _ _ _ H). cbn [assign cur]. exact HI.
  Qed.

  Lemma optimize_random_inv : forall (I : dna -> Prop) cfg (p : lproblem spec),
    (forall s r s' r', I s ->
       apply_random_mutations (lp_space _ p) (st_mutations cfg) s r = Some (s', r') -> I s') ->
    forall st o st', optimize_random cfg p st = (o, st') -> I (cur _ st) -> I (cur _ st').
  Proof.
    intros I cfg p Hstep st o st' H HI. unfold Solver.optimize_random in H.
    destruct (all_constraints_pass spec ev enforced (lp_constraints _ p) st) as [ok st1] eqn:E1.
    apply acp_spec in E1. destruct E1 as (Hc1 & Hr1 & Hok).
    destruct ok; cbn [negb] in H.
    - destruct (scores_sum spec ev boost (lp_objectives _ p) st1) as [sc st2] eqn:E2.
      apply scores_sum_spec in E2. destruct E2 as (Hsc & Hc2 & Hr2).
      eapply opt_random_loop_inv; [exact Hstep | exact H |]. rewrite Hc2, Hc1. exact HI.
    - inversion H; subst o st'.
      destruct (evaluations_snd_spec (lp_constraints _ p) st1) as [Hce Hre].
      rewrite Hce, Hc1. exact HI.
  Qed.

  (* the random optimisation never lowers the total nor leaves the feasible set *)
  Theorem optimize_random_spec : forall cfg (p : lproblem spec) st o st',
    optimize_random cfg p st = (o, st') ->
    (o = OPyError 6 -> ~ cfeasible (lp_constraints _ p) (cur _ st) /\ cur _ st' = cur _ st) /\
    (o <> OPyError 6 ->
       cfeasible (lp_constraints _ p) (cur _ st) /\ cfeasible (lp_constraints _ p) (cur _ st') /\
       (total (lp_objectives _ p) (cur _ st) <= total (lp_objectives _ p) (cur _ st'))%Q).
  Proof.
    intros cfg p st o st' H. unfold Solver.optimize_random in H.
    destruct (all_constraints_pass spec ev enforced (lp_constraints _ p) st) as [ok st1] eqn:E1.
    apply acp_spec in E1. destruct E1 as (Hc1 & Hr1 & Hok).
    destruct ok; cbn [negb] in H.
    - assert (Hf0 : cfeasible (lp_constraints _ p) (cur _ st)) by (apply Hok; reflexivity).
      destruct (scores_sum spec ev boost (lp_objectives _ p) st1) as [sc st2] eqn:E2.
      apply scores_sum_spec in E2. destruct E2 as (Hsc & Hc2 & Hr2).
      assert (Hc2' : cur _ st2 = cur _ st) by (rewrite Hc2; exact Hc1).
      assert (Hf2 : cfeasible (lp_constraints _ p) (cur _ st2)) by (rewrite Hc2'; exact Hf0).
      assert (Hsc2 : sc = total (lp_objectives _ p) (cur _ st2)) by (rewrite Hc2; exact Hsc).
      destruct (opt_random_loop_spec _ _ _ _ _ _ _ _ _ H Hf2 Hsc2) as (Ho & Hf' & Hm).
      rewrite Hc2' in Hm.
      split.
      + intros E. subst o. destruct Ho as [Ho|Ho]; discriminate.
      + intros _. split; [exact Hf0|]. split; [exact Hf' | exact Hm].
    - inversion H; subst o st'.
      destruct (evaluations_snd_spec (lp_constraints _ p) st1) as [Hce Hre].
      split.
      + intros _. split; [|rewrite Hce; exact Hc1]. intros Hf. apply Hok in Hf. discriminate.
      + intros Hne. exfalso. apply Hne. reflexivity.
  Qed.

  (* ---- C03: optimize() on a whole problem *)
  Variable space : mspace.
  Variable n : Z.
  Hypothesis space_wf : wf_space space.
  Hypothesis space_fits : forall c, In c (choices_list space) -> cend c <= n.

  (* s and s' have the same length and agree outside [a, b) *)
  Definition agree_out (a b : Z) (s s' : dna) : Prop :=
    zlen s = zlen s' /\
    forall i, 0 <= i -> ~ (a <= i < b) -> nth_error s (Z.to_nat i) = nth_error s' (Z.to_nat i).

  (* the C09 law for an objective, in the form the optimiser uses it: localized at sequence s to the
     window [a,b) and re-initialised on the local problem *)
  Definition faithful (ob : spec) : Prop :=
    forall a b s s', 0 <= a -> a < b -> b <= n ->
      good space n s -> good space n s' -> agree_out a b s s' ->
      match localize ob (mkLoc a b 0) true s with
      | LSome ob' => let ob'' := reinit true ob' s in
                     boost ob'' = boost ob /\
                     (fst (ev ob'' s') - fst (ev ob'' s) == fst (ev ob s') - fst (ev ob s))%Q
      | LNone => (fst (ev ob s') == fst (ev ob s))%Q
      | LError => True
      end.

  (* ------------------------------------------------------------------------------------ *)
  (* agree_out is reflexive and transitive *)
  Lemma agree_out_refl : forall a b s, agree_out a b s s.
  Proof. intros a b s. split; [reflexivity | intros; reflexivity]. Qed.

  Lemma agree_out_trans : forall a b s1 s2 s3,
    agree_out a b s1 s2 -> agree_out a b s2 s3 -> agree_out a b s1 s3.
  Proof.
    intros a b s1 s2 s3 [HL1 HO1] [HL2 HO2]. split; [lia|].
    intros i Hi Hout. rewrite (HO1 i Hi Hout). apply HO2; assumption.
  Qed.

  (* every multi-variant choice lies inside the span *)
  Lemma span_covers : forall ms a b c, wf_choices ms -> choices_span ms = Some (a, b) ->
    In c (multichoices ms) -> a <= cstart c /\ cend c <= b.
  Proof.
    intros ms a b c (W1 & W2) Hspan Hc.
    assert (Hss : StronglySorted ch_lt (multichoices ms))
      by (unfold multichoices; apply b_ss_filter; exact W2).
    assert (Hpos : Forall (fun c => cstart c < cend c) (multichoices ms)).
    { apply Forall_forall. intros c' Hc'. apply multichoices_In in Hc'.
      rewrite Forall_forall in W1. destruct (W1 c' Hc') as (Hw & _ & _). lia. }
    unfold choices_span in Hspan.
    destruct (multichoices ms) as [|c0 mc] eqn:E; [discriminate|].
    injection Hspan as Ea Eb. subst a b.
    split.
    - destruct Hc as [Hc|Hc]; [subst c; lia|].
      apply StronglySorted_inv in Hss. destruct Hss as [_ Hlt]. rewrite Forall_forall in Hlt.
      specialize (Hlt c Hc). unfold ch_lt in Hlt.
      inversion Hpos as [|x l Hx Hl]; subst x l. lia.
    - change (cend c <= cend (last (c0 :: mc) c0)). apply b_ss_last; assumption.
  Qed.

  Lemma localized_fits : forall x y c, In c (choices_list (ms_localized space x y)) -> cend c <= n.
  Proof.
    intros x y c Hc. apply space_fits. eapply sub_In; [apply localized_sub | exact Hc].
  Qed.

  (* the span of a localized space is a non-empty window inside the sequence *)
  Lemma last_In_ne : forall (l : list choice) d, l <> [] -> In (last l d) l.
  Proof.
    induction l as [|x l IH]; intros d H; [congruence|].
    destruct l as [|y l]; [left; reflexivity|].
    right. change (In (last (y :: l) d) (y :: l)). apply IH. discriminate.
  Qed.

  Lemma span_in_range : forall la lb a b,
    choices_span (ms_localized space la lb) = Some (a, b) -> 0 <= a /\ a < b /\ b <= n.
  Proof.
    intros la lb a b Hspan.
    pose proof (localized_wf_choices space space_wf la lb) as WF.
    set (ms := ms_localized space la lb) in *.
    assert (Hin0 : forall c, In c (multichoices ms) -> 0 <= cstart c < cend c /\ cend c <= n).
    { intros c Hc. pose proof (multichoices_In _ _ Hc) as Hc'. split.
      - destruct WF as [W1 _]. rewrite Forall_forall in W1. destruct (W1 c Hc') as (Hw & _ & _). exact Hw.
      - eapply localized_fits; exact Hc'. }
    assert (Hcov : forall c, In c (multichoices ms) -> a <= cstart c /\ cend c <= b)
      by (intros c Hc; eapply span_covers; eauto).
    unfold choices_span in Hspan.
    destruct (multichoices ms) as [|c0 mc] eqn:E; [discriminate|].
    assert (Ea : a = cstart c0) by (inversion Hspan; reflexivity).
    assert (Eb : b = cend (last (c0 :: mc) c0)) by (inversion Hspan; reflexivity).
    assert (H0 : In c0 (c0 :: mc)) by (left; reflexivity).
    assert (Hl : In (last (c0 :: mc) c0) (c0 :: mc)) by (apply last_In_ne; discriminate).
    pose proof (Hin0 _ H0) as [Hw0 _]. pose proof (Hcov _ H0) as [_ Hb0].
    pose proof (Hin0 _ Hl) as [_ Hfl]. rewrite <- Eb in Hfl.
    subst a. lia.
  Qed.

  (* a variant of s w.r.t. a localized space is usable and agrees with s outside the span *)
  Lemma variant_agree : forall x y a b s t, good space n s ->
    choices_span (ms_localized space x y) = Some (a, b) ->
    is_variant_of (ms_localized space x y) s t ->
    good space n t /\ agree_out a b s t.
  Proof.
    intros x y a b s t Hg Hspan Hv.
    split; [eapply localized_variant_good; eauto|].
    destruct Hv as (HL & HH & HO). split; [lia|].
    intros i Hi Hout. symmetry. apply HO; [exact Hi|].
    intros c Hc Hseg. apply Hout.
    destruct (span_covers _ _ _ _ (localized_wf_choices space space_wf x y) Hspan Hc) as [H1 H2]. lia.
  Qed.

  (* the mutation step keeps "usable and equal to s0 outside the window" *)
  Lemma mutation_step_agree : forall x y a b s0 k s r s' r',
    choices_span (ms_localized space x y) = Some (a, b) ->
    good space n s /\ agree_out a b s0 s ->
    apply_random_mutations (ms_localized space x y) k s r = Some (s', r') ->
    good space n s' /\ agree_out a b s0 s'.
  Proof.
    intros x y a b s0 k s r s' r' Hspan [Hg Ha] Hm.
    apply apply_random_mutations_member in Hm.
    - destruct Hm as (HL & HM & HO).
      assert (Hv : is_variant_of (ms_localized space x y) s s').
      { split; [exact HL|]. split; [|exact HO].
        intros c Hc. unfold member in HM. rewrite Forall_forall in HM. apply HM, multichoices_In, Hc. }
      destruct (variant_agree x y a b s s' Hg Hspan Hv) as [Hg' Ha'].
      split; [exact Hg' | eapply agree_out_trans; eauto].
    - apply localized_wf_choices. exact space_wf.
    - apply localized_member. exact (proj2 Hg).
    - intros c Hc. destruct Hg as [Hn _]. rewrite Hn. eapply localized_fits; eauto.
  Qed.

  Lemma total_cons : forall o objs s,
    total (o :: objs) s = (boost o * fst (ev o s) + total objs s)%Q.
  Proof. reflexivity. Qed.

  (* KEY STEP: the global total and the local total (over the localized, re-initialised objectives
     with non-zero boost) move by the same amount *)
  Lemma local_diff : forall a b s0 s1 objs los,
    0 <= a -> a < b -> b <= n ->
    (forall ob, In ob objs -> faithful ob) ->
    good space n s0 -> good space n s1 -> agree_out a b s0 s1 ->
    localize_all spec localize (filter (fun o => negb (Qeq_bool (boost o) 0)) objs) (mkLoc a b 0) s0
      = Some los ->
    (total objs s1 - total objs s0 ==
     total (map (fun o => reinit true o s0) los) s1 - total (map (fun o => reinit true o s0) los) s0)%Q.
  Proof.
    intros a b s0 s1 objs. induction objs as [|o objs IH]; intros los Ha Hab Hb Hfa Hg0 Hg1 Hag H.
    - simpl in H. inversion H; subst. simpl. lra.
    - assert (Hfa' : forall ob, In ob objs -> faithful ob) by (intros ob Hin; apply Hfa; right; exact Hin).
      cbn [filter] in H. rewrite !total_cons.
      destruct (Qeq_bool (boost o) 0) eqn:Eb; cbn [negb] in H.
      + apply Qeq_bool_iff in Eb.
        pose proof (IH los Ha Hab Hb Hfa' Hg0 Hg1 Hag H) as IH'.
        assert (H1 : (boost o * fst (ev o s1) == 0)%Q) by (rewrite Eb; lra).
        assert (H0 : (boost o * fst (ev o s0) == 0)%Q) by (rewrite Eb; lra).
        lra.
      + cbn [localize_all] in H.
        pose proof (Hfa o (or_introl eq_refl) a b s0 s1 Ha Hab Hb Hg0 Hg1 Hag) as Hf.
        destruct (localize o (mkLoc a b 0) true s0) as [|o'|] eqn:EL.
        * destruct (localize_all spec localize (filter (fun o => negb (Qeq_bool (boost o) 0)) objs)
                      (mkLoc a b 0) s0) as [r|] eqn:ELA; [|discriminate].
          inversion H; subst los.
          pose proof (IH r Ha Hab Hb Hfa' Hg0 Hg1 Hag eq_refl) as IH'.
          assert (H1 : (boost o * fst (ev o s1) == boost o * fst (ev o s0))%Q) by (rewrite Hf; reflexivity).
          lra.
        * destruct (localize_all spec localize (filter (fun o => negb (Qeq_bool (boost o) 0)) objs)
                      (mkLoc a b 0) s0) as [r|] eqn:ELA; [|discriminate].
          inversion H; subst los.
          pose proof (IH r Ha Hab Hb Hfa' Hg0 Hg1 Hag eq_refl) as IH'.
          cbn [map]. rewrite !total_cons.
          cbv zeta in Hf. destruct Hf as [Hk Hd]. rewrite Hk.
          assert (H1 : (boost o * (fst (ev (reinit true o' s0) s1) - fst (ev (reinit true o' s0) s0)) ==
                        boost o * (fst (ev o s1) - fst (ev o s0)))%Q) by (rewrite Hd; reflexivity).
          lra.
        * discriminate.
  Qed.

  (* one local run (no heuristic): on success the result is usable and the global total is not lower *)
  Lemma local_run_total : forall cfg x y a b objs lcs los s0 r lst,
    (forall ob, In ob objs -> faithful ob) ->
    good space n s0 ->
    choices_span (ms_localized space x y) = Some (a, b) ->
    localize_all spec localize (filter (fun o => negb (Qeq_bool (boost o) 0)) objs) (mkLoc a b 0) s0
      = Some los ->
    (if space_size_exact (ms_localized space x y) <? st_threshold cfg
     then optimize_exhaustive
            (mkLP spec None lcs (map (fun o => reinit true o s0) los) (ms_localized space x y))
            (mkState spec s0 r [])
     else optimize_random cfg
            (mkLP spec None lcs (map (fun o => reinit true o s0) los) (ms_localized space x y))
            (mkState spec s0 r [])) = (ODone, lst) ->
    good space n (cur _ lst) /\ (total objs s0 <= total objs (cur _ lst))%Q.
  Proof.
    intros cfg x y a b objs lcs los s0 r lst Hfa Hg0 Hspan Hlos H.
    set (lspace := ms_localized space x y) in *.
    set (lobjs := map (fun o => reinit true o s0) los) in *.
    set (lp := mkLP spec None lcs lobjs lspace) in *.
    assert (WF : wf_choices lspace) by (apply localized_wf_choices; exact space_wf).
    assert (HM : member lspace s0) by (apply localized_member; exact (proj2 Hg0)).
    assert (Hfit : forall c, In c (choices_list lspace) -> cend c <= zlen s0).
    { intros c Hc. destruct Hg0 as [Hn _]. rewrite Hn. eapply localized_fits; eauto. }
    assert (Hloc : good space n (cur _ lst) /\ agree_out a b s0 (cur _ lst) /\
                   (total lobjs s0 <= total lobjs (cur _ lst))%Q).
    { destruct (space_size_exact lspace <? st_threshold cfg).
      - assert (Hne : multichoices lspace <> []).
        { intro E. unfold choices_span in Hspan. rewrite E in Hspan. discriminate. }
        destruct (all_variants_spec lspace s0 WF HM Hfit Hne) as (vs & Hav & _ & _ & Hiff & _).
        destruct (optimize_exhaustive_spec lp (mkState spec s0 r []) vs ODone lst Hav H)
          as (_ & _ & Hdone).
        destruct (Hdone eq_refl) as (_ & Hin & _ & Hmono & _).
        cbn [cur lp lp_objectives] in Hin, Hmono.
        split; [|split; [|exact Hmono]].
        + destruct Hin as [E|Hin]; [rewrite E; exact Hg0|].
          apply Hiff in Hin. exact (proj1 (variant_agree x y a b s0 _ Hg0 Hspan Hin)).
        + destruct Hin as [E|Hin]; [rewrite E; apply agree_out_refl|].
          apply Hiff in Hin. exact (proj2 (variant_agree x y a b s0 _ Hg0 Hspan Hin)).
      - destruct (optimize_random_spec cfg lp (mkState spec s0 r []) ODone lst H) as [_ Hok].
        destruct Hok as (_ & _ & Hmono); [discriminate|].
        cbn [cur lp lp_objectives] in Hmono.
        assert (HI : good space n (cur _ lst) /\ agree_out a b s0 (cur _ lst)).
        { apply (optimize_random_inv (fun t => good space n t /\ agree_out a b s0 t) cfg lp) with
            (st := mkState spec s0 r []) (o := ODone).
          - intros s r1 s' r' HIs Hm. cbn [lp lp_space] in Hm.
            eapply mutation_step_agree; eauto.
          - exact H.
          - cbn [cur]. split; [exact Hg0 | apply agree_out_refl]. }
        destruct HI as [HI1 HI2]. split; [exact HI1|]. split; [exact HI2 | exact Hmono]. }
    destruct Hloc as (Hg1 & Hag & Hmono).
    split; [exact Hg1|].
    destruct (span_in_range x y a b Hspan) as (Ha & Hab & Hb).
    pose proof (local_diff a b s0 (cur _ lst) objs los Ha Hab Hb Hfa Hg0 Hg1 Hag Hlos) as Hd.
    fold lobjs in Hd. lra.
  Qed.

  Lemma optimize_locations_total : forall cfg cs objs obj locs st o st',
    opt_heuristic obj = None ->
    (forall ob, In ob objs -> faithful ob) ->
    good space n (cur _ st) ->
    optimize_locations spec ev localize reinit enforced best boost opt_heuristic
      cfg space cs objs obj locs st = (o, st') ->
    good space n (cur _ st') /\ (total objs (cur _ st) <= total objs (cur _ st'))%Q.
  Proof.
    intros cfg cs objs obj. induction locs as [|l locs IH]; intros st o st' Hh Hfa Hg H.
    - simpl in H. inversion H; subst. split; [exact Hg | lra].
    - cbn [optimize_locations] in H.
      destruct (space_size_exact (ms_localized space (lstart l) (lend l)) =? 0); [eapply IH; eauto|].
      destruct (choices_span (ms_localized space (lstart l) (lend l))) as [[a b]|] eqn:Espan;
        [|inversion H; subst; split; [exact Hg | lra]].
      destruct (localize_all spec localize cs (mkLoc a b 0) (cur _ st)) as [lcs|];
        [|inversion H; subst; split; [exact Hg | lra]].
      destruct (localize_all spec localize (filter (fun o => negb (Qeq_bool (boost o) 0)) objs)
                  (mkLoc a b 0) (cur _ st)) as [los|] eqn:Elos;
        [|inversion H; subst; split; [exact Hg | lra]].
      rewrite Hh in H.
      match type of H with context [let '(o, lst) := ?X in _] => destruct X as [o1 lst] eqn:Eloc end.
      destruct o1; try (inversion H; subst; cbn [cur]; split; [exact Hg | lra]).
      destruct (local_run_total cfg (lstart l) (lend l) a b objs _ los (cur _ st) (rng _ st) lst
                  Hfa Hg Espan Elos Eloc) as [Hg1 Hle].
      apply IH in H; [|exact Hh | exact Hfa | cbn [assign cur]; exact Hg1].
      destruct H as [Hg' Hle'].
      cbn [assign cur] in Hle'. split; [exact Hg' | lra].
  Qed.

  Lemma optimize_objective_total : forall cfg cs objs obj st o st',
    opt_heuristic obj = None ->
    (forall ob, In ob objs -> faithful ob) ->
    good space n (cur _ st) ->
    optimize_objective spec ev localize reinit enforced best boost opt_heuristic
      cfg space cs objs obj st = (o, st') ->
    good space n (cur _ st') /\ (total objs (cur _ st) <= total objs (cur _ st'))%Q.
  Proof.
    intros cfg cs objs obj st o st' Hh Hfa Hg H. unfold optimize_objective in H.
    destruct (evaluate spec ev obj st) as [e st1] eqn:E.
    apply evaluate_spec in E. destruct E as (_ & Hc1 & _).
    assert (Hg1 : good space n (cur _ st1)) by (rewrite Hc1; exact Hg).
    assert (Hstop : forall k, (k, st1) = (o, st') ->
              good space n (cur _ st') /\ (total objs (cur _ st) <= total objs (cur _ st'))%Q).
    { intros k Hk. inversion Hk; subst. split; [exact Hg1 | rewrite Hc1; lra]. }
    assert (Hrun : forall ls,
              optimize_locations spec ev localize reinit enforced best boost opt_heuristic
                cfg space cs objs obj ls st1 = (o, st') ->
              good space n (cur _ st') /\ (total objs (cur _ st) <= total objs (cur _ st'))%Q).
    { intros ls Hl. destruct (optimize_locations_total _ _ _ _ _ _ _ _ Hh Hfa Hg1 Hl) as [Hg' Hle].
      split; [exact Hg' | rewrite <- Hc1; exact Hle]. }
    destruct (best obj) as [b|].
    - destruct (Qeq_bool (fst e) b); [eapply Hstop; eauto|].
      destruct (snd e) as [ls|]; [eapply Hrun; eauto | eapply Hstop; eauto].
    - destruct (snd e) as [ls|]; [eapply Hrun; eauto | eapply Hstop; eauto].
  Qed.

  Lemma optimize_each_total : forall cfg cs objs todo st o st',
    (forall ob, In ob todo -> opt_heuristic ob = None) ->
    (forall ob, In ob objs -> faithful ob) ->
    good space n (cur _ st) ->
    optimize_each spec ev localize reinit enforced best boost opt_heuristic
      cfg space cs objs todo st = (o, st') ->
    good space n (cur _ st') /\ (total objs (cur _ st) <= total objs (cur _ st'))%Q.
  Proof.
    intros cfg cs objs. induction todo as [|c todo IH]; intros st o st' Hh Hfa Hg H; simpl in H.
    - inversion H; subst. split; [exact Hg | lra].
    - destruct (optimize_objective spec ev localize reinit enforced best boost opt_heuristic
                  cfg space cs objs c st) as [o1 st1] eqn:Er.
      destruct (optimize_objective_total _ _ _ _ _ _ _ (Hh c (or_introl eq_refl)) Hfa Hg Er) as [Hg1 Hle].
      destruct o1; try (inversion H; subst; split; [exact Hg1 | exact Hle]).
      destruct (IH _ _ _ (fun ob Hin => Hh ob (or_intror Hin)) Hfa Hg1 H) as [Hg' Hle'].
      split; [exact Hg' | lra].
  Qed.

  Theorem optimize_never_lowers_total : forall cfg cs objs st o st',
    (forall ob, In ob objs -> opt_heuristic ob = None) ->
    (forall ob, In ob objs -> faithful ob) ->
    state_good spec space n st ->
    optimize cfg space cs objs st = (o, st') ->
    (total objs (cur _ st) <= total objs (cur _ st'))%Q.
  Proof.
    intros cfg cs objs st o st' Hh Hfa Hg H. unfold Solver.optimize in H.
    apply (optimize_each_total _ _ _ _ _ _ _) with (2 := Hfa) (3 := proj1 Hg) in H.
    - exact (proj2 H).
    - intros ob Hin. apply filter_In in Hin. apply Hh. exact (proj1 Hin).
  Qed.
End SolverC.

