(* C05 lemmas: wherever the code iterates a Python set of variants, the result does not depend on the
   iteration order (which depends on the interpreter's string-hash seed): two choices that carry the
   same SET of variants, listed in any order, behave identically for every oracle stream. *)
From Coq Require Import ZArith Bool List Lia Permutation Sorting.Sorted.
From DC Require Import Model.Base Model.Loc Model.MSpace Proofs.MSpaceDefs Proofs.MSpaceA.
From DC Require Import Proofs.MSpaceD.
Import ListNotations.
Open Scope Z_scope.

(* same segment, same set of variants (any order) *)
Definition choice_equiv (a b : choice) : Prop :=
  cstart a = cstart b /\ cend a = cend b /\ cany a = cany b /\ Permutation (cvariants a) (cvariants b).

(* ------------------------------------------------------------------ *)
(* insertion sort w.r.t. a strict total order is canonical              *)
(* ------------------------------------------------------------------ *)

Section StrictTotalOrder.
  Variable A : Type.
  Variable ltb : A -> A -> bool.
  Hypothesis ltb_irrefl : forall a, ltb a a = false.
  Hypothesis ltb_trans : forall a b c, ltb a b = true -> ltb b c = true -> ltb a c = true.
  Hypothesis ltb_total : forall a b, ltb a b = false -> ltb b a = false -> a = b.

  Fixpoint gins (x : A) (l : list A) : list A :=
    match l with [] => [x] | y :: l' => if ltb y x then y :: gins x l' else x :: l end.

  Lemma g_asym a b : ltb a b = true -> ltb b a = false.
  Proof.
    intro H. destruct (ltb b a) eqn:E; [|reflexivity].
    pose proof (ltb_trans _ _ _ H E) as H2. rewrite ltb_irrefl in H2. discriminate.
  Qed.

  Lemma g_le_lt z x y : ltb z x = false -> ltb z y = true -> ltb x y = true.
  Proof.
    intros H1 H2. destruct (ltb x y) eqn:E; [reflexivity|].
    destruct (ltb y x) eqn:E2.
    - pose proof (ltb_trans _ _ _ H2 E2) as H3. congruence.
    - pose proof (ltb_total _ _ E E2) as H3. subst y. congruence.
  Qed.

  Lemma g_two x y l :
    (if ltb y x then y :: x :: l else x :: y :: l) = (if ltb x y then x :: y :: l else y :: x :: l).
  Proof.
    destruct (ltb y x) eqn:E1; destruct (ltb x y) eqn:E2; try reflexivity.
    - pose proof (g_asym _ _ E1) as H. congruence.
    - pose proof (ltb_total _ _ E1 E2) as H. subst y. reflexivity.
  Qed.

  Lemma gins_comm x y : forall l, gins x (gins y l) = gins y (gins x l).
  Proof.
    induction l as [|z l IH]; simpl.
    - apply g_two.
    - destruct (ltb z y) eqn:Ezy; destruct (ltb z x) eqn:Ezx; simpl; rewrite ?Ezy, ?Ezx.
      + f_equal. exact IH.
      + rewrite (g_le_lt z x y Ezx Ezy). reflexivity.
      + rewrite (g_le_lt z y x Ezy Ezx). reflexivity.
      + apply g_two.
  Qed.

  Lemma gsort_canonical : forall l l', Permutation l l' ->
    fold_right gins [] l = fold_right gins [] l'.
  Proof.
    intros l l' HP. induction HP as [|x l l' HP IH|x y l|l l' l'' HP1 IH1 HP2 IH2]; simpl.
    - reflexivity.
    - rewrite IH. reflexivity.
    - apply gins_comm.
    - congruence.
  Qed.
End StrictTotalOrder.

(* ---- seq_ltb is a strict total order ---- *)

Lemma nuc_rank_inj x y : nuc_rank x = nuc_rank y -> x = y.
Proof. destruct x; destruct y; simpl; intro H; try reflexivity; lia. Qed.

Lemma seq_ltb_irrefl : forall a, seq_ltb a a = false.
Proof.
  induction a as [|x a IH]; simpl; [reflexivity|]. rewrite Z.ltb_irrefl. exact IH.
Qed.

Lemma seq_ltb_trans : forall a b c, seq_ltb a b = true -> seq_ltb b c = true -> seq_ltb a c = true.
Proof.
  induction a as [|x a IH]; intros [|y b] [|z c]; simpl; try discriminate; auto.
  destruct (Z.ltb_spec (nuc_rank x) (nuc_rank y)); destruct (Z.ltb_spec (nuc_rank y) (nuc_rank x));
  destruct (Z.ltb_spec (nuc_rank y) (nuc_rank z)); destruct (Z.ltb_spec (nuc_rank z) (nuc_rank y));
  destruct (Z.ltb_spec (nuc_rank x) (nuc_rank z)); destruct (Z.ltb_spec (nuc_rank z) (nuc_rank x));
  try lia; try discriminate; auto.
  apply IH.
Qed.

Lemma seq_ltb_total : forall a b, seq_ltb a b = false -> seq_ltb b a = false -> a = b.
Proof.
  induction a as [|x a IH]; intros [|y b]; simpl; try discriminate; auto.
  destruct (Z.ltb_spec (nuc_rank x) (nuc_rank y)); destruct (Z.ltb_spec (nuc_rank y) (nuc_rank x));
  try lia; try discriminate.
  intros H1 H2. f_equal; [apply nuc_rank_inj; lia | apply IH; assumption].
Qed.

Lemma insert_dna_gins x : forall l, insert_dna x l = gins dna seq_ltb x l.
Proof.
  induction l as [|y l IH]; simpl; [reflexivity|]. rewrite IH. reflexivity.
Qed.

Lemma sort_dna_gsort : forall l, sort_dna l = fold_right (gins dna seq_ltb) [] l.
Proof.
  induction l as [|x l IH]; simpl; [reflexivity|]. rewrite IH. apply insert_dna_gins.
Qed.

(* sorted(variants) is canonical *)
Theorem sort_dna_canonical : forall l l', Permutation l l' -> sort_dna l = sort_dna l'.
Proof.
  intros l l' HP. rewrite !sort_dna_gsort.
  apply (gsort_canonical dna seq_ltb seq_ltb_irrefl seq_ltb_trans seq_ltb_total). exact HP.
Qed.

(* ---- key_ltb is a strict total order ---- *)

Lemma key_ltb_irrefl : forall a, key_ltb a a = false.
Proof.
  intros [k v]. unfold key_ltb. simpl. rewrite Z.ltb_irrefl. apply seq_ltb_irrefl.
Qed.

Lemma key_ltb_trans : forall a b c, key_ltb a b = true -> key_ltb b c = true -> key_ltb a c = true.
Proof.
  intros [x a] [y b] [z c]. unfold key_ltb. simpl.
  destruct (Z.ltb_spec x y); destruct (Z.ltb_spec y x);
  destruct (Z.ltb_spec y z); destruct (Z.ltb_spec z y);
  destruct (Z.ltb_spec x z); destruct (Z.ltb_spec z x);
  try lia; try discriminate; auto.
  apply seq_ltb_trans.
Qed.

Lemma key_ltb_total : forall a b, key_ltb a b = false -> key_ltb b a = false -> a = b.
Proof.
  intros [x a] [y b]. unfold key_ltb. simpl.
  destruct (Z.ltb_spec x y); destruct (Z.ltb_spec y x); try lia; try discriminate.
  intros H1 H2. f_equal; [lia | apply seq_ltb_total; assumption].
Qed.

Lemma insert_key_gins x : forall l, insert_key x l = gins (Z * dna) key_ltb x l.
Proof.
  induction l as [|y l IH]; simpl; [reflexivity|]. rewrite IH. reflexivity.
Qed.

Lemma sort_key_gsort : forall l,
  fold_right insert_key [] l = fold_right (gins (Z * dna) key_ltb) [] l.
Proof.
  induction l as [|x l IH]; simpl; [reflexivity|]. rewrite IH. apply insert_key_gins.
Qed.

Lemma sort_key_canonical : forall l l', Permutation l l' ->
  fold_right insert_key [] l = fold_right insert_key [] l'.
Proof.
  intros l l' HP. rewrite !sort_key_gsort.
  apply (gsort_canonical (Z * dna) key_ltb key_ltb_irrefl key_ltb_trans key_ltb_total). exact HP.
Qed.

(* ---- permutation-invariant observations ---- *)

Lemma filter_perm {X} (f : X -> bool) : forall l l', Permutation l l' ->
  Permutation (filter f l) (filter f l').
Proof.
  intros l l' HP. induction HP as [|x l l' HP IH|x y l|l l' l'' HP1 IH1 HP2 IH2]; simpl.
  - constructor.
  - destruct (f x); [constructor|]; exact IH.
  - destruct (f x); destruct (f y); try apply Permutation_refl. apply perm_swap.
  - eapply Permutation_trans; eassumption.
Qed.

Lemma dmem_perm x l l' : Permutation l l' -> dmem x l = dmem x l'.
Proof.
  intro HP. apply eq_true_iff_eq. rewrite !dmem_In. split; intro H.
  - eapply Permutation_in; eassumption.
  - eapply Permutation_in; [apply Permutation_sym|]; eassumption.
Qed.

Lemma zlen_perm {X} (l l' : list X) : Permutation l l' -> zlen l = zlen l'.
Proof. intro HP. unfold zlen. rewrite (Permutation_length HP). reflexivity. Qed.

(* MutationChoice.random_variant: variants are sorted before the draw *)
Theorem random_variant_order_independent : forall c c' s r,
  choice_equiv c c' -> random_variant c s r = random_variant c' s r.
Proof.
  intros c c' s r (Hs & He & Ha & HP). unfold random_variant.
  rewrite <- Hs, <- He.
  rewrite (sort_dna_canonical _ _
             (filter_perm (fun v => negb (seq_eqb v (slice s (cstart c) (cend c)))) _ _ HP)).
  reflexivity.
Qed.

(* the (distance, variant) key order is total on pairs, so NoDup is not even needed *)
Lemma sbd_perm : forall c c' s,
  choice_equiv c c' -> sorted_by_distance c s = sorted_by_distance c' s.
Proof.
  intros c c' s (Hs & He & Ha & HP). unfold sorted_by_distance.
  rewrite <- (sort_dna_canonical _ _ HP), <- Hs, <- He.
  destruct (index_of (slice s (cstart c) (cend c)) (sort_dna (cvariants c)) 0) as [rc|];
    [|reflexivity].
  f_equal. f_equal. apply sort_key_canonical. apply Permutation_map. exact HP.
Qed.

(* all_variants: the (distance, variant) key is total on a duplicate-free variant set *)
Theorem sorted_by_distance_order_independent : forall c c' s,
  choice_equiv c c' -> NoDup (cvariants c) -> sorted_by_distance c s = sorted_by_distance c' s.
Proof.
  intros c c' s Hc _. apply sbd_perm. exact Hc.
Qed.

(* product_apply only looks at the segment and the variant list of each slot *)
Definition slot_sim (p q : choice * list dna) : Prop :=
  cstart (fst p) = cstart (fst q) /\ cend (fst p) = cend (fst q) /\ snd p = snd q.

Lemma product_apply_sim : forall sl sl', Forall2 slot_sim sl sl' ->
  forall s, product_apply sl s = product_apply sl' s.
Proof.
  intros sl sl' HF. induction HF as [|[c vs] [c' vs'] sl sl' (Hs & He & Hv) HF IH]; intro s.
  - reflexivity.
  - simpl in *. subst vs'. rewrite Hs, He. apply flat_map_ext. intro v. apply IH.
Qed.

Lemma map_snd_sim : forall sl sl', Forall2 slot_sim sl sl' -> map snd sl = map snd sl'.
Proof.
  intros sl sl' HF. induction HF as [|p q sl sl' (Hs & He & Hv) HF IH]; simpl.
  - reflexivity.
  - rewrite Hv, IH. reflexivity.
Qed.

Lemma slots_of_sim : forall mc mc' s,
  Forall2 choice_equiv mc mc' ->
  match slots_of mc s, slots_of mc' s with
  | Some sl, Some sl' => Forall2 slot_sim sl sl'
  | None, None => True
  | _, _ => False
  end.
Proof.
  intros mc mc' s HF. induction HF as [|c c' mc mc' Hc HF IH]; simpl.
  - constructor.
  - rewrite <- (sbd_perm c c' s Hc).
    destruct (sorted_by_distance c s) as [vs|].
    + destruct (slots_of mc s) as [sl|]; destruct (slots_of mc' s) as [sl'|]; try exact IH.
      constructor; [|exact IH].
      destruct Hc as (Hs & He & _). unfold slot_sim. simpl. auto.
    + destruct (slots_of mc s) as [sl|]; destruct (slots_of mc' s) as [sl'|]; try exact IH; exact I.
Qed.

Theorem slots_order_independent : forall mc mc' s,
  Forall2 choice_equiv mc mc' -> Forall (fun c => NoDup (cvariants c)) mc ->
  option_map (map snd) (slots_of mc s) = option_map (map snd) (slots_of mc' s) /\
  option_map (fun sl => product_apply sl s) (slots_of mc s) =
  option_map (fun sl => product_apply sl s) (slots_of mc' s).
Proof.
  intros mc mc' s HF _. pose proof (slots_of_sim mc mc' s HF) as H.
  destruct (slots_of mc s) as [sl|]; destruct (slots_of mc' s) as [sl'|]; try contradiction.
  - simpl. split; f_equal; [apply map_snd_sim | apply product_apply_sim]; exact H.
  - split; reflexivity.
Qed.

(* constrain_sequence: a single variant is written as is, several are sorted before the draw, the
   membership test does not depend on the order *)
Theorem constrain_loop_order_independent : forall cs cs' orig cur r,
  Forall2 choice_equiv cs cs' -> Forall (fun c => NoDup (cvariants c)) cs ->
  constrain_loop cs orig cur r = constrain_loop cs' orig cur r.
Proof.
  intros cs cs' orig cur r HF _. revert cur r.
  induction HF as [|c c' cs cs' (Hs & He & Ha & HP) HF IH]; intros cur r.
  - reflexivity.
  - destruct (cvariants c) as [|v1 [|v2 vs]] eqn:Ev.
    + apply Permutation_nil in HP.
      rewrite (loop_cons_nil c cs orig cur r Ev), (loop_cons_nil c' cs' orig cur r HP).
      rewrite Hs, He. reflexivity.
    + apply Permutation_length_1_inv in HP.
      rewrite (loop_cons_one c cs orig cur r v1 Ev), (loop_cons_one c' cs' orig cur r v1 HP).
      rewrite Hs, He. apply IH.
    + destruct (cvariants c') as [|w1 [|w2 ws]] eqn:Ev'.
      * apply Permutation_length in HP. discriminate.
      * apply Permutation_length in HP. discriminate.
      * rewrite (loop_cons_many c cs orig cur r v1 v2 vs Ev),
                (loop_cons_many c' cs' orig cur r w1 w2 ws Ev').
        rewrite <- Hs, <- He.
        rewrite <- (dmem_perm (pyslice orig (cstart c) (cend c)) _ _ HP).
        rewrite <- (zlen_perm _ _ HP), <- (sort_dna_canonical _ _ HP).
        destruct (dmem (pyslice orig (cstart c) (cend c)) (v1 :: v2 :: vs)); [apply IH|].
        destruct (draw_int (zlen (v1 :: v2 :: vs)) r) as [[k r']|]; [|reflexivity].
        destruct (nth_error (sort_dna (v1 :: v2 :: vs)) (Z.to_nat k)) as [v|]; [|reflexivity].
        apply IH.
Qed.

(* random mutations over a list of picked choices *)
Theorem variants_for_order_independent : forall cs cs' s r,
  Forall2 choice_equiv cs cs' ->
  option_map (fun p => (map snd (fst p), snd p)) (variants_for cs s r) =
  option_map (fun p => (map snd (fst p), snd p)) (variants_for cs' s r).
Proof.
  intros cs cs' s r HF. revert r.
  induction HF as [|c c' cs cs' Hc HF IH]; intro r.
  - reflexivity.
  - simpl. rewrite <- (random_variant_order_independent c c' s r Hc).
    destruct (random_variant c s r) as [[v r']|]; [|reflexivity].
    specialize (IH r').
    destruct (variants_for cs s r') as [[l r2]|]; destruct (variants_for cs' s r') as [[l' r2']|];
      simpl in *; try discriminate; [|reflexivity].
    inversion IH as [[H1 H2]]. rewrite H1. reflexivity.
Qed.

(* ------------------------------------------------------------------ *)
(* extract_varying_region                                               *)
(* ------------------------------------------------------------------ *)

Lemma differs_at_spec i ref vs :
  differs_at i ref vs = true <-> exists v, In v vs /\ nth_error v i <> nth_error ref i.
Proof.
  unfold differs_at. rewrite existsb_exists. split; intros (v & Hv & H); exists v; (split; [exact Hv|]).
  - destruct (nth_error v i) as [x|]; destruct (nth_error ref i) as [y|]; try discriminate.
    intro E. inversion E; subst.
    assert (Hy : nuc_eqb y y = true) by (apply nuc_eqb_eq; reflexivity).
    rewrite Hy in H. discriminate.
  - destruct (nth_error v i) as [x|]; destruct (nth_error ref i) as [y|]; try reflexivity.
    + destruct (nuc_eqb x y) eqn:E; [|reflexivity].
      apply nuc_eqb_eq in E. subst. exfalso. apply H. reflexivity.
    + exfalso. apply H. reflexivity.
Qed.

(* "some variant differs from the reference at i" = "not all variants agree at i" *)
Lemma differs_at_varies i ref vs :
  differs_at i ref vs = true <->
  exists v w, In v (ref :: vs) /\ In w (ref :: vs) /\ nth_error v i <> nth_error w i.
Proof.
  split.
  - intro H. apply differs_at_spec in H. destruct H as (v & Hv & Hne).
    exists v, ref. split; [right; exact Hv | split; [left; reflexivity | exact Hne]].
  - intros (v & w & Hv & Hw & Hne).
    destruct (differs_at i ref vs) eqn:E; [reflexivity|]. exfalso.
    assert (Hall : forall u, In u (ref :: vs) -> nth_error u i = nth_error ref i).
    { intros u [Hu|Hu]; [subst; reflexivity|]. apply (differs_at_false i ref vs E u Hu). }
    apply Hne. rewrite (Hall v Hv), (Hall w Hw). reflexivity.
Qed.

Lemma differs_at_perm i ref vs ref' vs' : Permutation (ref :: vs) (ref' :: vs') ->
  differs_at i ref vs = differs_at i ref' vs'.
Proof.
  intro HP. apply eq_true_iff_eq. rewrite !differs_at_varies.
  split; intros (v & w & Hv & Hw & Hne); exists v, w.
  - split; [|split]; [eapply Permutation_in; eassumption | eapply Permutation_in; eassumption | exact Hne].
  - apply Permutation_sym in HP.
    split; [|split]; [eapply Permutation_in; eassumption | eapply Permutation_in; eassumption | exact Hne].
Qed.

Lemma nodup_dna_perm l l' : Permutation l l' -> Permutation (nodup_dna l) (nodup_dna l').
Proof.
  intro HP. apply NoDup_Permutation; try apply nodup_dna_NoDup.
  intro x. rewrite !nodup_dna_In. split; intro H.
  - eapply Permutation_in; eassumption.
  - eapply Permutation_in; [apply Permutation_sym|]; eassumption.
Qed.

Lemma choice_equiv_mk a b vs vs' f : Permutation vs vs' ->
  choice_equiv (mkChoice a b vs f) (mkChoice a b vs' f).
Proof. intro HP. unfold choice_equiv. simpl. auto. Qed.

(* extract_varying_region does not depend on which variant serves as the reference: the pieces carry
   the same segments and the same sets of variants *)
Theorem extract_varying_region_order_independent : forall c c',
  choice_equiv c c' -> wf_choice c ->
  Forall2 choice_equiv (extract_varying_region c) (extract_varying_region c').
Proof.
  intros c c' Hc Hwf. pose proof Hc as (Hs & He & Ha & HP).
  destruct (cvariants c) as [|ref [|v2 vs]] eqn:Ev.
  - pose proof (Permutation_nil HP) as Ev'.
    rewrite (evr_small c) by (left; exact Ev). rewrite (evr_small c') by (left; exact Ev').
    constructor; [exact Hc | constructor].
  - pose proof (Permutation_length_1_inv HP) as Ev'.
    rewrite (evr_small c) by (right; eexists; exact Ev).
    rewrite (evr_small c') by (right; eexists; exact Ev').
    constructor; [exact Hc | constructor].
  - destruct (cvariants c') as [|ref' [|v2' vs']] eqn:Ev';
      try (apply Permutation_length in HP; discriminate).
    destruct Hwf as (Hpos & Hnd & Hlen). rewrite Ev in Hlen. rewrite Forall_forall in Hlen.
    assert (Hin' : In ref' (ref :: v2 :: vs)).
    { eapply Permutation_in; [apply Permutation_sym; exact HP | left; reflexivity]. }
    assert (Hn : List.length ref' = List.length ref).
    { pose proof (Hlen ref' Hin') as H1. pose proof (Hlen ref (or_introl eq_refl)) as H2.
      unfold zlen in *. lia. }
    unfold extract_varying_region. rewrite Ev, Ev'. cbv zeta.
    rewrite Hn.
    rewrite (filter_ext _ _ (fun i => differs_at_perm i ref' (v2' :: vs') ref (v2 :: vs)
                                        (Permutation_sym HP))).
    destruct (filter (fun i => differs_at i ref (v2 :: vs)) (seq 0 (List.length ref)))
      as [|i0 rest] eqn:Ef.
    + constructor; [exact Hc | constructor].
    + rewrite <- Hs, <- He.
      assert (Hpre : firstn i0 ref' = firstn i0 ref).
      { apply nth_error_ext. intro j.
        destruct (Nat.lt_ge_cases j i0) as [Hlt|Hge].
        - rewrite !nth_error_firstn_lt by assumption.
          destruct (Nat.lt_ge_cases j (List.length ref)) as [Hjl|Hjl].
          + destruct Hin' as [Hr|Hr]; [subst; reflexivity|].
            apply (differs_at_false j ref (v2 :: vs)); [|exact Hr].
            destruct (differs_at j ref (v2 :: vs)) eqn:E; [|reflexivity]. exfalso.
            assert (Hj : In j (i0 :: rest)).
            { rewrite <- Ef. apply filter_In. split; [apply in_seq; lia | exact E]. }
            pose proof (filter_seq_min _ _ _ _ _ Ef j Hj). lia.
          + assert (E1 : nth_error ref' j = None) by (apply nth_error_None; lia).
            assert (E2 : nth_error ref j = None) by (apply nth_error_None; lia).
            congruence.
        - rewrite !nth_error_firstn_ge by assumption. reflexivity. }
      apply Forall2_app; [|apply Forall2_app].
      * destruct (0 <? Z.of_nat i0); [|constructor].
        constructor; [|constructor]. rewrite Hpre. apply choice_equiv_mk. apply Permutation_refl.
      * constructor; [|constructor]. apply choice_equiv_mk.
        apply nodup_dna_perm. apply Permutation_map. exact HP.
      * destruct (Z.of_nat (last (i0 :: rest) i0) + 1 <? Z.of_nat (List.length ref)); [|constructor].
        constructor; [|constructor]. apply choice_equiv_mk.
        apply nodup_dna_perm. apply Permutation_map. exact HP.
Qed.
