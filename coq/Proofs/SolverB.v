(* Solver lemmas, part B (C12 and the second half of C01): every sequence the solver ever assigns
   -- candidates of the local searches included -- has the original length and lies in the
   mutation space; and for well-formed user code no exception other than NoSolutionError can
   arise.  For EVERY type of specifications and every evaluate function. *)
From Coq Require Import ZArith QArith Bool List Lia Sorting.Sorted.
From DC Require Import Model.Base Model.Loc Model.MSpace Model.Solver
                       Proofs.MSpaceDefs Proofs.MSpaceA Proofs.MSpaceB Proofs.MSpaceC.
Import ListNotations.
Open Scope Z_scope.

(* ---------------------------------------------------------------------------------------- *)
(* sub-lists in order *)
Inductive sub {X} : list X -> list X -> Prop :=
| sub_nil : forall l, sub [] l
| sub_skip : forall x l1 l2, sub l1 l2 -> sub l1 (x :: l2)
| sub_take : forall x l1 l2, sub l1 l2 -> sub (x :: l1) (x :: l2).

Lemma sub_refl {X} : forall l : list X, sub l l.
Proof. induction l as [|x l IH]; [apply sub_nil | apply sub_take, IH]. Qed.

Lemma sub_trans {X} : forall l1 l2 l3 : list X, sub l1 l2 -> sub l2 l3 -> sub l1 l3.
Proof.
  intros l1 l2 l3 H12 H23. revert l1 H12.
  induction H23 as [l | x l2 l3 H23 IH | x l2 l3 H23 IH]; intros l1 H12.
  - inversion H12; subst. apply sub_nil.
  - apply sub_skip, IH, H12.
  - inversion H12 as [l | y l1' l2' H12' | y l1' l2' H12']; subst.
    + apply sub_nil.
    + apply sub_skip, IH, H12'.
    + apply sub_take, IH, H12'.
Qed.

Lemma sub_In {X} : forall l1 l2 : list X, sub l1 l2 -> forall x, In x l1 -> In x l2.
Proof.
  intros l1 l2 H. induction H as [l | y l1 l2 H IH | y l1 l2 H IH]; intros x Hin.
  - destruct Hin.
  - right. apply IH, Hin.
  - destruct Hin as [Hin | Hin]; [left; exact Hin | right; apply IH, Hin].
Qed.

Lemma sub_Forall {X} (P : X -> Prop) : forall l1 l2 : list X, sub l1 l2 -> Forall P l2 -> Forall P l1.
Proof.
  intros l1 l2 H HF. rewrite Forall_forall in *. intros x Hin. apply HF. eapply sub_In; eauto.
Qed.

Lemma sub_SS {X} (R : X -> X -> Prop) : forall l1 l2 : list X, sub l1 l2 ->
  StronglySorted R l2 -> StronglySorted R l1.
Proof.
  intros l1 l2 H. induction H as [l | y l1 l2 H IH | y l1 l2 H IH]; intros HS.
  - constructor.
  - inversion HS; subst. apply IH. assumption.
  - inversion HS as [| a l HS' HF]; subst. constructor.
    + apply IH, HS'.
    + eapply sub_Forall; eauto.
Qed.

Lemma dedupe_repeat_None : forall k prev l, dedupe prev (repeat None k ++ l) = dedupe prev l.
Proof. induction k as [|k IH]; intros prev l; simpl; [reflexivity | apply IH]. Qed.

Lemma dedupe_firstn_sub : forall l m prev, sub (dedupe prev (firstn m l)) (dedupe prev l).
Proof.
  induction l as [|x l IH]; intros m prev.
  - destruct m; simpl; apply sub_nil.
  - destruct m as [|m]; simpl; [apply sub_nil|].
    destruct x as [c|]; [|apply IH].
    destruct prev as [p|]; [|apply sub_take, IH].
    destruct (choice_eqb c p); [apply IH | apply sub_take, IH].
Qed.

Lemma dedupe_None_Some : forall l p,
  dedupe None l = dedupe (Some p) l \/ dedupe None l = p :: dedupe (Some p) l.
Proof.
  induction l as [|x l IH]; intros p.
  - left; reflexivity.
  - destruct x as [d|]; simpl; [|apply IH].
    destruct (choice_eqb d p) eqn:E.
    + apply choice_eqb_eq in E; subst. right; reflexivity.
    + left; reflexivity.
Qed.

Lemma dedupe_skipn_sub : forall l j, sub (dedupe None (skipn j l)) (dedupe None l).
Proof.
  induction l as [|x l IH]; intros j.
  - destruct j; simpl; apply sub_nil.
  - destruct j as [|j]; [apply sub_refl|].
    change (skipn (S j) (x :: l)) with (skipn j l).
    eapply sub_trans; [apply IH|].
    destruct x as [c|]; simpl; [|apply sub_refl].
    destruct (dedupe_None_Some l c) as [E|E]; rewrite E; [apply sub_skip, sub_refl | apply sub_refl].
Qed.

Lemma localized_sub : forall ms a b, sub (choices_list (ms_localized ms a b)) (choices_list ms).
Proof.
  intros ms a b. unfold choices_list, ms_localized; simpl.
  rewrite dedupe_repeat_None. unfold pyslice, slice.
  eapply sub_trans; [apply dedupe_firstn_sub | apply dedupe_skipn_sub].
Qed.

Lemma multichoices_In : forall ms c, In c (multichoices ms) -> In c (choices_list ms).
Proof. intros ms c H. unfold multichoices in H. apply filter_In in H. apply H. Qed.

Lemma multichoices_sub : forall ms1 ms2, sub (choices_list ms1) (choices_list ms2) ->
  forall c, In c (multichoices ms1) -> In c (multichoices ms2).
Proof.
  intros ms1 ms2 H c Hin. unfold multichoices in *. apply filter_In in Hin. destruct Hin as [Hin Hf].
  apply filter_In. split; [eapply sub_In; eauto | exact Hf].
Qed.

(* one mutation step keeps the invariant *)
Lemma splice_step : forall ms s acc c v,
  wf_choices ms -> (forall c, In c (choices_list ms) -> cend c <= zlen s) ->
  In c (multichoices ms) -> In v (cvariants c) ->
  (zlen acc = zlen s /\ member ms acc /\
   (forall i, 0 <= i -> (forall c, In c (multichoices ms) -> ~ (cstart c <= i < cend c)) ->
              nth_error acc (Z.to_nat i) = nth_error s (Z.to_nat i))) ->
  let acc' := splice acc (cstart c) (cend c) v in
  (zlen acc' = zlen s /\ member ms acc' /\
   (forall i, 0 <= i -> (forall c, In c (multichoices ms) -> ~ (cstart c <= i < cend c)) ->
              nth_error acc' (Z.to_nat i) = nth_error s (Z.to_nat i))).
Proof.
  intros ms s acc c v [WF SS] Hfit Hc Hv (HL & HM & HO) acc'.
  pose proof (multichoices_In _ _ Hc) as Hc'.
  assert (Hwc : wf_choice c) by (rewrite Forall_forall in WF; apply WF, Hc').
  destruct Hwc as (Hpos & _ & Hlen).
  assert (Hlv : zlen v = cend c - cstart c) by (rewrite Forall_forall in Hlen; apply Hlen, Hv).
  assert (Hce : cend c <= zlen acc) by (rewrite HL; apply Hfit, Hc').
  unfold acc'. split; [|split].
  - rewrite splice_zlen; [exact HL | lia | exact Hce | exact Hlv].
  - unfold member in *. rewrite Forall_forall in *. intros d Hd.
    destruct (sorted_sep _ SS d c Hd Hc') as [E | D].
    + subst d. unfold holds. rewrite splice_slice_same; [exact Hv | lia | exact Hce | exact Hlv].
    + unfold holds. rewrite splice_slice_other; [apply HM, Hd | lia | exact Hce | exact Hlv | | ].
      * destruct (WF d Hd) as (Hpd & _). lia.
      * unfold disj in D. lia.
  - intros i Hi Hout. rewrite splice_nth_out; [apply HO; assumption | lia | exact Hce | exact Hlv | exact Hi | ].
    apply Hout, Hc.
Qed.

Lemma apply_mutations_inv : forall ms s muts acc,
  wf_choices ms -> (forall c, In c (choices_list ms) -> cend c <= zlen s) ->
  (forall cv, In cv muts -> In (fst cv) (multichoices ms) /\ In (snd cv) (cvariants (fst cv))) ->
  (zlen acc = zlen s /\ member ms acc /\
   (forall i, 0 <= i -> (forall c, In c (multichoices ms) -> ~ (cstart c <= i < cend c)) ->
              nth_error acc (Z.to_nat i) = nth_error s (Z.to_nat i))) ->
  (zlen (apply_mutations acc muts) = zlen s /\ member ms (apply_mutations acc muts) /\
   (forall i, 0 <= i -> (forall c, In c (multichoices ms) -> ~ (cstart c <= i < cend c)) ->
              nth_error (apply_mutations acc muts) (Z.to_nat i) = nth_error s (Z.to_nat i))).
Proof.
  intros ms s muts. induction muts as [|[c v] muts IH]; intros acc WF Hfit Hm Hinv.
  - exact Hinv.
  - unfold apply_mutations; simpl. apply IH; [exact WF | exact Hfit | |].
    + intros cv Hcv. apply Hm. right; exact Hcv.
    + destruct (Hm (c, v) (or_introl eq_refl)) as [Hc Hv]. simpl in Hc, Hv.
      apply (splice_step ms s acc c v WF Hfit Hc Hv Hinv).
Qed.

Lemma picked_muts : forall ms idx cs s r muts r',
  nth_all (multichoices ms) idx = Some cs -> variants_for cs s r = Some (muts, r') ->
  forall cv, In cv muts -> In (fst cv) (multichoices ms) /\ In (snd cv) (cvariants (fst cv)).
Proof.
  intros ms idx cs s r muts r' Hn Hv cv Hcv.
  destruct (variants_for_spec _ _ _ _ _ Hv) as [Hmap HF].
  destruct (nth_all_spec _ _ _ Hn) as [_ Hcs].
  rewrite Forall_forall in HF. split; [|apply (HF cv Hcv)].
  assert (Hin : In (fst cv) cs) by (rewrite <- Hmap; apply in_map, Hcv).
  destruct (Hcs _ Hin) as (j & _ & _ & Hj). eapply nth_error_In; eauto.
Qed.

Section SolverB.
  Variable spec : Type.
  Variable spec_eqb : spec -> spec -> bool.
  Variable ev : spec -> dna -> Q * option (list loc).
  Variable localize : spec -> loc -> bool -> dna -> lres spec.
  Variable accepts_rh : spec -> bool.
  Variable reinit : bool -> spec -> dna -> spec.
  Variable enforced : spec -> bool.
  Variable priority : spec -> Z.
  Variable best : spec -> option Q.
  Variable boost : spec -> Q.
  Variable passive : spec -> bool.
  Variable heuristic : spec -> option (settings -> lproblem spec -> state spec -> outcome * state spec).
  Variable opt_heuristic : spec -> option (settings -> lproblem spec -> state spec -> outcome * state spec).

  Notation resolve_constraints :=
    (resolve_constraints spec spec_eqb ev localize accepts_rh reinit enforced priority heuristic).
  Notation resolve_exhaustive := (resolve_exhaustive spec ev enforced).
  Notation resolve_random := (resolve_random spec ev enforced).
  Notation optimize :=
    (optimize spec ev localize reinit enforced best boost passive opt_heuristic).
  Notation optimize_exhaustive := (optimize_exhaustive spec ev enforced best boost).
  Notation optimize_random := (optimize_random spec ev enforced best boost).

  (* the problem's mutation space and the length of its sequence *)
  Variable space : mspace.
  Variable n : Z.
  Hypothesis space_wf : wf_space space.
  Hypothesis space_fits : forall c, In c (choices_list space) -> cend c <= n.

  (* "usable": right length, every hard nucleotide restriction respected *)
  Definition good (s : dna) : Prop := zlen s = n /\ member space s.
  (* every sequence assigned so far (most recent first) is usable *)
  Definition trace_good (tr : list (event spec)) : Prop :=
    forall s, In (EvAssign spec s) tr -> good s.
  Definition state_good (st : state spec) : Prop := good (cur _ st) /\ trace_good (trace _ st).

  (* a localized space inherits list-level well-formedness, and membership *)
  Theorem localized_wf_choices : forall a b, wf_choices (ms_localized space a b).
  Proof.
    intros a b. destruct space_wf as (W1 & W2 & _ & _).
    split; [eapply sub_Forall | eapply sub_SS]; try apply localized_sub; assumption.
  Qed.
  Theorem localized_member : forall a b s, member space s -> member (ms_localized space a b) s.
  Proof.
    intros a b s H. unfold member in *. eapply sub_Forall; [apply localized_sub | exact H].
  Qed.

  (* t modifies s only on segments of some choices of the space, which hold on t *)
  Lemma modified_good : forall (cs : list choice) s t, good s -> zlen t = zlen s ->
    (forall c, In c cs -> In c (choices_list space)) ->
    (forall c, In c cs -> holds c t) ->
    (forall i, 0 <= i -> (forall c, In c cs -> ~ (cstart c <= i < cend c)) ->
               nth_error t (Z.to_nat i) = nth_error s (Z.to_nat i)) ->
    good t.
  Proof.
    intros cs s t [Hn Hm] Hlen Hsub Hholds Hout.
    destruct space_wf as (W1 & W2 & _ & _).
    split; [lia|]. unfold member in *. rewrite Forall_forall in *. intros c Hc.
    destruct (in_or_disj c cs) as [Hin | Hd].
    - intros c' Hc'. apply (sorted_sep _ W2); [exact Hc | apply Hsub, Hc'].
    - apply Hholds, Hin.
    - unfold holds. replace (slice t (cstart c) (cend c)) with (slice s (cstart c) (cend c)); [apply Hm, Hc|].
      symmetry. apply MSpaceC.slice_ext.
      + destruct (W1 c Hc) as (Hp & _). lia.
      + intros i Hi. apply Hout.
        * destruct (W1 c Hc) as (Hp & _). lia.
        * intros c' Hc'. pose proof (Hd c' Hc') as D. unfold disj in D. lia.
  Qed.
  (* a sequence that is a variant of s w.r.t. a localized space (what the local searches produce)
     is still a member of the whole space *)
  Theorem localized_variant_good : forall a b s t, good s ->
    is_variant_of (ms_localized space a b) s t -> good t.
  Proof.
    intros a b s t Hg (HL & HH & HO).
    apply (modified_good (multichoices (ms_localized space a b)) s t Hg HL); [| exact HH | exact HO].
    intros c Hc. apply multichoices_In. eapply multichoices_sub; [apply localized_sub | exact Hc].
  Qed.

  (* whatever the oracle answers, a mutated sequence stays in the space (no validity needed) *)
  Theorem apply_random_mutations_member : forall ms k s r s' r',
    wf_choices ms -> member ms s -> (forall c, In c (choices_list ms) -> cend c <= zlen s) ->
    apply_random_mutations ms k s r = Some (s', r') ->
    zlen s' = zlen s /\ member ms s' /\
    (forall i, 0 <= i -> (forall c, In c (multichoices ms) -> ~ (cstart c <= i < cend c)) ->
               nth_error s' (Z.to_nat i) = nth_error s (Z.to_nat i)).
  Proof.
    intros ms k s r s' r' WF HM Hfit H.
    unfold apply_random_mutations in H.
    destruct (pick_random_mutations ms k s r) as [[muts r1]|] eqn:Hp; [|discriminate].
    inversion H; subst s' r'; clear H.
    apply apply_mutations_inv; [exact WF | exact Hfit | | ].
    - unfold pick_random_mutations in Hp.
      destruct (Z.min (zlen (multichoices ms)) k =? 1).
      + destruct (draw_int (zlen (multichoices ms)) r) as [[i r2]|]; [|discriminate].
        destruct (nth_all (multichoices ms) [i]) as [cs|] eqn:Hn; [|discriminate].
        eapply picked_muts; eauto.
      + destruct (draw (RChoice (zlen (multichoices ms)) (Z.min (zlen (multichoices ms)) k)) r)
          as [[idx r2]|]; [|discriminate].
        destruct (nth_all (multichoices ms) idx) as [cs|] eqn:Hn; [|discriminate].
        eapply picked_muts; eauto.
    - split; [reflexivity | split; [exact HM | intros; reflexivity]].
  Qed.

  (* assumptions on user code: heuristics leave a variant of the local space (or fail), and their
     own intermediate assignments are usable; localized() does not raise *)
  Definition heuristic_sound (h : settings -> lproblem spec -> state spec -> outcome * state spec) : Prop :=
    forall cfg lp st o st', h cfg lp st = (o, st') ->
      (o = ODone \/ o = ONoSolution \/ o = OOutOfStream) /\
      (good (cur _ st) -> (forall a b, lp_space _ lp = ms_localized space a b ->
         (cur _ st' = cur _ st \/ is_variant_of (lp_space _ lp) (cur _ st) (cur _ st')) /\
         (trace_good (trace _ st) -> trace_good (trace _ st')))).
  Hypothesis heuristics_sound : forall c h, heuristic c = Some h -> heuristic_sound h.
  Hypothesis opt_heuristics_sound : forall c h, opt_heuristic c = Some h -> heuristic_sound h.
  Hypothesis localize_total : forall c w rh s, localize c w rh s <> LError.

  (* ------------------------------------------------------------------------------------ *)
  (* what the local searches need to know about the space they work on *)
  Definition okspace (ms : mspace) : Prop :=
    wf_choices ms /\ (forall c, In c (choices_list ms) -> cend c <= n) /\
    (forall s, good s -> member ms s) /\
    (forall s t, good s -> is_variant_of ms s t -> good t).

  Lemma okspace_localized : forall a b, okspace (ms_localized space a b).
  Proof.
    intros a b. split; [apply localized_wf_choices | split; [|split]].
    - intros c Hc. apply space_fits. eapply sub_In; [apply localized_sub | exact Hc].
    - intros s [_ Hm]. apply localized_member, Hm.
    - intros s t Hg Hv. eapply localized_variant_good; eauto.
  Qed.

  Lemma okspace_space : okspace space.
  Proof.
    pose proof (wf_space_choices _ space_wf) as WF.
    split; [exact WF | split; [exact space_fits | split]].
    - intros s [_ Hm]. exact Hm.
    - intros s t [Hn Hm] Hv. split.
      + destruct Hv as (HL & _). lia.
      + eapply b_variant_member; eauto.
  Qed.

  Definition nice (o : outcome) : Prop := o = ODone \/ o = ONoSolution \/ o = OOutOfStream.

  Lemma trace_good_nil : trace_good [].
  Proof. intros s []. Qed.

  Lemma trace_good_app : forall t1 t2, trace_good t1 -> trace_good t2 -> trace_good (t1 ++ t2).
  Proof. intros t1 t2 H1 H2 s Hin. apply in_app_or in Hin. destruct Hin as [Hin|Hin]; [apply H1 | apply H2]; exact Hin. Qed.

  Lemma assign_good : forall st s, state_good st -> good s -> state_good (assign spec st s).
  Proof.
    intros st s [Hc Ht] Hs. split; simpl; [exact Hs|].
    intros s' [E|Hin]; [inversion E; subst; exact Hs | apply Ht, Hin].
  Qed.

  Lemma evaluate_good : forall c st e st', evaluate spec ev c st = (e, st') -> state_good st -> state_good st'.
  Proof.
    intros c st e st' H [Hc Ht]. unfold evaluate in H. inversion H; subst. split; simpl; [exact Hc|].
    intros s [E|Hin]; [discriminate | apply Ht, Hin].
  Qed.

  Local Opaque evaluate.

  Lemma all_pass_good : forall cs st b st', all_pass spec ev cs st = (b, st') -> state_good st -> state_good st'.
  Proof.
    induction cs as [|c cs IH]; intros st b st' H Hg; simpl in H.
    - inversion H; subst; exact Hg.
    - destruct (evaluate spec ev c st) as [e st1] eqn:E.
      pose proof (evaluate_good _ _ _ _ E Hg) as Hg1.
      destruct (passesq (fst e)); [eapply IH; eauto | inversion H; subst; exact Hg1].
  Qed.

  Lemma all_constraints_pass_good : forall cs st b st',
    all_constraints_pass spec ev enforced cs st = (b, st') -> state_good st -> state_good st'.
  Proof. intros cs st b st' H Hg. unfold all_constraints_pass in H. eapply all_pass_good; eauto. Qed.

  Lemma evaluations_good : forall cs st r st',
    evaluations spec ev enforced cs st = (r, st') -> state_good st -> state_good st'.
  Proof.
    induction cs as [|c cs IH]; intros st r st' H Hg; simpl in H.
    - inversion H; subst; exact Hg.
    - destruct (enforced c).
      + destruct (evaluations spec ev enforced cs st) as [r1 st1] eqn:E1.
        inversion H; subst. eapply IH; eauto.
      + destruct (evaluate spec ev c st) as [e st1] eqn:E.
        pose proof (evaluate_good _ _ _ _ E Hg) as Hg1.
        destruct (evaluations spec ev enforced cs st1) as [r2 st2] eqn:E2.
        inversion H; subst. eapply IH; eauto.
  Qed.

  Lemma scores_sum_good : forall objs st q st',
    scores_sum spec ev boost objs st = (q, st') -> state_good st -> state_good st'.
  Proof.
    induction objs as [|c cs IH]; intros st q st' H Hg; simpl in H.
    - inversion H; subst; exact Hg.
    - destruct (evaluate spec ev c st) as [e st1] eqn:E.
      pose proof (evaluate_good _ _ _ _ E Hg) as Hg1.
      destruct (scores_sum spec ev boost cs st1) as [r2 st2] eqn:E2.
      inversion H; subst. eapply IH; eauto.
  Qed.

  Lemma eval_all_good : forall cs st, state_good st -> state_good (eval_all spec ev cs st).
  Proof.
    induction cs as [|c cs IH]; intros st Hg; simpl; [exact Hg|].
    apply IH. destruct (evaluate spec ev c st) as [e st1] eqn:E. simpl. eapply evaluate_good; eauto.
  Qed.

  Lemma localized_passing_good : forall cs skip w st r st',
    localized_passing spec spec_eqb ev localize enforced cs skip w st = (r, st') ->
    state_good st -> state_good st' /\ r <> None.
  Proof.
    induction cs as [|c cs IH]; intros skip w st r st' H Hg; simpl in H.
    - inversion H; subst. split; [exact Hg | discriminate].
    - destruct (spec_eqb c skip || enforced c); [eapply IH; eauto|].
      destruct (localize c w true (cur spec st)) as [|c'|] eqn:EL.
      + eapply IH; eauto.
      + destruct (evaluate spec ev c' st) as [e st1] eqn:E.
        pose proof (evaluate_good _ _ _ _ E Hg) as Hg1.
        destruct (localized_passing spec spec_eqb ev localize enforced cs skip w st1) as [r1 st2] eqn:E2.
        destruct (IH _ _ _ _ _ E2 Hg1) as [Hg2 Hr].
        inversion H; subst. split; [exact Hg2|]. destruct r1; [discriminate | exact Hr].
      + exfalso. eapply localize_total; eauto.
  Qed.

  (* ---- candidates *)
  Lemma mutate_good : forall p k st st1, okspace (lp_space spec p) -> state_good st ->
    mutate spec p k st = Some st1 -> state_good st1.
  Proof.
    intros p k st st1 (WF & Hfit & Hmem & Hvar) [Hc Ht] H. unfold mutate in H.
    destruct (apply_random_mutations (lp_space spec p) k (cur spec st) (rng spec st)) as [[s' r']|] eqn:E;
      [|discriminate].
    inversion H; subst; clear H.
    assert (Hs' : good s').
    { apply apply_random_mutations_member in E; [| exact WF | apply Hmem, Hc | ].
      - destruct E as (HL & HM & HO). apply (Hvar (cur spec st) s' Hc).
        split; [exact HL | split; [| exact HO]].
        intros c Hc'. unfold member in HM. rewrite Forall_forall in HM. apply HM, multichoices_In, Hc'.
      - intros c Hc'. destruct Hc as [Hn _]. rewrite Hn. apply Hfit, Hc'. }
    split; simpl; [exact Hs'|].
    intros s [Eq|Hin]; [inversion Eq; subst; exact Hs' | apply Ht, Hin].
  Qed.

  Lemma all_variants_good : forall ms s vs, okspace ms -> good s -> all_variants ms s = Some vs ->
    forall v, In v vs -> good v.
  Proof.
    intros ms s vs (WF & Hfit & Hmem & Hvar) Hg H v Hv.
    destruct (multichoices ms) as [|c0 mcs] eqn:Emc.
    - rewrite all_variants_frozen in H by exact Emc. inversion H; subst vs.
      destruct Hv as [<-|[]]. exact Hg.
    - destruct (all_variants_spec ms s WF (Hmem s Hg)) as (vs' & Hav & _ & _ & Hiff & _).
      + intros c' Hc'. destruct Hg as [Hn _]. rewrite Hn. apply Hfit, Hc'.
      + rewrite Emc; discriminate.
      + rewrite Hav in H; inversion H; subst. apply (Hvar s v Hg), Hiff, Hv.
  Qed.

  Lemma all_variants_some : forall ms s, okspace ms -> good s -> multichoices ms <> [] ->
    all_variants ms s <> None.
  Proof.
    intros ms s (WF & Hfit & Hmem & Hvar) Hg Hmc.
    destruct (all_variants_spec ms s WF (Hmem s Hg)) as (vs' & Hav & _).
    - intros c' Hc'. destruct Hg as [Hn _]. rewrite Hn. apply Hfit, Hc'.
    - exact Hmc.
    - rewrite Hav; discriminate.
  Qed.

  (* ---- exhaustive search *)
  Lemma exhaustive_loop_good : forall p vs st ok st', (forall v, In v vs -> good v) -> state_good st ->
    exhaustive_loop spec ev enforced p vs st = (ok, st') -> state_good st'.
  Proof.
    intros p. induction vs as [|v vs IH]; intros st ok st' Hvs Hg H; simpl in H.
    - inversion H; subst; exact Hg.
    - assert (Hg1 : state_good (assign spec st v))
        by (apply assign_good; [exact Hg | apply Hvs; left; reflexivity]).
      assert (Hvs' : forall v', In v' vs -> good v') by (intros v' Hv'; apply Hvs; right; exact Hv').
      destruct (lp_focus spec p) as [[f q]|].
      + destruct (evaluate spec ev f (assign spec st v)) as [e st2] eqn:E2.
        pose proof (evaluate_good _ _ _ _ E2 Hg1) as Hg2.
        destruct (passesq (fst e)).
        * destruct (all_pass spec ev (lp_others spec p) st2) as [ok3 st3] eqn:E3.
          pose proof (all_pass_good _ _ _ _ E3 Hg2) as Hg3.
          destruct ok3; [inversion H; subst; exact Hg3 | eapply IH; eauto].
        * eapply IH; eauto.
      + destruct (all_constraints_pass spec ev enforced (lp_others spec p) (assign spec st v)) as [ok2 st2] eqn:E2.
        pose proof (all_constraints_pass_good _ _ _ _ E2 Hg1) as Hg2.
        destruct ok2; [inversion H; subst; exact Hg2 | eapply IH; eauto].
  Qed.

  Lemma resolve_exhaustive_good : forall p st o st', okspace (lp_space spec p) -> state_good st ->
    resolve_exhaustive p st = (o, st') ->
    state_good st' /\ (multichoices (lp_space spec p) <> [] -> nice o).
  Proof.
    intros p st o st' Hok Hg H. unfold Solver.resolve_exhaustive in H.
    destruct (all_variants (lp_space spec p) (cur spec st)) as [vs|] eqn:Ev.
    - destruct (exhaustive_loop spec ev enforced p vs st) as [ok st1] eqn:El.
      assert (Hg1 : state_good st1).
      { eapply exhaustive_loop_good; [| exact Hg | exact El].
        eapply all_variants_good; [exact Hok | exact (proj1 Hg) | exact Ev]. }
      destruct ok; inversion H; subst.
      + split; [exact Hg1 | intros _; left; reflexivity].
      + split; [apply assign_good; [exact Hg1 | exact (proj1 Hg)] | intros _; right; left; reflexivity].
    - inversion H; subst. split; [exact Hg|]. intros Hmc. exfalso.
      eapply all_variants_some; [exact Hok | exact (proj1 Hg) | exact Hmc | exact Ev].
  Qed.

  (* ---- random searches *)
  Lemma random_all_loop_good : forall p k iters evs score st o st', okspace (lp_space spec p) ->
    state_good st -> random_all_loop spec ev enforced iters p k evs score st = (o, st') ->
    state_good st' /\ nice o.
  Proof.
    intros p k. induction iters as [|it IH]; intros evs score st o st' Hok Hg H; simpl in H.
    - inversion H; subst. split; [exact Hg | right; left; reflexivity].
    - destruct (all_passq evs).
      + inversion H; subst. split; [exact Hg | left; reflexivity].
      + destruct (mutate spec p k st) as [st1|] eqn:Em.
        * pose proof (mutate_good _ _ _ _ Hok Hg Em) as Hg1.
          destruct (evaluations spec ev enforced (lp_others spec p) st1) as [evs' st2] eqn:Ee.
          pose proof (evaluations_good _ _ _ _ Ee Hg1) as Hg2.
          destruct (Qlt_le_dec score (failing_sum evs')).
          -- eapply IH; eauto.
          -- eapply IH; [exact Hok | | exact H]. apply assign_good; [exact Hg2 | exact (proj1 Hg)].
        * inversion H; subst. split; [exact Hg | right; right; reflexivity].
  Qed.

  Lemma random_single_loop_good : forall p k f iters score st o st', okspace (lp_space spec p) ->
    state_good st -> random_single_loop spec ev iters p k f score st = (o, st') ->
    state_good st' /\ nice o.
  Proof.
    intros p k f. induction iters as [|it IH]; intros score st o st' Hok Hg H; simpl in H.
    - inversion H; subst. split; [exact Hg | right; left; reflexivity].
    - destruct (mutate spec p k st) as [st1|] eqn:Em.
      + pose proof (mutate_good _ _ _ _ Hok Hg Em) as Hg1.
        destruct (evaluate spec ev f st1) as [e st2] eqn:Ee.
        pose proof (evaluate_good _ _ _ _ Ee Hg1) as Hg2.
        destruct (Qlt_le_dec score (fst e)).
        * destruct (all_pass spec ev (lp_others spec p) st2) as [ok st3] eqn:Ea.
          pose proof (all_pass_good _ _ _ _ Ea Hg2) as Hg3.
          destruct ok.
          -- destruct (passesq (fst e)).
             ++ inversion H; subst. split; [exact Hg3 | left; reflexivity].
             ++ eapply IH; eauto.
          -- eapply IH; [exact Hok | | exact H]. apply assign_good; [exact Hg3 | exact (proj1 Hg)].
        * eapply IH; [exact Hok | | exact H]. apply assign_good; [exact Hg2 | exact (proj1 Hg)].
      + inversion H; subst. split; [exact Hg | right; right; reflexivity].
  Qed.

  Lemma resolve_random_good : forall cfg p st o st', okspace (lp_space spec p) -> state_good st ->
    resolve_random cfg p st = (o, st') -> state_good st' /\ nice o.
  Proof.
    intros cfg p st o st' Hok Hg H. unfold Solver.resolve_random in H.
    destruct (lp_focus spec p) as [[f sc]|].
    - eapply random_single_loop_good; eauto.
    - destruct (evaluations spec ev enforced (lp_others spec p) st) as [evs st1] eqn:Ee.
      pose proof (evaluations_good _ _ _ _ Ee Hg) as Hg1.
      eapply random_all_loop_good; eauto.
  Qed.

  Lemma resolve_locally_good : forall cfg p st o st', okspace (lp_space spec p) -> state_good st ->
    resolve_locally spec ev enforced cfg p st = (o, st') ->
    state_good st' /\ (multichoices (lp_space spec p) <> [] -> nice o).
  Proof.
    intros cfg p st o st' Hok Hg H. unfold resolve_locally in H.
    destruct (space_size_exact (lp_space spec p) <? st_threshold cfg).
    - eapply resolve_exhaustive_good; eauto.
    - destruct (resolve_random_good _ _ _ _ _ Hok Hg H) as [Hg' Hn]. split; [exact Hg' | intros _; exact Hn].
  Qed.

  (* ---- resolve_constraint *)
  Definition att_state (a : attempt spec) : state spec :=
    match a with ABreak _ st => st | AContinue _ st => st | ARaise _ _ st => st end.
  Definition att_nice (a : attempt spec) : Prop :=
    match a with ARaise _ o _ => nice o | _ => True end.

  Lemma heuristic_run_good : forall h cfg lp s0 r o lst a b, heuristic_sound h ->
    lp_space spec lp = ms_localized space a b -> good s0 ->
    h cfg lp (mkState spec s0 r []) = (o, lst) -> state_good lst /\ nice o.
  Proof.
    intros h cfg lp s0 r o lst a b Hs Hsp Hg0 Hrun.
    destruct (Hs _ _ _ _ _ Hrun) as [Hn Hrest]. simpl in Hrest.
    destruct (Hrest Hg0 a b Hsp) as [Hcur Htr].
    split; [|exact Hn]. split.
    - destruct Hcur as [E|Hv]; [rewrite E; exact Hg0|].
      rewrite Hsp in Hv. eapply localized_variant_good; eauto.
    - apply Htr, trace_good_nil.
  Qed.

  Lemma spliced_good : forall st2 lst, state_good st2 -> state_good lst ->
    state_good (mkState spec (cur spec st2) (rng spec lst) (trace spec lst ++ trace spec st2)).
  Proof.
    intros st2 lst [Hc2 Ht2] [Hcl Htl]. split; simpl; [exact Hc2 | apply trace_good_app; assumption].
  Qed.

  Lemma attempt_extension_good : forall cfg cs c l nl ext il st, state_good st ->
    let a := attempt_extension spec spec_eqb ev localize accepts_rh reinit enforced heuristic
               cfg space cs c l nl ext il st in
    state_good (att_state a) /\ att_nice a.
  Proof.
    intros cfg cs c l nl ext il st Hg a. subst a. unfold attempt_extension.
    set (nl0 := extended l ext 0 None true true).
    set (lspace := ms_localized space (lstart nl0) (lend nl0)).
    assert (Hok : okspace lspace) by apply okspace_localized.
    destruct (multichoices lspace) as [|mc0 mcs] eqn:Emc.
    - assert (Hz : space_size_exact lspace = 0) by (unfold space_size_exact; rewrite Emc; reflexivity).
      rewrite Hz. simpl. destruct il; simpl; split; try exact Hg; try exact I. right; left; reflexivity.
    - destruct (space_size_exact lspace =? 0).
      { destruct il; simpl; split; try exact Hg; try exact I. right; left; reflexivity. }
      unfold choices_span. rewrite Emc.
      set (w := mkLoc (cstart mc0) (cend (last (mc0 :: mcs) mc0)) 0).
      match goal with |- context [localize c w ?rh0 (cur spec st)] => set (rh := rh0) end.
      destruct (localize c w rh (cur spec st)) as [|lc|] eqn:EL.
      + simpl. split; [exact Hg | exact I].
      + destruct (evaluate spec ev lc st) as [e st1] eqn:E1.
        pose proof (evaluate_good _ _ _ _ E1 Hg) as Hg1.
        destruct (passesq (fst e)); [simpl; split; [exact Hg1 | exact I]|].
        destruct (localized_passing spec spec_eqb ev localize enforced cs c w st1) as [r st2] eqn:ELP.
        destruct (localized_passing_good _ _ _ _ _ _ ELP Hg1) as [Hg2 Hr].
        destruct r as [others|]; [|contradiction].
        set (lp := mkLP spec (Some (reinit false lc (cur spec st2), fst e))
                     (map (fun o => reinit false o (cur spec st2)) others) [] lspace).
        match goal with |- context [let '(o, lst) := ?X in _] => destruct X as [o lst] eqn:Eloc end.
        assert (Hloc : state_good lst /\ nice o).
        { destruct (heuristic c) as [h|] eqn:Eh.
          - eapply (heuristic_run_good h cfg lp); [eapply heuristics_sound; exact Eh | reflexivity | exact (proj1 Hg2) | exact Eloc].
          - assert (Hsp : lp_space spec lp = lspace) by reflexivity.
            assert (Hg0 : state_good (mkState spec (cur spec st2) (rng spec st2) []))
              by (split; [exact (proj1 Hg2) | exact trace_good_nil]).
            destruct (resolve_locally_good cfg lp _ _ _ Hok Hg0 Eloc) as [Hgl Hn].
            split; [exact Hgl|]. apply Hn. rewrite Hsp, Emc. discriminate. }
        destruct Hloc as [Hgl Hno].
        pose proof (spliced_good _ _ Hg2 Hgl) as Hg3.
        destruct o; simpl.
        * split; [apply assign_good; [exact Hg3 | exact (proj1 Hgl)] | exact I].
        * destruct il; simpl; split; try exact Hg3; try exact I. right; left; reflexivity.
        * destruct Hno as [Hno|[Hno|Hno]]; discriminate.
        * split; [exact Hg3 | right; right; reflexivity].
      + exfalso. eapply localize_total; eauto.
  Qed.

  Local Opaque attempt_extension.

  Lemma try_extensions_good : forall cfg cs c l nl last_ext exts st o st', state_good st ->
    try_extensions spec spec_eqb ev localize accepts_rh reinit enforced heuristic
      cfg space cs c l nl last_ext exts st = (o, st') ->
    state_good st' /\ nice o.
  Proof.
    intros cfg cs c l nl last_ext. induction exts as [|ext exts IH]; intros st o st' Hg H; simpl in H.
    - inversion H; subst. split; [exact Hg | left; reflexivity].
    - pose proof (attempt_extension_good cfg cs c l nl ext (ext =? last_ext) st Hg) as Ha. simpl in Ha.
      destruct (attempt_extension spec spec_eqb ev localize accepts_rh reinit enforced heuristic
                  cfg space cs c l nl ext (ext =? last_ext) st) as [sa|sa|oa sa]; simpl in Ha; destruct Ha as [Hga Hna].
      + inversion H; subst. split; [exact Hga | left; reflexivity].
      + eapply IH; eauto.
      + inversion H; subst. split; [exact Hga | exact Hna].
  Qed.

  Lemma for_locations_good : forall cfg cs c locs st o st', state_good st ->
    for_locations spec spec_eqb ev localize accepts_rh reinit enforced heuristic
      cfg space cs c locs st = (o, st') ->
    state_good st' /\ nice o.
  Proof.
    intros cfg cs c. induction locs as [|l locs IH]; intros st o st' Hg H; simpl in H.
    - inversion H; subst. split; [exact Hg | left; reflexivity].
    - destruct (try_extensions spec spec_eqb ev localize accepts_rh reinit enforced heuristic
                  cfg space cs c l (hd_error locs) (last (st_extensions cfg) 0) (st_extensions cfg) st)
        as [o1 st1] eqn:Et.
      destruct (try_extensions_good _ _ _ _ _ _ _ _ _ _ Hg Et) as [Hg1 Hn1].
      destruct o1; try (inversion H; subst; split; [exact Hg1 | exact Hn1]).
      eapply IH; eauto.
  Qed.

  Lemma resolve_constraint_good : forall cfg cs c st o st', state_good st ->
    resolve_constraint spec spec_eqb ev localize accepts_rh reinit enforced heuristic
      cfg space cs c st = (o, st') ->
    state_good st' /\ nice o.
  Proof.
    intros cfg cs c st o st' Hg H. unfold resolve_constraint in H.
    destruct (evaluate spec ev c st) as [e st1] eqn:E.
    pose proof (evaluate_good _ _ _ _ E Hg) as Hg1.
    destruct (passesq (fst e)).
    - inversion H; subst. split; [exact Hg1 | left; reflexivity].
    - destruct (snd e) as [ls|].
      + eapply for_locations_good; eauto.
      + inversion H; subst. split; [exact Hg1 | right; left; reflexivity].
  Qed.

  Lemma resolve_each_good : forall cfg cs todo st o st', state_good st ->
    resolve_each spec spec_eqb ev localize accepts_rh reinit enforced heuristic
      cfg space cs todo st = (o, st') ->
    state_good st' /\ nice o.
  Proof.
    intros cfg cs. induction todo as [|c todo IH]; intros st o st' Hg H; simpl in H.
    - inversion H; subst. split; [exact Hg | left; reflexivity].
    - destruct (resolve_constraint spec spec_eqb ev localize accepts_rh reinit enforced heuristic
                  cfg space cs c st) as [o1 st1] eqn:Er.
      destruct (resolve_constraint_good _ _ _ _ _ _ Hg Er) as [Hg1 Hn1].
      destruct o1; try (inversion H; subst; split; [exact Hg1 | exact Hn1]).
      eapply IH; eauto.
  Qed.

  Lemma final_check_good : forall cs st o st', state_good st ->
    final_check spec ev cs st = (o, st') -> state_good st' /\ nice o.
  Proof.
    intros cs st o st' Hg H. unfold final_check in H.
    destruct (all_pass spec ev cs st) as [ok st1] eqn:E.
    pose proof (all_pass_good _ _ _ _ E Hg) as Hg1.
    destruct ok; inversion H; subst.
    - split; [exact Hg1 | left; reflexivity].
    - split; [apply eval_all_good, Hg1 | right; left; reflexivity].
  Qed.

  Lemma resolve_constraints_good : forall cfg cs fc st o st',
    state_good st -> resolve_constraints cfg space cs fc st = (o, st') -> state_good st' /\ nice o.
  Proof.
    intros cfg cs fc st o st' Hg H. unfold Solver.resolve_constraints in H.
    destruct (sort_by_priority spec priority (filter (fun c => negb (enforced c)) cs)) as [|t0 todo] eqn:Etodo.
    - inversion H; subst. split; [exact Hg | left; reflexivity].
    - destruct (resolve_each spec spec_eqb ev localize accepts_rh reinit enforced heuristic
                  cfg space cs (t0 :: todo) st) as [o1 st1] eqn:Er.
      destruct (resolve_each_good _ _ _ _ _ _ Hg Er) as [Hg1 Hn1].
      destruct o1; try (inversion H; subst; split; [exact Hg1 | exact Hn1]).
      destruct fc.
      + eapply final_check_good; eauto.
      + inversion H; subst. split; [exact Hg1 | left; reflexivity].
  Qed.

  (* ---- objectives *)
  Lemma opt_exhaustive_loop_good : forall p bs vs bsc bseq st sc' bseq' st',
    (forall v, In v vs -> good v) -> good bseq -> state_good st ->
    opt_exhaustive_loop spec ev enforced boost p bs vs bsc bseq st = (sc', bseq', st') ->
    good bseq' /\ state_good st'.
  Proof.
    intros p bs. induction vs as [|v vs IH]; intros bsc bseq st sc' bseq' st' Hvs Hb Hg H; simpl in H.
    - inversion H; subst. split; assumption.
    - assert (Hv : good v) by (apply Hvs; left; reflexivity).
      assert (Hg1 : state_good (assign spec st v)) by (apply assign_good; assumption).
      assert (Hvs' : forall v', In v' vs -> good v') by (intros v' Hv'; apply Hvs; right; exact Hv').
      destruct (all_constraints_pass spec ev enforced (lp_constraints spec p) (assign spec st v)) as [ok st2] eqn:E2.
      pose proof (all_constraints_pass_good _ _ _ _ E2 Hg1) as Hg2.
      destruct ok; [|eapply IH; [exact Hvs' | | | exact H]; assumption].
      destruct (scores_sum spec ev boost (lp_objectives spec p) st2) as [sc st3] eqn:E3.
      pose proof (scores_sum_good _ _ _ _ E3 Hg2) as Hg3.
      destruct (Qlt_le_dec bsc sc); [|eapply IH; [exact Hvs' | | | exact H]; assumption].
      destruct bs as [b|]; [|eapply IH; [exact Hvs' | | | exact H]; assumption].
      destruct (Qle_bool b sc); [|eapply IH; [exact Hvs' | | | exact H]; assumption].
      inversion H; subst. split; assumption.
  Qed.

  Lemma optimize_exhaustive_good : forall p st o st', okspace (lp_space spec p) -> state_good st ->
    optimize_exhaustive p st = (o, st') -> state_good st'.
  Proof.
    intros p st o st' Hok Hg H. unfold Solver.optimize_exhaustive in H.
    destruct (all_constraints_pass spec ev enforced (lp_constraints spec p) st) as [ok st1] eqn:E1.
    pose proof (all_constraints_pass_good _ _ _ _ E1 Hg) as Hg1.
    destruct ok; simpl in H.
    - destruct (scores_sum spec ev boost (lp_objectives spec p) st1) as [sc st2] eqn:E2.
      pose proof (scores_sum_good _ _ _ _ E2 Hg1) as Hg2.
      destruct (all_variants (lp_space spec p) (cur spec st2)) as [vs|] eqn:Ev.
      + destruct (opt_exhaustive_loop spec ev enforced boost p (sum_best spec best boost (lp_objectives spec p) true)
                    vs sc (cur spec st2) st2) as [[sc' bseq] st3] eqn:El.
        inversion H; subst.
        destruct (opt_exhaustive_loop_good _ _ _ _ _ _ _ _ _
                    (all_variants_good _ _ _ Hok (proj1 Hg2) Ev) (proj1 Hg2) Hg2 El) as [Hb Hg3].
        apply assign_good; assumption.
      + inversion H; subst. exact Hg2.
    - inversion H; subst.
      destruct (evaluations spec ev enforced (lp_constraints spec p) st1) as [r st2] eqn:E2. simpl.
      eapply evaluations_good; eauto.
  Qed.

  Lemma opt_random_loop_good : forall p cfg bs iters score stag st o st', okspace (lp_space spec p) ->
    state_good st -> opt_random_loop spec ev enforced boost iters p cfg bs score stag st = (o, st') ->
    state_good st'.
  Proof.
    intros p cfg bs. induction iters as [|it IH]; intros score stag st o st' Hok Hg H; simpl in H.
    - inversion H; subst. exact Hg.
    - destruct (match bs with Some b => Qle_bool b score | None => false end); [inversion H; subst; exact Hg|].
      destruct (match st_stagnation cfg with Some t => t <? stag | None => false end); [inversion H; subst; exact Hg|].
      destruct (mutate spec p (st_mutations cfg) st) as [st1|] eqn:Em; [|inversion H; subst; exact Hg].
      pose proof (mutate_good _ _ _ _ Hok Hg Em) as Hg1.
      destruct (all_constraints_pass spec ev enforced (lp_constraints spec p) st1) as [ok st2] eqn:E2.
      pose proof (all_constraints_pass_good _ _ _ _ E2 Hg1) as Hg2.
      destruct ok.
      + destruct (scores_sum spec ev boost (lp_objectives spec p) st2) as [sc st3] eqn:E3.
        pose proof (scores_sum_good _ _ _ _ E3 Hg2) as Hg3.
        destruct (Qlt_le_dec score sc).
        * eapply IH; eauto.
        * eapply IH; [exact Hok | | exact H]. apply assign_good; [exact Hg3 | exact (proj1 Hg)].
      + eapply IH; [exact Hok | | exact H]. apply assign_good; [exact Hg2 | exact (proj1 Hg)].
  Qed.

  Lemma optimize_random_good : forall cfg p st o st', okspace (lp_space spec p) -> state_good st ->
    optimize_random cfg p st = (o, st') -> state_good st'.
  Proof.
    intros cfg p st o st' Hok Hg H. unfold Solver.optimize_random in H.
    destruct (all_constraints_pass spec ev enforced (lp_constraints spec p) st) as [ok st1] eqn:E1.
    pose proof (all_constraints_pass_good _ _ _ _ E1 Hg) as Hg1.
    destruct ok; simpl in H.
    - destruct (scores_sum spec ev boost (lp_objectives spec p) st1) as [sc st2] eqn:E2.
      pose proof (scores_sum_good _ _ _ _ E2 Hg1) as Hg2.
      eapply opt_random_loop_good; eauto.
    - inversion H; subst.
      destruct (evaluations spec ev enforced (lp_constraints spec p) st1) as [r st2] eqn:E2. simpl.
      eapply evaluations_good; eauto.
  Qed.

  Lemma optimize_locations_good : forall cfg cs objs obj locs st o st', state_good st ->
    optimize_locations spec ev localize reinit enforced best boost opt_heuristic
      cfg space cs objs obj locs st = (o, st') -> state_good st'.
  Proof.
    intros cfg cs objs obj. induction locs as [|l locs IH]; intros st o st' Hg H.
    - simpl in H. inversion H; subst. exact Hg.
    - cbn [optimize_locations] in H.
      set (lspace := ms_localized space (lstart l) (lend l)) in H.
      assert (Hok : okspace lspace) by apply okspace_localized.
      destruct (space_size_exact lspace =? 0); [eapply IH; eauto|].
      destruct (choices_span lspace) as [[a b]|]; [|inversion H; subst; exact Hg].
      destruct (localize_all spec localize cs (mkLoc a b 0) (cur spec st)) as [lcs|];
        [|inversion H; subst; exact Hg].
      destruct (localize_all spec localize (filter (fun o => negb (Qeq_bool (boost o) 0)) objs)
                  (mkLoc a b 0) (cur spec st)) as [los|]; [|inversion H; subst; exact Hg].
      set (lp := mkLP spec None (map (fun c => reinit false c (cur spec st)) lcs)
                   (map (fun o => reinit true o (cur spec st)) los) lspace) in H.
      assert (Hg0 : state_good (mkState spec (cur spec st) (rng spec st) []))
        by (split; [exact (proj1 Hg) | exact trace_good_nil]).
      match type of H with context [let '(o, lst) := ?X in _] => destruct X as [o1 lst] eqn:Eloc end.
      assert (Hgl : state_good lst).
      { destruct (opt_heuristic obj) as [h|] eqn:Eh.
        - eapply (heuristic_run_good h cfg lp);
            [eapply opt_heuristics_sound; exact Eh | reflexivity | exact (proj1 Hg) | exact Eloc].
        - destruct (space_size_exact lspace <? st_threshold cfg).
          + eapply optimize_exhaustive_good; [| exact Hg0 | exact Eloc]. exact Hok.
          + eapply optimize_random_good; [| exact Hg0 | exact Eloc]. exact Hok. }
      pose proof (spliced_good _ _ Hg Hgl) as Hg3.
      destruct o1; try (inversion H; subst; exact Hg3).
      eapply IH; [|exact H]. apply assign_good; [exact Hg3 | exact (proj1 Hgl)].
  Qed.

  Lemma optimize_objective_good : forall cfg cs objs obj st o st', state_good st ->
    optimize_objective spec ev localize reinit enforced best boost opt_heuristic
      cfg space cs objs obj st = (o, st') -> state_good st'.
  Proof.
    intros cfg cs objs obj st o st' Hg H. unfold optimize_objective in H.
    destruct (evaluate spec ev obj st) as [e st1] eqn:E.
    pose proof (evaluate_good _ _ _ _ E Hg) as Hg1.
    destruct (best obj) as [b|].
    - destruct (Qeq_bool (fst e) b); [inversion H; subst; exact Hg1|].
      destruct (snd e) as [ls|]; [eapply optimize_locations_good; eauto | inversion H; subst; exact Hg1].
    - destruct (snd e) as [ls|]; [eapply optimize_locations_good; eauto | inversion H; subst; exact Hg1].
  Qed.

  Lemma optimize_each_good : forall cfg cs objs todo st o st', state_good st ->
    optimize_each spec ev localize reinit enforced best boost opt_heuristic
      cfg space cs objs todo st = (o, st') -> state_good st'.
  Proof.
    intros cfg cs objs. induction todo as [|c todo IH]; intros st o st' Hg H; simpl in H.
    - inversion H; subst. exact Hg.
    - destruct (optimize_objective spec ev localize reinit enforced best boost opt_heuristic
                  cfg space cs objs c st) as [o1 st1] eqn:Er.
      pose proof (optimize_objective_good _ _ _ _ _ _ _ Hg Er) as Hg1.
      destruct o1; try (inversion H; subst; exact Hg1).
      eapply IH; eauto.
  Qed.

  (* ---- C12: every state the solver passes through is usable *)
  Theorem resolve_constraints_states_good : forall cfg cs fc st o st',
    state_good st -> resolve_constraints cfg space cs fc st = (o, st') -> state_good st'.
  Proof.
    intros cfg cs fc st o st' Hg H. exact (proj1 (resolve_constraints_good _ _ _ _ _ _ Hg H)).
  Qed.

  Theorem optimize_states_good : forall cfg cs objs st o st',
    state_good st -> optimize cfg space cs objs st = (o, st') -> state_good st'.
  Proof.
    intros cfg cs objs st o st' Hg H. unfold Solver.optimize in H. eapply optimize_each_good; eauto.
  Qed.

  (* the direct searches on the problem itself *)
  Theorem direct_searches_states_good : forall cfg (p : lproblem spec) st o st',
    lp_space _ p = space -> state_good st ->
    (resolve_exhaustive p st = (o, st') \/ resolve_random cfg p st = (o, st') \/
     optimize_exhaustive p st = (o, st') \/ optimize_random cfg p st = (o, st')) ->
    state_good st'.
  Proof.
    intros cfg p st o st' Hsp Hg H.
    pose proof okspace_space as Hok. rewrite <- Hsp in Hok.
    destruct H as [H|[H|[H|H]]].
    - exact (proj1 (resolve_exhaustive_good _ _ _ _ Hok Hg H)).
    - exact (proj1 (resolve_random_good _ _ _ _ _ Hok Hg H)).
    - eapply optimize_exhaustive_good; eauto.
    - eapply optimize_random_good; eauto.
  Qed.

  (* ---- C01, second half: no exception other than NoSolutionError *)
  Theorem resolve_constraints_no_other_exception : forall cfg cs fc st o st',
    state_good st -> resolve_constraints cfg space cs fc st = (o, st') ->
    o = ODone \/ o = ONoSolution \/ o = OOutOfStream.
  Proof.
    intros cfg cs fc st o st' Hg H. exact (proj2 (resolve_constraints_good _ _ _ _ _ _ Hg H)).
  Qed.
End SolverB.

