(* C08 for UniquifyAllKmers (global form: data = None; the localized copy carries the k-mer data).

   After fix F19 the k-mer start positions used by [localized] are plain ranges
   ([start, end - k + 1)) whatever the strands, and the law holds for every k >= 1 and every
   strand of the location, the reference and the window: [uniquify_pass]. *)
From Coq Require Import ZArith QArith Bool List Lia Permutation.
From DC Require Import Model.Base Model.Loc Model.Bio Model.Pattern Model.MSpace Model.Specs
                       Proofs.SpecsDefs.
From DC Require Proofs.LocProofs Proofs.MSpaceA Proofs.MSpaceD Proofs.BioC Proofs.SpecsLocalB
                Proofs.SpecsEval.
Import ListNotations.
Open Scope Z_scope.

(* ------------------------------------------------------------------ small list facts *)

Lemma existsb_Zeqb i L : existsb (Z.eqb i) L = true <-> In i L.
Proof.
  rewrite existsb_exists. split.
  - intros [x [H1 H2]]. apply Z.eqb_eq in H2. subst. exact H1.
  - intros H. exists i. split; [exact H | apply Z.eqb_refl].
Qed.

Lemma sort_z_In i L : In i (sort_z L) <-> In i L.
Proof.
  destruct (BioC.sort_z_sorted_perm L) as [P _]. split; intro H.
  - eapply Permutation_in; [apply Permutation_sym; exact P | exact H].
  - eapply Permutation_in; [exact P | exact H].
Qed.

Lemma sort_z_nil L : sort_z L = [] -> L = [].
Proof.
  intro H. destruct (BioC.sort_z_sorted_perm L) as [P _]. rewrite H in P.
  apply Permutation_sym, Permutation_nil in P. exact P.
Qed.

Lemma flat_map_nil {A B} (f : A -> list B) l : flat_map f l = [] -> forall x, In x l -> f x = [].
Proof.
  induction l as [|a l IH]; cbn [flat_map]; intros H x Hx; [destruct Hx|].
  apply app_eq_nil in H. destruct H as [H1 H2]. destruct Hx as [Hx|Hx]; [subst; exact H1 | auto].
Qed.

Lemma two_in_len {A} (i j : A) l : In i l -> In j l -> i <> j -> 2 <= zlen l.
Proof.
  destruct l as [|a [|b l]]; intros Hi Hj Hn.
  - destruct Hi.
  - destruct Hi as [Hi|[]], Hj as [Hj|[]]. congruence.
  - unfold zlen. cbn [List.length]. lia.
Qed.

Lemma zrange_NoDup a b : NoDup (zrange a b).
Proof.
  unfold zrange. apply FinFun.Injective_map_NoDup; [|apply seq_NoDup].
  intros x y H. lia.
Qed.

(* ------------------------------------------------------------------ k-mers *)

Lemma slice_mid {X} (a b c : list X) : slice (a ++ b ++ c) (zlen a) (zlen a + zlen b) = b.
Proof.
  unfold slice, zlen.
  replace (Z.to_nat (Z.of_nat (List.length a))) with (List.length a) by lia.
  replace (Z.to_nat (Z.of_nat (List.length a) + Z.of_nat (List.length b) - Z.of_nat (List.length a)))
    with (List.length b) by lia.
  rewrite skipn_app, skipn_all, Nat.sub_diag. cbn [skipn app].
  rewrite firstn_app, firstn_all, Nat.sub_diag. cbn [firstn]. apply app_nil_r.
Qed.

Lemma slice_rc (s : dna) i k : 0 <= i -> 0 <= k -> i + k <= zlen s ->
  slice (rc s) (zlen s - i - k) (zlen s - i) = rc (slice s i (i + k)).
Proof.
  intros Hi Hk Hn.
  assert (E : s = slice s 0 i ++ slice s i (i + k) ++ slice s (i + k) (zlen s)).
  { rewrite <- SpecsLocalB.sliceB_three by lia. symmetry. apply SpecsLocalB.sliceB_full. }
  assert (LA : zlen (slice s 0 i) = i) by (rewrite SpecsLocalB.zlenB_slice; lia).
  assert (LB : zlen (slice s i (i + k)) = k) by (rewrite SpecsLocalB.zlenB_slice; lia).
  assert (LC : zlen (slice s (i + k) (zlen s)) = zlen s - i - k) by (rewrite SpecsLocalB.zlenB_slice; lia).
  remember (slice s 0 i) as A. remember (slice s i (i + k)) as B.
  remember (slice s (i + k) (zlen s)) as C.
  assert (E' : rc s = rc C ++ rc B ++ rc A).
  { rewrite E at 1. rewrite !SpecsLocalB.rcB_app. rewrite <- app_assoc. reflexivity. }
  rewrite E'.
  replace (zlen s - i - k) with (zlen (rc C)) by (rewrite SpecsLocalB.zlenB_rc; lia).
  replace (zlen s - i) with (zlen (rc C) + zlen (rc B)) by (rewrite !SpecsLocalB.zlenB_rc; lia).
  apply slice_mid.
Qed.

Definition canon (irc : bool) (x : dna) : dna :=
  if irc then (if seq_ltb (rc x) x then rc x else x) else x.

Lemma kmer_at_canon s irc k i : 0 <= i -> 0 <= k -> i + k <= zlen s ->
  kmer_at s irc k i = canon irc (slice s i (i + k)).
Proof.
  intros Hi Hk Hn. unfold kmer_at, canon. cbv zeta.
  rewrite (SpecsLocalB.pysliceB_eq s i (i + k)) by lia.
  destruct irc; [|reflexivity].
  rewrite SpecsLocalB.pysliceB_eq by (rewrite SpecsLocalB.zlenB_rc; lia).
  rewrite slice_rc by lia. reflexivity.
Qed.

Lemma kmer_agree w s s' irc k i : agree_outside w s s' -> 0 <= i -> 0 <= k -> i + k <= zlen s ->
  (i + k <= lstart w \/ lend w <= i) -> kmer_at s' irc k i = kmer_at s irc k i.
Proof.
  intros Hag Hi Hk Hn Hd. pose proof (SpecsLocalB.agree_zlen _ _ _ Hag) as Hz.
  rewrite !kmer_at_canon by lia. f_equal. symmetry.
  apply (SpecsLocalB.agree_slice w); [exact Hag | exact Hi |]. intros j Hj. lia.
Qed.

(* ------------------------------------------------------------------ counting *)

Lemma seq_eqb_refl v : seq_eqb v v = true.
Proof. apply MSpaceA.seq_eqb_eq. reflexivity. Qed.

Lemma count_cons v x l : count_dna v (x :: l) = (if seq_eqb v x then 1 else 0) + count_dna v l.
Proof.
  unfold count_dna. cbn [filter]. destruct (seq_eqb v x); unfold zlen; cbn [List.length]; lia.
Qed.

Lemma count_nonneg v l : 0 <= count_dna v l.
Proof. unfold count_dna, zlen. lia. Qed.

Lemma count_ge1 (g : Z -> dna) v l j : In j l -> g j = v -> 1 <= count_dna v (map g l).
Proof.
  induction l as [|a l IH]; cbn [map]; intros Hj E; [destruct Hj|].
  rewrite count_cons. destruct Hj as [Hj|Hj].
  - subst. rewrite seq_eqb_refl. pose proof (count_nonneg (g j) (map g l)). lia.
  - specialize (IH Hj E). destruct (seq_eqb v (g a)); lia.
Qed.

Lemma count_ge2 (g : Z -> dna) v l i j : In i l -> In j l -> i <> j -> g i = v -> g j = v ->
  2 <= count_dna v (map g l).
Proof.
  induction l as [|a l IH]; cbn [map]; intros Hi Hj Hn Ei Ej; [destruct Hi|].
  rewrite count_cons. destruct Hi as [Hi|Hi]; destruct Hj as [Hj|Hj].
  - congruence.
  - subst a. rewrite Ei, seq_eqb_refl. pose proof (count_ge1 g v l j Hj Ej). lia.
  - subst a. rewrite Ej, seq_eqb_refl. pose proof (count_ge1 g v l i Hi Ei). lia.
  - pose proof (IH Hi Hj Hn Ei Ej). destruct (seq_eqb v (g a)); lia.
Qed.

Lemma count_ge1_inv (g : Z -> dna) v l : 1 <= count_dna v (map g l) -> exists j, In j l /\ g j = v.
Proof.
  induction l as [|a l IH]; cbn [map]; intros H.
  - unfold count_dna, zlen in H. cbn in H. lia.
  - rewrite count_cons in H. destruct (seq_eqb v (g a)) eqn:E.
    + apply MSpaceA.seq_eqb_eq in E. exists a. split; [left; reflexivity | congruence].
    + destruct IH as [j [Hj Ej]]; [lia|]. exists j. split; [right; exact Hj | exact Ej].
Qed.

Lemma count_ge2_inv (g : Z -> dna) v l i : NoDup l -> 2 <= count_dna v (map g l) ->
  exists j, In j l /\ j <> i /\ g j = v.
Proof.
  induction l as [|a l IH]; cbn [map]; intros Hnd H.
  - unfold count_dna, zlen in H. cbn in H. lia.
  - inversion Hnd as [|? ? Hna Hnd']; subst. rewrite count_cons in H.
    destruct (seq_eqb v (g a)) eqn:E.
    + apply MSpaceA.seq_eqb_eq in E. destruct (Z.eq_dec a i) as [Eai|Eai].
      * destruct (count_ge1_inv g v l) as [j [Hj Ej]]; [lia|].
        exists j. split; [right; exact Hj|]. split; [|exact Ej]. intro. subst. contradiction.
      * exists a. split; [left; reflexivity|]. split; [exact Eai | congruence].
    + destruct IH as [j [Hj [Hn Ej]]]; [exact Hnd' | lia |].
      exists j. split; [right; exact Hj|]. split; assumption.
Qed.

(* ------------------------------------------------------------------ the global evaluation *)

Lemma global_pass_iff k l ref irc t : 1 <= k ->
  (passes (eval_uniquify_global k l ref irc t) = true <->
   forall i j, lstart ref <= i < lend ref - k + 1 -> lstart ref <= j < lend ref - k + 1 -> i <> j ->
      lstart l <= i -> i + k <= lend l -> kmer_at t irc k i <> kmer_at t irc k j).
Proof.
  intros Hk. unfold eval_uniquify_global. cbv zeta.
  remember (zrange (lstart ref) (lend ref - k + 1)) as idx eqn:Eidx.
  remember (filter _ idx) as bad eqn:Ebad.
  rewrite (SpecsEval.passes_zq_score _ (- zlen bad)) by reflexivity.
  split.
  - intros H i j Hi Hj Hij Hl1 Hl2 E.
    assert (Hin : In i bad).
    { rewrite Ebad. apply filter_In. split; [rewrite Eidx; apply LocProofs.in_zrange; lia|].
      rewrite !andb_true_iff. repeat split.
      - apply Z.leb_le. apply (count_ge2 (kmer_at t irc k) _ idx i j); auto;
          rewrite Eidx; apply LocProofs.in_zrange; lia.
      - apply Z.leb_le. lia.
      - apply Z.ltb_lt. lia.
      - apply Z.leb_le. lia. }
    destruct bad as [|b bad']; [destruct Hin|]. unfold zlen in H. cbn [List.length] in H. lia.
  - intros H. destruct bad as [|i bad'] eqn:Eb; [unfold zlen; cbn [List.length]; lia|]. exfalso.
    assert (Hin : In i (i :: bad')) by (left; reflexivity).
    rewrite Ebad in Hin. apply filter_In in Hin. destruct Hin as [Hin Hc].
    rewrite !andb_true_iff in Hc. destruct Hc as [[[C1 C2] C3] C4].
    apply Z.leb_le in C1. apply Z.leb_le in C2. apply Z.leb_le in C4.
    assert (Hnd : NoDup idx) by (rewrite Eidx; apply zrange_NoDup).
    destruct (count_ge2_inv (kmer_at t irc k) _ idx i Hnd C1) as [j [Hj [Hne Ej]]].
    rewrite Eidx in Hin, Hj. apply LocProofs.in_zrange in Hin. apply LocProofs.in_zrange in Hj.
    apply (H i j); auto.
Qed.

(* ------------------------------------------------------------------ the local evaluation *)

Lemma idx_of_In (km : Z -> dna) v L i :
  In i (map snd (filter (fun p : dna * Z => seq_eqb (fst p) v) (map (fun i => (km i, i)) L)))
  <-> In i L /\ km i = v.
Proof.
  rewrite in_map_iff. split.
  - intros [[u x] [E H]]. cbn [snd] in E. subst x. apply filter_In in H. destruct H as [H1 H2].
    apply in_map_iff in H1. destruct H1 as [y [Ey Hy]]. inversion Ey; subst.
    cbn [fst] in H2. apply MSpaceA.seq_eqb_eq in H2. auto.
  - intros [H E]. exists (km i, i). split; [reflexivity|]. apply filter_In. split.
    + apply in_map_iff. exists i. auto.
    + cbn [fst]. apply MSpaceA.seq_eqb_eq. exact E.
Qed.

Lemma map_fst_locv (km : Z -> dna) L : map fst (map (fun i => (km i, i)) L) = map km L.
Proof. rewrite map_map. reflexivity. Qed.

Lemma cross_nil (km : Z -> dna) c L :
  flat_map (fun v => if dmem v c
                     then map snd (filter (fun p : dna * Z => seq_eqb (fst p) v) (map (fun i => (km i, i)) L))
                     else [])
           (nodup_dna (map fst (map (fun i => (km i, i)) L))) = [] ->
  forall i, In i L -> ~ In (km i) c.
Proof.
  intros H i Hi Hc. pose proof (flat_map_nil _ _ H (km i)) as H1. cbv beta in H1.
  assert (Hk : In (km i) (nodup_dna (map fst (map (fun i => (km i, i)) L)))).
  { apply MSpaceD.nodup_dna_In. rewrite map_fst_locv. apply in_map. exact Hi. }
  specialize (H1 Hk). apply SpecsEval.dmem_iff_In in Hc. rewrite Hc in H1.
  assert (H2 : In i (map snd (filter (fun p : dna * Z => seq_eqb (fst p) (km i))
                                     (map (fun i => (km i, i)) L))))
    by (apply idx_of_In; auto).
  rewrite H1 in H2. destruct H2.
Qed.

Lemma local_pass_facts k irc d t : passes (eval_uniquify_local k irc d t) = true ->
  let km := kmer_at t irc k in
  (forall i j, In i (kd_loc_changing d) -> In j (kd_loc_changing d) -> i <> j -> km i <> km j) /\
  (forall i j, In i (kd_loc_changing d) -> In j (kd_ext_changing d) -> km i <> km j) /\
  (forall i, In i (kd_loc_changing d) -> ~ In (km i) (kd_loc_fixed d)) /\
  (forall i, In i (kd_loc_changing d) -> ~ In (km i) (kd_ext_fixed d)) /\
  (forall j, In j (kd_ext_changing d) -> ~ In (km j) (kd_loc_fixed d)).
Proof.
  intros H. unfold eval_uniquify_local in H. cbv zeta in H.
  remember (sort_z _) as all eqn:Eall in H.
  rewrite (SpecsEval.passes_zq_score _ (- zlen all)) in H by reflexivity.
  destruct all as [|a all']; [|unfold zlen in H; cbn [List.length] in H; lia].
  symmetry in Eall. apply sort_z_nil in Eall.
  apply app_eq_nil in Eall. destruct Eall as [P1 P23].
  apply app_eq_nil in P23. destruct P23 as [P2 P3].
  cbn [flat_map] in P2, P3.
  apply app_eq_nil in P2. destruct P2 as [P2a P2].
  apply app_eq_nil in P2. destruct P2 as [P2b P2].
  apply app_eq_nil in P2. destruct P2 as [P2c _].
  apply app_eq_nil in P3. destruct P3 as [_ P3].
  apply app_eq_nil in P3. destruct P3 as [P3b _].
  cbv zeta. set (km := kmer_at t irc k) in *.
  pose proof (cross_nil km _ _ P2a) as Q2a.
  pose proof (cross_nil km _ _ P2b) as Q2b.
  pose proof (cross_nil km _ _ P2c) as Q2c.
  pose proof (cross_nil km _ _ P3b) as Q3b.
  split; [|split; [|split; [|split]]].
  - intros i j Hi Hj Hn E.
    pose proof (flat_map_nil _ _ P1 (km i)) as H1. cbv beta in H1.
    assert (Hk : In (km i) (nodup_dna (map fst (map (fun i => (km i, i)) (kd_loc_changing d))))).
    { apply MSpaceD.nodup_dna_In. rewrite map_fst_locv. apply in_map. exact Hi. }
    specialize (H1 Hk).
    assert (Ii : In i (map snd (filter (fun p : dna * Z => seq_eqb (fst p) (km i))
                                       (map (fun i => (km i, i)) (kd_loc_changing d)))))
      by (apply idx_of_In; auto).
    assert (Ij : In j (map snd (filter (fun p : dna * Z => seq_eqb (fst p) (km i))
                                       (map (fun i => (km i, i)) (kd_loc_changing d)))))
      by (apply idx_of_In; auto).
    pose proof (two_in_len i j _ Ii Ij Hn) as H2.
    apply Z.leb_le in H2. rewrite H2 in H1. rewrite H1 in Ii. destruct Ii.
  - intros i j Hi Hj E. apply (Q2a i Hi). apply MSpaceD.nodup_dna_In. rewrite map_fst_locv.
    rewrite E. apply in_map. exact Hj.
  - intros i Hi Hc. apply (Q2b i Hi). apply MSpaceD.nodup_dna_In. exact Hc.
  - intros i Hi Hc. apply (Q2c i Hi). apply MSpaceD.nodup_dna_In. exact Hc.
  - intros j Hj Hc. apply (Q3b j Hj). apply MSpaceD.nodup_dna_In. exact Hc.
Qed.

(* ------------------------------------------------------------------ the localized copy *)

Ltac zbs := repeat match goal with
  | |- context [?a <? ?b] => destruct (Z.ltb_spec a b)
  | |- context [?a <=? ?b] => destruct (Z.leb_spec a b)
  end.

Lemma overlap_spec a b :
  match overlap_region a b with
  | Some r => lstart r = Z.max (lstart a) (lstart b) /\ lend r = Z.min (lend a) (lend b) /\
              lstrand r = lstrand a /\
              (if lstart b <? lstart a then lstart a < lend b else lstart b < lend a)
  | None => if lstart b <? lstart a then lend b <= lstart a else lend a <= lstart b
  end.
Proof.
  unfold overlap_region. cbv zeta.
  destruct (Z.ltb_spec (lstart b) (lstart a)) as [H|H]; cbv iota; rewrite Z.geb_leb.
  - destruct (Z.leb_spec (lend b) (lstart a)); cbn [lstart lend lstrand]; lia.
  - destruct (Z.leb_spec (lend a) (lstart b)); cbn [lstart lend lstrand]; lia.
Qed.

Lemma zone_spec k w ref o n : window_in w n -> lstart ref <= lend ref -> 1 <= k ->
  overlap_region w ref = Some o ->
  exists zone, overlap_region (extended w (k - 1) 0 None true true) ref = Some zone /\
    lstart zone = Z.max (Z.max 0 (lstart w - (k - 1))) (lstart ref) /\
    lend zone = Z.min (lend w + (k - 1)) (lend ref) /\ lstrand zone = lstrand w /\
    lstart zone <= lend zone.
Proof.
  intros Hw Hr Hk Ho. unfold window_in in Hw.
  pose proof (overlap_spec w ref) as S1. rewrite Ho in S1.
  pose proof (overlap_spec (extended w (k - 1) 0 None true true) ref) as S2.
  destruct (overlap_region (extended w (k - 1) 0 None true true) ref) as [zone|].
  - exists zone. split; [reflexivity|]. unfold extended in S2. cbn [lstart lend lstrand] in S2.
    destruct S1 as (_ & _ & _ & S1). destruct S2 as (A & B & C & D).
    revert S1 D. zbs; intros; lia.
  - exfalso. unfold extended in S2. cbn [lstart lend lstrand] in S2.
    destruct S1 as (_ & _ & _ & S1). revert S1 S2. zbs; intros; lia.
Qed.

Lemma filter_in_iff (chg all : list Z) i :
  In i (filter (fun i => existsb (Z.eqb i) chg) all) <-> In i all /\ In i chg.
Proof. rewrite filter_In, existsb_Zeqb. tauto. Qed.

Lemma filter_notin_iff (chg all : list Z) i :
  In i (filter (fun i => negb (existsb (Z.eqb i) chg)) all) <-> In i all /\ ~ In i chg.
Proof.
  rewrite filter_In, negb_true_iff. rewrite <- (existsb_Zeqb i chg).
  destruct (existsb (Z.eqb i) chg); split; intros [H1 H2]; split; auto; try discriminate.
  exfalso. apply H2. reflexivity.
Qed.

Lemma in_positions k lc i :
  In i (zrange (lstart lc) (lend lc - k + 1)) <-> lstart lc <= i /\ i + k <= lend lc.
Proof. rewrite LocProofs.in_zrange. lia. Qed.

Definition chg_pos (k : Z) (w ref : loc) (i : Z) : Prop :=
  Z.max (Z.max 0 (lstart w - (k - 1))) (lstart ref) <= i /\ i + k <= Z.min (lend w + (k - 1)) (lend ref).

Lemma localized_facts k l ref irc w s o n :
  1 <= k -> loc_in l n -> loc_in ref n -> window_in w n ->
  overlap_region w ref = Some o ->
  exists zone d,
    uniq_localized k l ref irc w true s = LSome (SUniquify k zone ref irc (Some d)) /\
    (forall i, lstart l <= i -> i + k <= lend l -> chg_pos k w ref i -> In i (kd_loc_changing d)) /\
    (forall i, lstart ref <= i -> i + k <= lend ref -> chg_pos k w ref i ->
               In i (kd_loc_changing d) \/ In i (kd_ext_changing d)) /\
    (forall i, lstart l <= i -> i + k <= lend l -> ~ chg_pos k w ref i ->
               In (kmer_at s irc k i) (kd_loc_fixed d)) /\
    (forall i, lstart ref <= i -> i + k <= lend ref -> ~ chg_pos k w ref i ->
               In (kmer_at s irc k i) (kd_ext_fixed d)).
Proof.
  intros Hk Hl Hr Hw Ho. unfold loc_in in Hl, Hr.
  destruct (zone_spec k w ref o n Hw) as [zone (Hz & Zs & Ze & Zst & Zle)]; [lia | lia | exact Ho |].
  exists zone. eexists. split.
  { unfold uniq_localized. rewrite Ho, Hz. reflexivity. }
  cbn [kd_loc_changing kd_ext_changing kd_loc_fixed kd_ext_fixed].
  assert (Hchg : forall i, In i (zrange (lstart zone) (lend zone - k + 1)) <-> chg_pos k w ref i).
  { intros i. rewrite in_positions. unfold chg_pos. rewrite Zs, Ze. tauto. }
  assert (Hall : forall lc i, lstart lc <= i -> i + k <= lend lc ->
             In i (zrange (lstart lc) (lend lc - k + 1))).
  { intros lc i H1 H2. apply in_positions. lia. }
  split; [|split; [|split]].
  - intros i H1 H2 H3. apply sort_z_In. apply filter_in_iff. split; [auto | apply Hchg; exact H3].
  - intros i H1 H2 H3.
    destruct (existsb (Z.eqb i)
                (filter (fun i => existsb (Z.eqb i) (zrange (lstart zone) (lend zone - k + 1)))
                        (zrange (lstart l) (lend l - k + 1)))) eqn:E.
    + left. apply sort_z_In. apply existsb_Zeqb. exact E.
    + right. apply sort_z_In. apply filter_In. split.
      * apply filter_in_iff. split; [auto | apply Hchg; exact H3].
      * rewrite E. reflexivity.
  - intros i H1 H2 H3. apply MSpaceD.nodup_dna_In. apply in_map. apply filter_notin_iff.
    split; [auto | rewrite Hchg; exact H3].
  - intros i H1 H2 H3. apply MSpaceD.nodup_dna_In. apply in_map. apply filter_notin_iff.
    split; [auto | rewrite Hchg; exact H3].
Qed.

(* ------------------------------------------------------------------ the law *)

Lemma global_eq_outside k l ref irc w s s' :
  1 <= k -> loc_in ref (zlen s) -> agree_outside w s s' ->
  (lend ref <= lstart w \/ lend w <= lstart ref) ->
  eval_uniquify_global k l ref irc s' = eval_uniquify_global k l ref irc s.
Proof.
  intros Hk Hr Hag Hd. unfold loc_in in Hr. unfold eval_uniquify_global. cbv zeta.
  assert (Hkm : forall i, In i (zrange (lstart ref) (lend ref - k + 1)) ->
                          kmer_at s' irc k i = kmer_at s irc k i).
  { intros i Hi. apply LocProofs.in_zrange in Hi. apply (kmer_agree w); [exact Hag | lia | lia | lia | lia]. }
  assert (Hm : map (kmer_at s' irc k) (zrange (lstart ref) (lend ref - k + 1))
               = map (kmer_at s irc k) (zrange (lstart ref) (lend ref - k + 1)))
    by (apply map_ext_in; exact Hkm).
  rewrite Hm.
  assert (Hf : filter (fun i => (2 <=? count_dna (kmer_at s' irc k i)
                                       (map (kmer_at s irc k) (zrange (lstart ref) (lend ref - k + 1))))
                                && (lstart l <=? i) && (i <? i + k) && (i + k <=? lend l))
                      (zrange (lstart ref) (lend ref - k + 1))
               = filter (fun i => (2 <=? count_dna (kmer_at s irc k i)
                                       (map (kmer_at s irc k) (zrange (lstart ref) (lend ref - k + 1))))
                                && (lstart l <=? i) && (i <? i + k) && (i + k <=? lend l))
                      (zrange (lstart ref) (lend ref - k + 1))).
  { apply filter_ext_in. intros i Hi. rewrite (Hkm i Hi). reflexivity. }
  rewrite Hf. reflexivity.
Qed.

Theorem uniquify_pass : forall k l ref irc w s s',
  wf_spec (SUniquify k l ref irc None) (zlen s) -> window_in w (zlen s) -> agree_outside w s s' ->
  local_pass_law (SUniquify k l ref irc None) w s s'.
Proof.
  intros k l ref irc w s s' Hwf Hw Hag.
  unfold wf_spec in Hwf. destruct Hwf as (Hk & Hl & Hr).
  unfold local_pass_law. cbn [evaluate]. intros Hps.
  unfold localized, localized_raw. cbn [accepts_righthand negb orb].
  destruct (overlap_region w ref) as [o|] eqn:Eo.
  - destruct (localized_facts k l ref irc w s o (zlen s) Hk Hl Hr Hw Eo)
      as (zone & d & Hloc & F1 & F2 & F3 & F4).
    rewrite Hloc. cbn [evaluate]. intros Hpl.
    apply local_pass_facts in Hpl. cbv zeta in Hpl. destruct Hpl as (P1 & P2a & P2b & P2c & P3b).
    apply global_pass_iff; [lia|]. intros i j Hi Hj Hij Hli Hle E.
    pose proof (proj1 (global_pass_iff k l ref irc s ltac:(lia)) Hps) as G.
    unfold loc_in in Hl, Hr. unfold window_in in Hw.
    (* a reference position is "changing" exactly when its k-mer meets the window *)
    assert (Hov : forall x, lstart ref <= x < lend ref - k + 1 ->
                    (chg_pos k w ref x <-> lstart w < x + k /\ x < lend w)).
    { intros x Hx. unfold chg_pos. lia. }
    assert (Hfix : forall x, lstart ref <= x < lend ref - k + 1 -> ~ chg_pos k w ref x ->
                     kmer_at s' irc k x = kmer_at s irc k x).
    { intros x Hx Hn. rewrite (Hov x Hx) in Hn. apply (kmer_agree w); [exact Hag | lia | lia | lia | lia]. }
    assert (Di : chg_pos k w ref i \/ ~ chg_pos k w ref i) by (unfold chg_pos; lia).
    assert (Dj : chg_pos k w ref j \/ ~ chg_pos k w ref j) by (unfold chg_pos; lia).
    destruct Di as [Ci|Ci]; destruct Dj as [Cj|Cj].
    + (* both changing *)
      assert (Li : In i (kd_loc_changing d)) by (apply F1; [lia | lia | exact Ci]).
      destruct (F2 j) as [Lj|Ej]; [lia | lia | exact Cj | |].
      * exact (P1 i j Li Lj Hij E).
      * exact (P2a i j Li Ej E).
    + (* i changing, j fixed *)
      assert (Li : In i (kd_loc_changing d)) by (apply F1; [lia | lia | exact Ci]).
      apply (P2c i Li). rewrite E, (Hfix j Hj Cj). apply F4; [lia | lia | exact Cj].
    + (* i fixed, j changing *)
      assert (Fi : In (kmer_at s' irc k j) (kd_loc_fixed d)).
      { rewrite <- E, (Hfix i Hi Ci). apply F3; [lia | lia | exact Ci]. }
      destruct (F2 j) as [Lj|Ej]; [lia | lia | exact Cj | |].
      * exact (P2b j Lj Fi).
      * exact (P3b j Ej Fi).
    + (* both fixed: inherited from s *)
      apply (G i j Hi Hj Hij Hli Hle). rewrite <- (Hfix i Hi Ci), <- (Hfix j Hj Cj). exact E.
  - (* the window does not meet the reference region: nothing changes *)
    unfold uniq_localized. rewrite Eo.
    pose proof (overlap_spec w ref) as S. rewrite Eo in S. unfold window_in in Hw.
    rewrite (global_eq_outside k l ref irc w s s'); [reflexivity | lia | exact Hr | exact Hag |].
    revert S. unfold loc_in in Hr. zbs; intros; lia.
Qed.


