(* The synonymous-codon space of EnforceTranslation with the start-codon policy "keep" (forward strand):
   the first codon of the coding region gets ONE variant, the codon currently there, every other codon
   the synonyms of its residue as without policy.  Shape of the mutation space built from these
   restrictions: membership (first codon = the one of the original sequence, every other codon encodes
   its residue), every codon of the region is a closed, covered window, the window of the first codon
   is frozen (its local space has no multi-variant choice: space_size 0), the codons after the first
   can be swapped for synonyms inside the space.  Used by Proofs/CaiFullKeep.v. *)
From Coq Require Import ZArith QArith Bool List Lia Lqa Ascii String Sorting.Sorted Permutation.
From DC Require Import Model.Base Model.Loc Model.Bio Model.Pattern Model.MSpace Model.Specs Model.Solver
                       Generated.GenTables
                       Proofs.MSpaceDefs Proofs.MSpaceA Proofs.MSpaceB Proofs.MSpaceC Proofs.MSpaceD Proofs.MSpaceE
                       Proofs.SpecsDefs Proofs.BioA Proofs.SpecsCodon
                       Proofs.SolverA Proofs.SolverB Proofs.SolverC Proofs.SolverE Proofs.Builtins Proofs.CaiEnd
                       Proofs.TranslationSpace.
Import ListNotations.
Open Scope Z_scope.

(* ================================================================== frozen windows *)
(* a closed, covered window in which the usable sequences cannot differ has an empty local search
   space: no multi-variant choice, space_size 0 (optimize_locations skips such a location) *)
Section FrozenWindow.
  Variable space : mspace.
  Variable n : Z.
  Hypothesis space_wf : wf_space space.
  Hypothesis space_fits : forall c, In c (choices_list space) -> cend c <= n.
  Variables a b : Z.
  Hypothesis Ha : 0 <= a.
  Hypothesis Hab : a < b.
  Hypothesis Hbn : b <= n.
  Hypothesis closed : forall c, In c (choices_list space) -> Z.max a (cstart c) < Z.min b (cend c) ->
    a <= cstart c /\ cend c <= b.
  Hypothesis covered : forall i, a <= i < b -> exists c, In c (choices_list space) /\ cstart c <= i < cend c.

  Lemma window_frozen : forall s, good space n s ->
    (forall t, good space n t ->
       (forall i, 0 <= i -> ~ (a <= i < b) -> nth_error t (Z.to_nat i) = nth_error s (Z.to_nat i)) -> t = s) ->
    space_size_exact (ms_localized space a b) = 0.
  Proof.
    intros s Hg Huniq.
    destruct (multichoices (ms_localized space a b)) as [|c0 mc] eqn:E.
    { unfold space_size_exact. rewrite E. reflexivity. }
    exfalso.
    assert (Hmc : multichoices (ms_localized space a b) <> []) by (rewrite E; discriminate).
    assert (Hin : forall c, In c (choices_list (ms_localized space a b)) ->
              In c (choices_list space) /\ a <= cstart c /\ cend c <= b).
    { intros c Hc. exact (window_choice_in space n space_wf space_fits a b Ha Hab closed covered c Hc). }
    destruct (all_variants_spec (ms_localized space a b) s) as (vs & Hvs & Hnd & Hhd & Hiff & Hsz & _).
    - apply localized_wf_choices. exact space_wf.
    - apply localized_member. exact (proj2 Hg).
    - intros c Hc. apply Hin in Hc. destruct Hg as [Hn _]. lia.
    - exact Hmc.
    - destruct (space_size_is_product _ Hmc) as [_ Hge].
      assert (H2 : 2 <= zlen vs).
      { rewrite Hsz. eapply Z.le_trans; [|exact Hge]. rewrite E, zlen_cons'.
        pose proof (zlen_nonneg mc) as Hm.
        change 2 with (2 ^ 1) at 1. apply Z.pow_le_mono_r; lia. }
      destruct vs as [|v0 [|v1 vs]]; try (unfold zlen in H2; cbn [List.length] in H2; lia).
      cbn [hd_error] in Hhd. inversion Hhd; subst v0.
      inversion Hnd as [|x xs Hni _]; subst.
      apply Hni. left.
      assert (Hv1 : is_variant_of (ms_localized space a b) s v1) by (apply Hiff; right; left; reflexivity).
      apply Huniq.
      + destruct (okspace_localized space n space_wf space_fits a b) as (_ & _ & _ & Hvar).
        exact (Hvar s v1 Hg Hv1).
      + intros i Hi Hni'. destruct Hv1 as (_ & _ & V3). apply V3; [exact Hi|].
        intros c Hc Hic. apply multichoices_In in Hc. apply Hin in Hc. lia.
  Qed.
End FrozenWindow.

(* ================================================================== EnforceTranslation, start codon kept *)
Section TranslationKeep.
  Variables (name : string) (T : gtable) (l : loc) (tr : astr) (s0 : dna).
  Hypothesis HT : In (name, T) genetic_tables.
  Hypothesis Hnd : no_dual_stop T = true.
  Hypothesis Hl : loc_in l (zlen s0).
  Hypothesis Hs : lstrand l = 1.
  Hypothesis Hlen : loc_len l = 3 * zlen tr.
  Hypothesis Hne : 1 <= zlen tr.

  Let rs := restrict_nucleotides (STranslation T l tr StartKeep) false s0.
  Let space := from_constraints s0 rs.
  Let n := zlen s0.
  Let k := zlen tr.

  Definition keep_first_choice : choice := std_choice (codon_loc l 0) [codon_of l s0 0].

  Lemma krs_perm : Permutation rs
    (keep_first_choice :: map (codon_choice T l) (tl (combine (zrange 0 k) tr))).
  Proof. exact (sort_choice_perm _). Qed.

  Lemma keep_first_choice_eq :
    keep_first_choice = mkChoice (lstart l + 3 * 0) (lstart l + 3 * (0 + 1)) [codon_of l s0 0] false.
  Proof.
    unfold keep_first_choice, std_choice, rchoice, codon_loc. rewrite Hs. reflexivity.
  Qed.

  Lemma tl_combine_In : forall i aa, In (i, aa) (tl (combine (zrange 0 k) tr)) ->
    1 <= i < k /\ nth_error tr (Z.to_nat i) = Some aa.
  Proof.
    intros i aa H. unfold k in *.
    destruct tr as [|aa0 tr']; [change (zlen (@nil ascii)) with 0 in Hne; lia|].
    rewrite (zrange_cons' 0 (zlen (aa0 :: tr'))) in H by lia. cbn [combine tl] in H.
    rewrite zlen_cons' in *. replace (0 + 1) with 1 in H by lia.
    pose proof (proj1 (Forall_combine_zrange (fun j x => (j, x) = (i, aa) -> 1 <= j < 1 + zlen tr' /\
                  nth_error tr' (Z.to_nat (j - 1)) = Some x) tr' 1)) as HF.
    cbv beta in HF.
    assert (Hall : forall j, 1 <= j < 1 + zlen tr' -> exists y, nth_error tr' (Z.to_nat (j - 1)) = Some y /\
              ((j, y) = (i, aa) -> 1 <= j < 1 + zlen tr' /\ nth_error tr' (Z.to_nat (j - 1)) = Some y)).
    { intros j Hj. destruct (nth_error tr' (Z.to_nat (j - 1))) as [y|] eqn:Ey.
      - exists y. split; [reflexivity|]. intros _. split; [exact Hj | reflexivity].
      - exfalso. apply nth_error_None in Ey. unfold zlen in Hj. lia. }
    clear HF.
    pose proof (proj2 (Forall_combine_zrange (fun j x => (j, x) = (i, aa) -> 1 <= j < 1 + zlen tr' /\
                  nth_error tr' (Z.to_nat (j - 1)) = Some x) tr' 1) Hall) as HF.
    rewrite Forall_forall in HF. specialize (HF (i, aa) H). cbn [fst snd] in HF.
    destruct (HF eq_refl) as [Hi Hn']. split; [exact Hi|].
    replace (Z.to_nat i) with (S (Z.to_nat (i - 1))) by lia. exact Hn'.
  Qed.

  (* the restrictions, one per codon: the first one has the single variant found in s0 *)
  Lemma krs_elem : forall r, In r rs -> exists i, 0 <= i < k /\
    cstart r = lstart l + 3 * i /\ cend r = lstart l + 3 * (i + 1) /\ cany r = false /\
    ((i = 0 /\ cvariants r = [codon_of l s0 0]) \/
     (1 <= i /\ exists aa, cvariants r = nodup_dna (back_codons T aa))).
  Proof.
    intros r Hr. apply (Permutation_in _ krs_perm) in Hr. destruct Hr as [E|Hr].
    - subst r. rewrite keep_first_choice_eq. exists 0. cbn [cstart cend cvariants cany].
      split; [unfold k; lia|]. split; [reflexivity|]. split; [reflexivity|]. split; [reflexivity|].
      left. split; reflexivity.
    - apply in_map_iff in Hr. destruct Hr as [[i aa] [E Hin]]. apply tl_combine_In in Hin.
      destruct Hin as [Hi _]. rewrite (codon_choice_fwd T l Hs) in E. subst r.
      exists i. cbn [cstart cend cvariants cany].
      split; [lia|]. split; [reflexivity|]. split; [reflexivity|]. split; [reflexivity|].
      right. split; [lia|]. exists aa. reflexivity.
  Qed.

  Lemma first_codon_three : exists x y z, codon_of l s0 0 = [x; y; z].
  Proof. apply (codon_three l s0 k 0 Hl Hlen Hs). unfold k. lia. Qed.

  Lemma krs_wf : Forall (wf_restriction n) rs.
  Proof.
    apply Forall_forall. intros r Hr. destruct (krs_elem r Hr) as (i & Hi & E1 & E2 & E3 & Hv).
    destruct Hl as (H0 & H1 & H2 & _). unfold loc_len in Hlen. fold k in Hlen.
    unfold wf_restriction. rewrite E1, E2, E3.
    split; [lia|]. split; [lia|]. split; [unfold n; lia|].
    destruct Hv as [[_ Ev]|[_ [aa Ev]]]; rewrite Ev.
    - destruct first_codon_three as (x & y & z & E). rewrite E.
      split; [constructor; [intros []|constructor]|]. split; [|reflexivity].
      constructor; [|constructor]. unfold zlen. cbn [List.length]. lia.
    - split; [apply nodup_dna_NoDup|]. split; [|reflexivity].
      apply Forall_forall. intros v Hv. apply (proj1 (nodup_dna_In _ _)) in Hv.
      destruct (back_codons_ok T aa v (table_ok_of name T HT Hnd) Hv) as [H3 _]. unfold zlen. lia.
  Qed.

  Lemma krs_starts_nodup : NoDup (map cstart rs).
  Proof.
    eapply Permutation_NoDup; [apply Permutation_sym, Permutation_map, krs_perm|].
    assert (E : map cstart (keep_first_choice :: map (codon_choice T l) (tl (combine (zrange 0 k) tr))) =
                map (fun i => lstart l + 3 * i) (map fst (combine (zrange 0 k) tr))).
    { unfold k in *. destruct tr as [|aa0 tr']; [change (zlen (@nil ascii)) with 0 in Hne; lia|].
      rewrite (zrange_cons' 0 (zlen (aa0 :: tr'))) by lia. cbn [combine tl map fst].
      rewrite keep_first_choice_eq. cbn [cstart]. f_equal.
      rewrite !map_map. apply map_ext. intros [i aa]. rewrite (codon_choice_fwd T l Hs). reflexivity. }
    rewrite E.
    apply FinFun.Injective_map_NoDup; [intros x y H; lia|].
    apply NoDup_map_fst_combine. apply zrange_NoDup.
  Qed.

  Lemma krs_disj : pairwise_disj rs.
  Proof.
    split; [apply (NoDup_map_inv cstart), krs_starts_nodup|].
    intros x y Hx Hy.
    destruct (krs_elem x Hx) as (i & Hi & X1 & X2 & _). destruct (krs_elem y Hy) as (j & Hj & Y1 & Y2 & _).
    destruct (Z.eq_dec i j) as [E|E].
    - left. apply (NoDup_map_eq cstart rs krs_starts_nodup x y Hx Hy). lia.
    - right. unfold rdisj. lia.
  Qed.

  Lemma kspace_wf : wf_space space /\ (forall c, In c (choices_list space) -> cend c <= n).
  Proof. apply from_constraints_wf. exact krs_wf. Qed.

  (* membership: the first codon is the one of s0, every other codon encodes its residue *)
  Lemma kspace_member : forall t, zlen t = n ->
    (member space t <->
     codon_of l t 0 = codon_of l s0 0 /\
     (forall i, 1 <= i < k ->
        exists aa, nth_error tr (Z.to_nat i) = Some aa /\ codon_aa T (codon_of l t i) = Some aa)).
  Proof.
    intros t Ht. unfold space. rewrite (from_constraints_exact s0 rs t krs_wf Ht).
    unfold rs.
    rewrite (translation_restrictions_with_start_policy name T l tr StartKeep s0 t HT Hnd Hl Hlen Hne Ht)
      by discriminate.
    fold k. split.
    - intros [[E|[]] H2]. split; [symmetry; exact E | exact H2].
    - intros [E H2]. split; [left; symmetry; exact E | exact H2].
  Qed.

  Lemma kspace_closed : forall i, 0 <= i < k ->
    forall c, In c (choices_list space) ->
      Z.max (lstart l + 3 * i) (cstart c) < Z.min (lstart l + 3 * i + 3) (cend c) ->
      lstart l + 3 * i <= cstart c /\ cend c <= lstart l + 3 * i + 3.
  Proof.
    intros i Hi c Hc Hov.
    destruct (disjoint_restrictions_space s0 rs krs_wf krs_disj) as [H1 _].
    destruct (H1 c Hc) as [E|(r & Hr & A & B)]; [lia|].
    destruct (krs_elem r Hr) as (j & Hj & E1 & E2 & _).
    assert (j = i) by lia. subst j. lia.
  Qed.

  Lemma kspace_covered : forall i, 0 <= i < k ->
    forall p, lstart l + 3 * i <= p < lstart l + 3 * i + 3 ->
      exists c, In c (choices_list space) /\ cstart c <= p < cend c.
  Proof.
    intros i Hi p Hp.
    destruct (disjoint_restrictions_space s0 rs krs_wf krs_disj) as [_ H2].
    apply H2. destruct Hl as (H0 & H1 & H3 & _). unfold loc_len in Hlen. fold k in Hlen. lia.
  Qed.

  Lemma kcodon_of_fwd : forall t j, zlen t = n -> 0 <= j < k ->
    codon_of l t j = slice t (lstart l + 3 * j) (lstart l + 3 * j + 3).
  Proof. intros t j Ht Hj. exact (codon_of_fwd T l tr s0 Hl Hs Hlen t j Ht Hj). Qed.

  (* the first codon of a usable sequence is the one of s0 *)
  Lemma good_first_codon : forall s, good space n s ->
    slice s (lstart l) (lstart l + 3) = slice s0 (lstart l) (lstart l + 3).
  Proof.
    intros s [Hn Hm]. apply (kspace_member s Hn) in Hm. destruct Hm as [E _].
    rewrite (kcodon_of_fwd s 0 Hn), (kcodon_of_fwd s0 0 eq_refl) in E by (unfold k; lia).
    replace (lstart l + 3 * 0) with (lstart l) in E by lia. exact E.
  Qed.

  Lemma kgood_codon_aa : forall s i, good space n s -> 1 <= i < k ->
    exists aa, nth_error tr (Z.to_nat i) = Some aa /\ codon_aa T (codon_of l s i) = Some aa.
  Proof. intros s i [Hn Hm] Hi. apply (kspace_member s Hn) in Hm. exact (proj2 Hm i Hi). Qed.

  (* the window of the first codon is frozen *)
  Lemma first_codon_frozen : forall s, good space n s ->
    space_size_exact (ms_localized space (lstart l) (lstart l + 3)) = 0.
  Proof.
    intros s Hg. destruct kspace_wf as [Hwf Hfit].
    pose proof Hl as (H0 & H1 & H2 & _). unfold loc_len in Hlen. fold k in Hlen. fold n in H2.
    assert (Hk0 : 0 <= 0 < k) by (unfold k; lia).
    apply (window_frozen space n Hwf Hfit (lstart l) (lstart l + 3) ltac:(lia) ltac:(lia) ltac:(lia)) with (s := s).
    - intros c Hc Hov. pose proof (kspace_closed 0 Hk0 c Hc) as H.
      replace (lstart l + 3 * 0) with (lstart l) in H by lia. apply H. exact Hov.
    - intros p Hp. apply (kspace_covered 0 Hk0). lia.
    - exact Hg.
    - intros t Ht Hout. pose proof (good_first_codon s Hg) as E1. pose proof (good_first_codon t Ht) as E2.
      apply nth_error_ext. intro j. rewrite <- (Nat2Z.id j).
      destruct (Z_lt_ge_dec (Z.of_nat j) (lstart l)) as [A|A]; [apply Hout; lia|].
      destruct (Z_lt_ge_dec (Z.of_nat j) (lstart l + 3)) as [B|B]; [|apply Hout; lia].
      assert (E : nth_error (slice t (lstart l) (lstart l + 3)) (Z.to_nat (Z.of_nat j - lstart l)) =
                  nth_error (slice s (lstart l) (lstart l + 3)) (Z.to_nat (Z.of_nat j - lstart l)))
        by (rewrite E1, E2; reflexivity).
      rewrite !nth_error_slice in E.
      destruct (Nat.ltb_spec (Z.to_nat (Z.of_nat j - lstart l)) (Z.to_nat (lstart l + 3 - lstart l))) as [_|H]; [|lia].
      replace (Z.to_nat (lstart l) + Z.to_nat (Z.of_nat j - lstart l))%nat with (Z.to_nat (Z.of_nat j)) in E by lia.
      exact E.
  Qed.

  (* replacing a codon AFTER the first of a usable sequence by a synonym gives a usable sequence *)
  Lemma kcodon_swap : forall s i c', good space n s -> 1 <= i < k -> List.length c' = 3%nat ->
    codon_aa T c' = codon_aa T (codon_of l s i) ->
    let t := splice s (lstart l + 3 * i) (lstart l + 3 * i + 3) c' in
    good space n t /\ codon_of l t i = c' /\
    (forall p, 0 <= p -> ~ (lstart l + 3 * i <= p < lstart l + 3 * i + 3) ->
       nth_error t (Z.to_nat p) = nth_error s (Z.to_nat p)).
  Proof.
    intros s i c' Hg Hi Hc3 Haa t. pose proof Hg as [Hn Hm].
    destruct Hl as (H0 & H1 & H2 & H3). unfold loc_len in Hlen. fold k in Hlen. fold n in H2.
    assert (Hzc : zlen c' = lstart l + 3 * i + 3 - (lstart l + 3 * i)) by (unfold zlen; lia).
    assert (Ht : zlen t = n).
    { unfold t. rewrite zlen_splice; [exact Hn | lia | lia | lia | exact Hzc]. }
    assert (Hout : forall p, 0 <= p -> ~ (lstart l + 3 * i <= p < lstart l + 3 * i + 3) ->
              nth_error t (Z.to_nat p) = nth_error s (Z.to_nat p)).
    { intros p Hp Hnp. unfold t. apply nth_error_splice_out; [lia | lia | lia | exact Hzc | exact Hp | lia]. }
    assert (Hci : codon_of l t i = c').
    { rewrite (kcodon_of_fwd t i Ht) by lia. unfold t. apply slice_splice_same; [lia | lia | lia | exact Hzc]. }
    assert (Hsame : forall j, 0 <= j < k -> j <> i -> codon_of l t j = codon_of l s j).
    { intros j Hj Hji. rewrite (kcodon_of_fwd t j Ht Hj), (kcodon_of_fwd s j Hn Hj).
      apply MSpaceA.slice_ext; [lia|]. intros p Hp. apply Hout; lia. }
    split; [|split; [exact Hci | exact Hout]].
    split; [exact Ht|].
    apply (kspace_member t Ht). apply (kspace_member s Hn) in Hm. destruct Hm as [M1 M2]. split.
    - rewrite Hsame by lia. exact M1.
    - intros j Hj. destruct (M2 j Hj) as (aa & Hnth & Hcaa). exists aa. split; [exact Hnth|].
      destruct (Z.eq_dec j i) as [E|E].
      + subst j. rewrite Hci, Haa. exact Hcaa.
      + rewrite Hsame by lia. exact Hcaa.
  Qed.
End TranslationKeep.
