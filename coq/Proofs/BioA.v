(* C19 lemmas, part A: complement / reverse_complement / translate (table-driven).
   The tables come from Generated/GenTables.v: finite facts about them are established by
   vm_compute over the generated lists and lifted by induction. *)
From Coq Require Import ZArith Bool List Ascii String Lia.
From DC Require Import Model.Base Model.Bio Generated.GenTables.
Import ListNotations.
Open Scope Z_scope.

Definition csv_alphabet : list ascii := map fst csv_complements.
Definition comp_total (c : ascii) : ascii := match comp_csv c with Some d => d | None => c end.

(* ---------- helpers: generic ---------- *)

Lemma existsb_eqb_In : forall (c : ascii) l, existsb (Ascii.eqb c) l = true -> In c l.
Proof.
  intros c l H. apply existsb_exists in H. destruct H as [x [Hx He]].
  apply Ascii.eqb_eq in He. subst. exact Hx.
Qed.

Lemma opt_eqb_ascii_eq : forall a b, opt_eqb Ascii.eqb a b = true -> a = b.
Proof.
  intros [x|] [y|]; simpl; intro H; try discriminate; try reflexivity.
  apply Ascii.eqb_eq in H. subst. reflexivity.
Qed.

Lemma mapM_total : forall {X Y} (f : X -> option Y) (g : X -> Y) l,
  Forall (fun x => f x = Some (g x)) l -> mapM f l = Some (map g l).
Proof.
  intros X Y f g l H. induction H as [|x l Hx Hl IH]; simpl.
  - reflexivity.
  - rewrite Hx, IH. reflexivity.
Qed.

(* ---------- finite facts about the complement tables ---------- *)

Definition alpha_ok (c : ascii) : bool :=
  opt_eqb Ascii.eqb (comp_csv c) (Some (comp_total c)) && Ascii.eqb (comp_bio c) (comp_total c).

Lemma alpha_ok_all : forallb alpha_ok csv_alphabet = true.
Proof. vm_compute. reflexivity. Qed.

Lemma alpha_csv : forall c, In c csv_alphabet -> comp_csv c = Some (comp_total c).
Proof.
  intros c H. pose proof (proj1 (forallb_forall _ _) alpha_ok_all c H) as K.
  unfold alpha_ok in K. apply andb_true_iff in K. destruct K as [K _].
  apply opt_eqb_ascii_eq. exact K.
Qed.

Lemma alpha_bio : forall c, In c csv_alphabet -> comp_bio c = comp_total c.
Proof.
  intros c H. pose proof (proj1 (forallb_forall _ _) alpha_ok_all c H) as K.
  unfold alpha_ok in K. apply andb_true_iff in K. destruct K as [_ K].
  apply Ascii.eqb_eq. exact K.
Qed.

Definition alpha_invol_ok (c : ascii) : bool :=
  Ascii.eqb c "U" ||
  (existsb (Ascii.eqb (comp_total c)) csv_alphabet && Ascii.eqb (comp_total (comp_total c)) c).

Lemma alpha_invol_all : forallb alpha_invol_ok csv_alphabet = true.
Proof. vm_compute. reflexivity. Qed.

Lemma alpha_invol : forall c, In c csv_alphabet -> c <> "U"%char ->
  In (comp_total c) csv_alphabet /\ comp_total (comp_total c) = c.
Proof.
  intros c H HU. pose proof (proj1 (forallb_forall _ _) alpha_invol_all c H) as K.
  unfold alpha_invol_ok in K. apply orb_true_iff in K. destruct K as [K|K].
  - apply Ascii.eqb_eq in K. contradiction.
  - apply andb_true_iff in K. destruct K as [K1 K2]. split.
    + apply existsb_eqb_In. exact K1.
    + apply Ascii.eqb_eq. exact K2.
Qed.

Theorem complement_basewise : forall s,
  Forall (fun c => In c csv_alphabet) s -> complement s = Some (map comp_total s).
Proof.
  intros s H. unfold complement. destruct (zlen s <=? complement_switch).
  - apply mapM_total. eapply Forall_impl; [|exact H]. intros c Hc. apply alpha_csv. exact Hc.
  - f_equal. apply map_ext_in. intros c Hc. apply alpha_bio.
    rewrite Forall_forall in H. apply H. exact Hc.
Qed.

Theorem reverse_complement_involutive : forall s,
  Forall (fun c => In c csv_alphabet /\ c <> "U"%char) s ->
  exists r, reverse_complement s = Some r /\ reverse_complement r = Some s.
Proof.
  intros s H. exists (rev (map comp_total s)).
  assert (H1 : Forall (fun c => In c csv_alphabet) s).
  { eapply Forall_impl; [|exact H]. intros c [Hc _]. exact Hc. }
  split.
  - unfold reverse_complement. rewrite (complement_basewise s H1). reflexivity.
  - unfold reverse_complement. rewrite complement_basewise.
    + simpl. f_equal. rewrite map_rev, rev_involutive, map_map.
      rewrite <- (map_id s) at 2. apply map_ext_in. intros c Hc.
      rewrite Forall_forall in H. destruct (H c Hc) as [Ha Hu].
      apply (alpha_invol c Ha Hu).
    + apply Forall_forall. intros x Hx. apply in_rev in Hx.
      apply in_map_iff in Hx. destruct Hx as [c [Hc Hin]]. subst x.
      rewrite Forall_forall in H. destruct (H c Hin) as [Ha Hu].
      apply (alpha_invol c Ha Hu).
Qed.

Lemma nuc_in_alphabet : forall x, In (nuc_ascii x) csv_alphabet.
Proof. intro x. apply existsb_eqb_In. destruct x; vm_compute; reflexivity. Qed.

Lemma nuc_comp_total : forall x, comp_total (nuc_ascii x) = nuc_ascii (ncomp x).
Proof. intro x. destruct x; vm_compute; reflexivity. Qed.

Theorem complement_dna : forall s : dna, complement (to_astr s) = Some (to_astr (map ncomp s)).
Proof.
  intro s. rewrite complement_basewise.
  - f_equal. unfold to_astr. rewrite !map_map. apply map_ext. intro x. apply nuc_comp_total.
  - unfold to_astr. apply Forall_forall. intros c Hc. apply in_map_iff in Hc.
    destruct Hc as [x [Hx _]]. subst c. apply nuc_in_alphabet.
Qed.

Theorem reverse_complement_dna : forall s : dna, reverse_complement (to_astr s) = Some (to_astr (rc s)).
Proof.
  intro s. unfold reverse_complement. rewrite complement_dna. simpl.
  f_equal. unfold rc, to_astr. rewrite map_rev. reflexivity.
Qed.

Theorem rc_involutive : forall s, rc (rc s) = s.
Proof.
  intro s. unfold rc. rewrite map_rev, rev_involutive, map_map.
  rewrite <- (map_id s) at 2. apply map_ext. intro x. destruct x; reflexivity.
Qed.

Theorem rc_length : forall s, List.length (rc s) = List.length s.
Proof. intro s. unfold rc. rewrite rev_length, map_length. reflexivity. Qed.

Definition aa_known (T : gtable) (aa : ascii) : Prop := back_codons T aa <> [].

(* ---------- codons: fuel independence ---------- *)

Lemma codons_fuel_indep : forall f1 f2 (s : dna),
  (List.length s <= f1)%nat -> (List.length s <= f2)%nat -> codons_fuel f1 s = codons_fuel f2 s.
Proof.
  induction f1 as [|f1 IH]; intros f2 s H1 H2.
  - destruct s; [|simpl in H1; lia]. destruct f2; reflexivity.
  - destruct s as [|a [|b [|c s]]]; destruct f2 as [|f2]; simpl; try reflexivity.
    + simpl in H2. lia.
    + f_equal. apply IH; simpl in *; lia.
Qed.

Lemma codons_cons3 : forall a b c (s : dna), codons (a :: b :: c :: s) = [a; b; c] :: codons s.
Proof.
  intros a b c s. unfold codons.
  change (codons_fuel (List.length (a :: b :: c :: s)) (a :: b :: c :: s))
    with ([a; b; c] :: codons_fuel (S (S (List.length s))) s).
  f_equal. apply codons_fuel_indep; lia.
Qed.

Lemma translate_app3 : forall T (c r : dna) aa p,
  List.length c = 3%nat -> codon_aa T c = Some aa -> translate T r = Some p ->
  translate T (c ++ r) = Some (aa :: p).
Proof.
  intros T c r aa p Hl Hc Hr.
  destruct c as [|x [|y [|z [|w c]]]]; simpl in Hl; try discriminate.
  unfold translate in *. simpl app. rewrite codons_cons3. simpl mapM.
  rewrite Hc, Hr. reflexivity.
Qed.

(* ---------- finite facts about the genetic tables ---------- *)

Definition table_ok (T : gtable) : bool :=
  forallb (fun p => Nat.eqb (List.length (fst p)) 3
                    && opt_eqb Ascii.eqb (codon_aa T (fst p)) (Some (snd p))) (gt_forward T)
  && forallb (fun c => Nat.eqb (List.length c) 3
                       && opt_eqb Ascii.eqb (codon_aa T c) (Some "*"%char)) (gt_stops T).

Lemma tables_ok_all :
  forallb (fun nt => implb (no_dual_stop (snd nt)) (table_ok (snd nt))) genetic_tables = true.
Proof. vm_compute. reflexivity. Qed.

Lemma table_ok_of : forall name T,
  In (name, T) genetic_tables -> no_dual_stop T = true -> table_ok T = true.
Proof.
  intros name T Hin Hnd.
  pose proof (proj1 (forallb_forall _ _) tables_ok_all (name, T) Hin) as K.
  simpl in K. rewrite Hnd in K. exact K.
Qed.

Lemma back_codons_ok : forall T aa c,
  table_ok T = true -> In c (back_codons T aa) ->
  List.length c = 3%nat /\ codon_aa T c = Some aa.
Proof.
  intros T aa c Hok Hin. unfold table_ok in Hok. apply andb_true_iff in Hok.
  destruct Hok as [Hf Hs]. unfold back_codons in Hin.
  destruct (Ascii.eqb aa "*") eqn:E.
  - apply Ascii.eqb_eq in E. subst aa.
    pose proof (proj1 (forallb_forall _ _) Hs c Hin) as K. simpl in K.
    apply andb_true_iff in K. destruct K as [K1 K2]. split.
    + apply Nat.eqb_eq. exact K1.
    + apply opt_eqb_ascii_eq. exact K2.
  - apply in_map_iff in Hin. destruct Hin as [[c' a'] [Hc Hin]]. simpl in Hc. subst c'.
    apply filter_In in Hin. destruct Hin as [Hin Ha]. simpl in Ha.
    apply Ascii.eqb_eq in Ha. subst a'.
    pose proof (proj1 (forallb_forall _ _) Hf (c, aa) Hin) as K. simpl in K.
    apply andb_true_iff in K. destruct K as [K1 K2]. split.
    + apply Nat.eqb_eq. exact K1.
    + apply opt_eqb_ascii_eq. exact K2.
Qed.

Lemma nth_mod_some : forall {X} (cs : list X) k, cs <> [] ->
  exists c, nth_error cs (Z.to_nat (k mod zlen cs)) = Some c.
Proof.
  intros X cs k Hne.
  destruct (nth_error cs (Z.to_nat (k mod zlen cs))) as [c|] eqn:E.
  - exists c. reflexivity.
  - exfalso. apply nth_error_None in E.
    assert (Hpos : 0 < zlen cs).
    { unfold zlen. destruct cs; [contradiction|]. simpl List.length. lia. }
    pose proof (Z.mod_pos_bound k (zlen cs) Hpos) as B. unfold zlen in *. lia.
Qed.

Theorem translate_reverse_translate : forall name T p ks,
  In (name, T) genetic_tables -> no_dual_stop T = true ->
  Forall (aa_known T) p ->
  exists d, reverse_translate T p ks = Some d /\ translate T d = Some p.
Proof.
  intros name T p ks Hin Hnd Hp.
  pose proof (table_ok_of name T Hin Hnd) as Hok. clear Hin Hnd.
  revert ks. induction Hp as [|aa p Ha Hp IH]; intro ks.
  - exists []. split; reflexivity.
  - destruct (IH (tl ks)) as [r [Hr Ht]].
    destruct (nth_mod_some (back_codons T aa) (match ks with k :: _ => k | [] => 0 end) Ha)
      as [c Hc].
    exists (c ++ r). split.
    + simpl. rewrite Hc, Hr. reflexivity.
    + apply nth_error_In in Hc. destruct (back_codons_ok T aa c Hok Hc) as [Hl Hcd].
      apply translate_app3; assumption.
Qed.

(* the hypothesis no_dual_stop is needed: witness from a dual-use table *)
Definition dual_nt : string * gtable :=
  match find (fun nt => negb (no_dual_stop (snd nt))) genetic_tables with
  | Some x => x
  | None => (""%string, mkGT [] [] [])
  end.

Lemma dual_nt_find : find (fun nt => negb (no_dual_stop (snd nt))) genetic_tables = Some dual_nt.
Proof. vm_compute. reflexivity. Qed.

Theorem translate_reverse_translate_dual_refuted :
  exists name T p, In (name, T) genetic_tables /\ no_dual_stop T = false /\ Forall (aa_known T) p /\
    exists d, reverse_translate T p [] = Some d /\ translate T d <> Some p.
Proof.
  exists (fst dual_nt), (snd dual_nt), ["*"%char].
  rewrite <- surjective_pairing.
  split; [|split; [|split]].
  - apply (find_some _ _ dual_nt_find).
  - vm_compute. reflexivity.
  - constructor; [|constructor]. unfold aa_known. vm_compute. discriminate.
  - eexists. split.
    + vm_compute. reflexivity.
    + vm_compute. discriminate.
Qed.

