(* C19 lemmas, part B: windowed GC content (cumulative-sum algorithm) and sequence differences. *)
From Coq Require Import ZArith Bool List Lia Sorting.Sorted.
From DC Require Import Model.Base Model.Bio.
Import ListNotations.
Open Scope Z_scope.

(* ------------------------------------------------------------------ *)
(* helpers: sums, cumulative sums, nth / firstn / skipn                *)
(* ------------------------------------------------------------------ *)

Definition zsum (l : list Z) : Z := fold_right Z.add 0 l.

Lemma zsum_nil : zsum [] = 0.
Proof. reflexivity. Qed.

Lemma zsum_cons : forall a l, zsum (a :: l) = a + zsum l.
Proof. reflexivity. Qed.

Lemma zsum_app : forall l1 l2, zsum (l1 ++ l2) = zsum l1 + zsum l2.
Proof.
  induction l1 as [|a l1 IH]; intros l2.
  - rewrite zsum_nil. reflexivity.
  - rewrite <- app_comm_cons, !zsum_cons, IH. lia.
Qed.

Lemma count_gc_zsum : forall s, count_gc s = zsum (map is_gc s).
Proof. reflexivity. Qed.

Lemma cumsum_length : forall l acc, length (cumsum_from acc l) = length l.
Proof.
  induction l as [|x l IH]; intros acc; cbn [cumsum_from length].
  - reflexivity.
  - rewrite IH. reflexivity.
Qed.

Lemma nth_cumsum : forall l acc k, (k < length l)%nat ->
  nth k (cumsum_from acc l) 0 = acc + zsum (firstn (S k) l).
Proof.
  induction l as [|x l IH]; intros acc k Hk; cbn [length] in Hk.
  - lia.
  - cbn [cumsum_from]. rewrite firstn_cons, zsum_cons. destruct k as [|k].
    + cbn [nth firstn]. rewrite zsum_nil. lia.
    + cbn [nth]. rewrite IH by lia. lia.
Qed.

Lemma nth_skipn_add : forall (k : nat) (l : list Z) i d, nth i (skipn k l) d = nth (k + i) l d.
Proof.
  induction k as [|k IH]; intros l i d.
  - reflexivity.
  - destruct l as [|a l].
    + cbn [skipn]. destruct i; reflexivity.
    + rewrite skipn_cons. cbn [Nat.add nth]. apply IH.
Qed.

Lemma nth_firstn_lt : forall (m : nat) (l : list Z) j d, (j < m)%nat -> nth j (firstn m l) d = nth j l d.
Proof.
  induction m as [|m IH]; intros l j d Hj.
  - lia.
  - destruct l as [|a l].
    + reflexivity.
    + rewrite firstn_cons. destruct j as [|j]; cbn [nth].
      * reflexivity.
      * apply IH. lia.
Qed.

Lemma firstn_add_split : forall (k w : nat) (l : list Z),
  firstn (k + w) l = firstn k l ++ firstn w (skipn k l).
Proof.
  induction k as [|k IH]; intros w l.
  - reflexivity.
  - destruct l as [|a l].
    + cbn [Nat.add firstn skipn app]. rewrite firstn_nil. reflexivity.
    + cbn [Nat.add]. rewrite !firstn_cons, skipn_cons, IH. reflexivity.
Qed.

Lemma list_as_map_nth : forall (l : list Z) d, l = map (fun i => nth i l d) (seq 0 (length l)).
Proof.
  induction l as [|a l IH]; intros d.
  - reflexivity.
  - cbn [length seq map nth]. f_equal.
    rewrite <- seq_shift, map_map. cbn [nth]. apply IH.
Qed.

Lemma nth_map_default : forall {A B} (f : A -> B) l k d d', f d' = d -> nth k (map f l) d = f (nth k l d').
Proof. intros A B f l k d d' H. rewrite <- H. apply map_nth. Qed.

Lemma nth_shifted_prefix : forall (l : list Z) acc (m k : nat), (k <= m)%nat -> (m <= length l)%nat ->
  nth k (acc :: firstn m (cumsum_from acc l)) 0 = acc + zsum (firstn k l).
Proof.
  intros l acc m k Hk Hm. destruct k as [|k].
  - cbn [nth firstn]. rewrite zsum_nil. lia.
  - cbn [nth]. rewrite nth_firstn_lt by lia. apply nth_cumsum. lia.
Qed.

(* ------------------------------------------------------------------ *)
(* GC windows                                                          *)
(* ------------------------------------------------------------------ *)

Theorem gc_window_counts_spec : forall (s : dna) w, 1 <= w <= zlen s ->
  gc_window_counts s w = map (fun i => count_gc (slice s i (i + w))) (zrange 0 (zlen s - w + 1)).
Proof.
  intros s w Hw.
  unfold gc_window_counts.
  set (l := map is_gc s).
  set (cs := cumsum_from 0 l).
  assert (Hll : length l = length s) by (unfold l; apply map_length).
  assert (Hlen : length cs = length s) by (unfold cs; rewrite cumsum_length; exact Hll).
  assert (Hzl : zlen cs = zlen s) by (unfold zlen; rewrite Hlen; reflexivity).
  unfold zlen in Hw.
  set (n := length s) in *.
  set (W := Z.to_nat w).
  assert (HW : (1 <= W <= n)%nat) by (unfold W; lia).
  assert (Ha : pyslice cs (w - 1) (zlen cs) = skipn (W - 1) cs).
  { unfold pyslice, slice, norm_idx. rewrite Hzl. unfold zlen. fold n.
    destruct (Z.ltb_spec (w - 1) 0) as [H1|H1]; [lia|].
    destruct (Z.ltb_spec (Z.of_nat n) 0) as [H2|H2]; [lia|].
    replace (Z.min (Z.of_nat n) (w - 1)) with (w - 1) by lia.
    replace (Z.to_nat (w - 1)) with (W - 1)%nat by (unfold W; lia).
    apply firstn_all2. rewrite skipn_length, Hlen. lia. }
  assert (Hb : pyslice cs 0 (- w) = firstn (n - W) cs).
  { unfold pyslice, slice, norm_idx. rewrite Hzl. unfold zlen. fold n.
    destruct (Z.ltb_spec 0 0) as [H1|H1]; [lia|].
    destruct (Z.ltb_spec (- w) 0) as [H2|H2]; [|lia].
    replace (Z.min (Z.of_nat n) 0) with 0 by lia.
    replace (Z.to_nat (Z.max 0 (Z.of_nat n + - w) - 0)) with (n - W)%nat by (unfold W; lia).
    reflexivity. }
  rewrite Ha, Hb.
  unfold zrange. rewrite map_map.
  replace (Z.to_nat (zlen s - w + 1 - 0)) with (n - W + 1)%nat by (unfold zlen, W; fold n; lia).
  assert (Hla : length (skipn (W - 1) cs) = (n - W + 1)%nat) by (rewrite skipn_length, Hlen; lia).
  assert (Hlb : length (0 :: firstn (n - W) cs) = (n - W + 1)%nat)
    by (cbn [length]; rewrite firstn_length, Hlen; lia).
  match goal with |- ?L = _ => rewrite (list_as_map_nth L 0) end.
  rewrite map_length, combine_length, Hla, Hlb, Nat.min_id.
  apply map_ext_in. intros k Hk. apply in_seq in Hk.
  rewrite (nth_map_default (fun p : Z * Z => fst p - snd p) _ k 0 (0, 0)) by reflexivity.
  rewrite combine_nth by (rewrite Hla, Hlb; reflexivity).
  cbn [fst snd].
  rewrite nth_skipn_add.
  unfold cs at 1. rewrite nth_cumsum by lia.
  unfold cs. rewrite nth_shifted_prefix by lia.
  replace (S (W - 1 + k)) with (k + W)%nat by lia.
  rewrite firstn_add_split, zsum_app.
  unfold slice.
  replace (Z.to_nat (0 + Z.of_nat k + w - (0 + Z.of_nat k))) with W by (unfold W; lia).
  replace (Z.to_nat (0 + Z.of_nat k)) with k by lia.
  rewrite count_gc_zsum, <- firstn_map, <- skipn_map. fold l. lia.
Qed.

Theorem gc_window_counts_short : forall (s : dna) w, zlen s < w -> gc_window_counts s w = [].
Proof.
  intros s w Hw.
  unfold gc_window_counts.
  set (cs := cumsum_from 0 (map is_gc s)).
  assert (Hzl : zlen cs = zlen s)
    by (unfold zlen, cs; rewrite cumsum_length, map_length; reflexivity).
  assert (Ha : pyslice cs (w - 1) (zlen cs) = []).
  { unfold pyslice, slice, norm_idx. rewrite Hzl. unfold zlen in *.
    destruct (Z.ltb_spec (w - 1) 0) as [H1|H1]; [lia|].
    destruct (Z.ltb_spec (Z.of_nat (length s)) 0) as [H2|H2]; [lia|].
    replace (Z.min (Z.of_nat (length s)) (Z.of_nat (length s)) - Z.min (Z.of_nat (length s)) (w - 1))
      with 0 by lia.
    reflexivity. }
  rewrite Ha. reflexivity.
Qed.

Theorem gc_window_counts_length : forall (s : dna) w, 1 <= w <= zlen s ->
  zlen (gc_window_counts s w) = zlen s - w + 1.
Proof.
  intros s w Hw. rewrite gc_window_counts_spec by exact Hw.
  unfold zlen in *. unfold zrange. rewrite !map_length, seq_length. lia.
Qed.

Theorem count_gc_bounds : forall s : dna, 0 <= count_gc s <= zlen s.
Proof.
  induction s as [|a s IH].
  - unfold count_gc, zlen. cbn. lia.
  - rewrite count_gc_zsum in *. unfold zlen in *. cbn [map length].
    rewrite zsum_cons, Nat2Z.inj_succ. destruct a; cbn [is_gc]; lia.
Qed.

(* ------------------------------------------------------------------ *)
(* differences                                                         *)
(* ------------------------------------------------------------------ *)

(* position i (0-based) is a mismatch between s and t *)
Definition mismatch (s t : dna) (i : Z) : Prop :=
  0 <= i /\ exists x y, nth_error s (Z.to_nat i) = Some x /\ nth_error t (Z.to_nat i) = Some y /\ x <> y.

Lemma nuc_eqb_true_iff : forall x y, nuc_eqb x y = true <-> x = y.
Proof. intros x y; destruct x, y; cbn; split; intros H; congruence. Qed.

Lemma nth_error_nil_some : forall {A} k (x : A), nth_error (@nil A) k = Some x -> False.
Proof. intros A k x H. destruct k; discriminate H. Qed.

Lemma diff_array_nth : forall s t k,
  nth_error (diff_array s t) k = Some true <->
  exists x y, nth_error s k = Some x /\ nth_error t k = Some y /\ x <> y.
Proof.
  induction s as [|a s IH]; intros t k.
  - cbn [diff_array]. split.
    + intros H. exfalso. exact (nth_error_nil_some _ _ H).
    + intros (x & y & H & _). exfalso. exact (nth_error_nil_some _ _ H).
  - destruct t as [|b t].
    + cbn [diff_array]. split.
      * intros H. exfalso. exact (nth_error_nil_some _ _ H).
      * intros (x & y & _ & H & _). exfalso. exact (nth_error_nil_some _ _ H).
    + cbn [diff_array]. destruct k as [|k]; cbn [nth_error].
      * split.
        -- intros H. exists a, b. split; [reflexivity|]. split; [reflexivity|].
           intros Heq. apply nuc_eqb_true_iff in Heq. rewrite Heq in H. discriminate H.
        -- intros (x & y & Hx & Hy & Hne). inversion Hx; inversion Hy; subst.
           destruct (nuc_eqb x y) eqn:E.
           ++ apply nuc_eqb_true_iff in E. contradiction.
           ++ reflexivity.
      * apply IH.
Qed.

Theorem diff_array_spec : forall s t i, List.length s = List.length t ->
  (0 <= i /\ nth_error (diff_array s t) (Z.to_nat i) = Some true) <-> mismatch s t i.
Proof.
  intros s t i _. unfold mismatch. rewrite diff_array_nth. tauto.
Qed.

Theorem diff_array_length : forall s t, List.length s = List.length t ->
  List.length (diff_array s t) = List.length s.
Proof.
  induction s as [|a s IH]; intros t H.
  - reflexivity.
  - destruct t as [|b t]; cbn [length] in H; [discriminate H|].
    cbn [diff_array length]. rewrite IH by lia. reflexivity.
Qed.

Theorem diff_count_spec : forall s t, diff_count s t = zlen (filter (fun b : bool => b) (diff_array s t)).
Proof.
  intros s t. unfold diff_count. generalize (diff_array s t) as l.
  induction l as [|b l IH].
  - reflexivity.
  - unfold count_true in *. cbn [map fold_right filter]. rewrite IH.
    destruct b; unfold zlen; cbn [length]; [rewrite Nat2Z.inj_succ|]; lia.
Qed.

(* ---- segments: an explicit run scanner ---- *)

Definition b2z (b : bool) : Z := if b then 1 else 0.

Fixpoint runs (i : Z) (open : option Z) (l : list bool) : list (Z * Z) :=
  match l with
  | [] => match open with Some st => [(st, i)] | None => [] end
  | true :: l' => runs (i + 1) (match open with Some st => Some st | None => Some i end) l'
  | false :: l' =>
      match open with
      | Some st => (st, i) :: runs (i + 1) None l'
      | None => runs (i + 1) None l'
      end
  end.

Definition trans (prev i : Z) (d : list bool) : list Z :=
  nonzero_from i (np_diff (prev :: map b2z d ++ [0])).

Lemma np_diff_cons2 : forall x y l, np_diff (x :: y :: l) = (y - x) :: np_diff (y :: l).
Proof. reflexivity. Qed.

Lemma trans_runs : forall d i,
  pair_up (trans 0 i d) = runs i None d /\
  (forall st, pair_up (st :: trans 1 i d) = runs i (Some st) d).
Proof.
  induction d as [|b d IH]; intros i.
  - split; [reflexivity|]. intros st. reflexivity.
  - destruct (IH (i + 1)) as [IH0 IH1]. unfold trans in *.
    destruct b; cbn [map b2z app runs]; (split; [|intros st]); rewrite np_diff_cons2; cbn [nonzero_from].
    + change (1 - 0 =? 0) with false. cbv iota. apply IH1.
    + change (1 - 1 =? 0) with true. cbv iota. apply IH1.
    + change (0 - 0 =? 0) with true. cbv iota. apply IH0.
    + change (0 - 1 =? 0) with false. cbv iota.
      cbn [pair_up]. rewrite IH0. reflexivity.
Qed.

Lemma diff_segments_runs : forall s t, diff_segments s t = runs 0 None (diff_array s t).
Proof.
  intros s t. unfold diff_segments. apply (proj1 (trans_runs (diff_array s t) 0)).
Qed.

Definition covered (segs : list (Z * Z)) (j : Z) : Prop :=
  exists p, In p segs /\ fst p <= j < snd p.

Definition opn (open : option Z) (i j : Z) : Prop :=
  match open with Some st => st <= j < i | None => False end.

Definition wf (open : option Z) (i : Z) : Prop :=
  match open with Some st => st < i | None => True end.

Definition lo (open : option Z) (i : Z) : Z :=
  match open with Some st => st | None => i end.

Lemma covered_nil : forall j, covered [] j <-> False.
Proof. intros j. unfold covered. split; [intros (p & [] & _)|intros []]. Qed.

Lemma covered_cons : forall a b l j, covered ((a, b) :: l) j <-> (a <= j < b \/ covered l j).
Proof.
  intros a b l j. unfold covered. split.
  - intros (p & [Hp|Hp] & Hj).
    + subst p. left. exact Hj.
    + right. exists p. split; assumption.
  - intros [Hj|(p & Hp & Hj)].
    + exists (a, b). split; [left; reflexivity|exact Hj].
    + exists p. split; [right; exact Hp|exact Hj].
Qed.

Lemma nth_error_shift : forall (b : bool) d i j, i < j ->
  nth_error (b :: d) (Z.to_nat (j - i)) = nth_error d (Z.to_nat (j - (i + 1))).
Proof.
  intros b d i j H. replace (Z.to_nat (j - i)) with (S (Z.to_nat (j - (i + 1)))) by lia. reflexivity.
Qed.

Lemma runs_cover : forall d i open j, wf open i ->
  covered (runs i open d) j <->
  (opn open i j \/ (i <= j /\ nth_error d (Z.to_nat (j - i)) = Some true)).
Proof.
  induction d as [|b d IH]; intros i open j Hwf.
  - cbn [runs]. destruct open as [st|]; cbn [opn].
    + rewrite covered_cons, covered_nil. split.
      * intros [H|[]]. left. exact H.
      * intros [H|[_ H]]; [left; exact H|]. exfalso. exact (nth_error_nil_some _ _ H).
    + rewrite covered_nil. split; [intros []|].
      intros [[]|[_ H]]. exfalso. exact (nth_error_nil_some _ _ H).
  - destruct b; cbn [runs].
    + (* true *)
      rewrite IH.
      2:{ destruct open as [st|]; cbn [wf] in *; lia. }
      destruct (Z.lt_trichotomy j i) as [Hlt|[Heq|Hgt]].
      * destruct open as [st|]; cbn [opn]; lia.
      * subst j. replace (i - i) with 0 by lia. cbn [Z.to_nat nth_error].
        destruct open as [st|]; cbn [opn wf] in *; split; intros _.
        -- right. split; [lia|reflexivity].
        -- left. lia.
        -- right. split; [lia|reflexivity].
        -- left. lia.
      * rewrite (nth_error_shift true d i j Hgt).
        destruct open as [st|]; cbn [opn wf] in *; split; intros [H|H]; try lia.
        -- right. split; [lia|tauto].
        -- right. split; [lia|tauto].
        -- right. split; [lia|tauto].
        -- right. split; [lia|tauto].
    + (* false *)
      assert (Hnone : covered (runs (i + 1) None d) j <->
                      (i + 1 <= j /\ nth_error d (Z.to_nat (j - (i + 1))) = Some true)).
      { rewrite IH by exact I. cbn [opn]. tauto. }
      assert (Hfalse : (i <= j /\ nth_error (false :: d) (Z.to_nat (j - i)) = Some true) <->
                       (i + 1 <= j /\ nth_error d (Z.to_nat (j - (i + 1))) = Some true)).
      { destruct (Z.lt_trichotomy j i) as [Hlt|[Heq|Hgt]].
        - split; intros [H _]; lia.
        - subst j. replace (i - i) with 0 by lia. cbn [Z.to_nat nth_error].
          split; [intros [_ H]; discriminate H|intros [H _]; lia].
        - rewrite (nth_error_shift false d i j Hgt). split; intros [_ H]; (split; [lia|exact H]). }
      destruct open as [st|]; cbn [opn].
      * rewrite covered_cons, Hnone, Hfalse. tauto.
      * rewrite Hnone, Hfalse. tauto.
Qed.

Lemma runs_bounds : forall d i open, wf open i ->
  Forall (fun p => lo open i <= fst p /\ fst p < snd p /\ snd p <= i + zlen d) (runs i open d).
Proof.
  induction d as [|b d IH]; intros i open Hwf.
  - cbn [runs]. destruct open as [st|]; cbn [lo wf] in *.
    + constructor; [|constructor]. cbn [fst snd]. unfold zlen. cbn [length]. lia.
    + constructor.
  - assert (Hz : zlen (b :: d) = zlen d + 1) by (unfold zlen; cbn [length]; lia).
    rewrite Hz. destruct b; cbn [runs].
    + destruct open as [st|]; cbn [lo wf] in *.
      * specialize (IH (i + 1) (Some st)). cbn [lo wf] in IH.
        eapply Forall_impl; [|apply IH; lia]. cbv beta. intros p Hp. lia.
      * specialize (IH (i + 1) (Some i)). cbn [lo wf] in IH.
        eapply Forall_impl; [|apply IH; lia]. cbv beta. intros p Hp. lia.
    + specialize (IH (i + 1) None I). cbn [lo] in IH.
      destruct open as [st|]; cbn [lo wf] in *.
      * constructor.
        -- cbn [fst snd]. pose proof (Zle_0_nat (length d)). unfold zlen. lia.
        -- eapply Forall_impl; [|exact IH]. cbv beta. intros p Hp. lia.
      * eapply Forall_impl; [|exact IH]. cbv beta. intros p Hp. lia.
Qed.

Lemma runs_sorted : forall d i open, wf open i ->
  StronglySorted (fun p q : Z * Z => snd p < fst q) (runs i open d).
Proof.
  induction d as [|b d IH]; intros i open Hwf.
  - cbn [runs]. destruct open as [st|].
    + constructor; constructor.
    + constructor.
  - destruct b; cbn [runs].
    + apply IH. destruct open as [st|]; cbn [wf] in *; lia.
    + destruct open as [st|].
      * constructor.
        -- apply IH. exact I.
        -- pose proof (runs_bounds d (i + 1) None I) as Hb. cbn [lo] in Hb.
           eapply Forall_impl; [|exact Hb]. cbv beta. intros p Hp. cbn [snd]. lia.
      * apply IH. exact I.
Qed.

(* the segments are exactly the maximal runs of mismatching positions *)
Theorem diff_segments_spec : forall s t, List.length s = List.length t ->
  let segs := diff_segments s t in
  (forall i, (exists p, In p segs /\ fst p <= i < snd p) <-> mismatch s t i) /\
  Forall (fun p => 0 <= fst p < snd p /\ snd p <= zlen s) segs /\
  StronglySorted (fun p q => snd p < fst q) segs.
Proof.
  intros s t Hlen. cbv zeta. rewrite diff_segments_runs.
  split; [|split].
  - intros i. rewrite <- (diff_array_spec s t i Hlen).
    pose proof (runs_cover (diff_array s t) 0 None i I) as H. unfold covered in H.
    rewrite H. cbn [opn]. replace (i - 0) with i by lia. tauto.
  - pose proof (runs_bounds (diff_array s t) 0 None I) as H. cbn [lo] in H.
    eapply Forall_impl; [|exact H]. cbv beta. intros p Hp.
    unfold zlen in *. rewrite (diff_array_length s t Hlen) in Hp. lia.
  - apply runs_sorted. exact I.
Qed.

