(* C15 lemmas, part B: all_variants enumerates the product of the multi-variant choices exactly
   once, starting with the current sequence, and only changes the multi-variant span. *)
From Coq Require Import ZArith Bool List Lia Sorting.Sorted Sorting.Permutation.
From DC Require Import Model.Base Model.Loc Model.MSpace Proofs.MSpaceDefs.
Import ListNotations.
Open Scope Z_scope.

(* t is obtained from s by choosing, for every multi-variant choice, one of its variants, and
   is equal to s at every position outside the multi-variant segments *)
Definition is_variant_of (ms : mspace) (s t : dna) : Prop :=
  zlen t = zlen s /\
  (forall c, In c (multichoices ms) -> holds c t) /\
  (forall i, 0 <= i -> (forall c, In c (multichoices ms) -> ~ (cstart c <= i < cend c)) ->
             nth_error t (Z.to_nat i) = nth_error s (Z.to_nat i)).

(* ---------- generic list facts ---------- *)
Lemma b_nuc_eqb_eq x y : nuc_eqb x y = true <-> x = y.
Proof. destruct x, y; simpl; split; intro H; try reflexivity; discriminate. Qed.

Lemma b_seq_eqb_eq : forall s t, seq_eqb s t = true <-> s = t.
Proof.
  induction s as [|x s IH]; intros [|y t]; simpl; split; intro H; try reflexivity; try discriminate.
  - apply andb_true_iff in H. destruct H as [H1 H2]. apply b_nuc_eqb_eq in H1. apply IH in H2. congruence.
  - inversion H; subst. apply andb_true_iff. split. apply b_nuc_eqb_eq; reflexivity. apply IH; reflexivity.
Qed.

Lemma b_zlen_app {X} (l1 l2 : list X) : zlen (l1 ++ l2) = zlen l1 + zlen l2.
Proof. unfold zlen. rewrite app_length. lia. Qed.

Lemma b_zlen_nonneg {X} (l : list X) : 0 <= zlen l.
Proof. unfold zlen. lia. Qed.

Lemma b_nth_ext {X} : forall l l' : list X,
  (forall n, nth_error l n = nth_error l' n) -> l = l'.
Proof.
  induction l as [|x l IH]; intros [|y l'] H.
  - reflexivity.
  - specialize (H 0%nat). discriminate.
  - specialize (H 0%nat). discriminate.
  - f_equal.
    + specialize (H 0%nat). simpl in H. congruence.
    + apply IH. intro n. apply (H (S n)).
Qed.

Lemma b_nth_firstn {X} : forall (n k : nat) (l : list X),
  nth_error (firstn n l) k = if (k <? n)%nat then nth_error l k else None.
Proof.
  induction n as [|n IH]; intros k l.
  - simpl. destruct k; reflexivity.
  - destruct l as [|x l].
    + assert (Hn : forall j, nth_error (@nil X) j = None) by (intros [|?]; reflexivity).
      simpl firstn. rewrite Hn. destruct (k <? S n)%nat; reflexivity.
    + destruct k as [|k]; simpl. reflexivity. rewrite IH.
      change (S k <? S n)%nat with (k <? n)%nat. reflexivity.
Qed.

Lemma b_nth_skipn {X} : forall (n k : nat) (l : list X),
  nth_error (skipn n l) k = nth_error l (n + k).
Proof.
  induction n as [|n IH]; intros k l.
  - reflexivity.
  - destruct l as [|x l]; simpl. destruct k; reflexivity. apply IH.
Qed.

Lemma b_nth_slice {X} (l : list X) a b k : 0 <= a -> 0 <= k ->
  nth_error (slice l a b) (Z.to_nat k) =
  if k <? b - a then nth_error l (Z.to_nat (a + k)) else None.
Proof.
  intros Ha Hk. unfold slice. rewrite b_nth_firstn, b_nth_skipn.
  destruct (k <? b - a) eqn:E.
  - apply Z.ltb_lt in E.
    assert (E2 : (Z.to_nat k <? Z.to_nat (b - a))%nat = true) by (apply Nat.ltb_lt; lia).
    rewrite E2. f_equal. lia.
  - apply Z.ltb_ge in E.
    assert (E2 : (Z.to_nat k <? Z.to_nat (b - a))%nat = false) by (apply Nat.ltb_ge; lia).
    rewrite E2. reflexivity.
Qed.

Lemma b_nth_splice {X} (l v : list X) a b i :
  0 <= a <= b -> b <= zlen l -> zlen v = b - a -> 0 <= i ->
  nth_error (splice l a b v) (Z.to_nat i) =
  if (a <=? i) && (i <? b) then nth_error v (Z.to_nat (i - a)) else nth_error l (Z.to_nat i).
Proof.
  intros Hab Hb Hv Hi. unfold splice. unfold zlen in *.
  rewrite Z.max_r by lia.
  assert (Hf : List.length (firstn (Z.to_nat a) l) = Z.to_nat a).
  { apply firstn_length_le. lia. }
  destruct (a <=? i) eqn:E1; simpl.
  - apply Z.leb_le in E1. rewrite nth_error_app2 by lia. rewrite Hf.
    destruct (i <? b) eqn:E2.
    + apply Z.ltb_lt in E2. rewrite nth_error_app1 by lia. f_equal. lia.
    + apply Z.ltb_ge in E2. rewrite nth_error_app2 by lia. rewrite b_nth_skipn. f_equal. lia.
  - apply Z.leb_gt in E1. rewrite nth_error_app1 by lia. rewrite b_nth_firstn.
    assert (E2 : (Z.to_nat i <? Z.to_nat a)%nat = true) by (apply Nat.ltb_lt; lia).
    rewrite E2. reflexivity.
Qed.

Lemma b_zlen_splice {X} (l v : list X) a b :
  0 <= a <= b -> b <= zlen l -> zlen v = b - a -> zlen (splice l a b v) = zlen l.
Proof.
  intros Hab Hb Hv. unfold splice. rewrite Z.max_r by lia. rewrite !b_zlen_app, Hv.
  unfold zlen in *. rewrite firstn_length_le by lia. rewrite skipn_length. lia.
Qed.

Lemma b_zlen_slice {X} (l : list X) a b : 0 <= a <= b -> b <= zlen l -> zlen (slice l a b) = b - a.
Proof.
  intros Hab Hb. unfold slice, zlen in *. rewrite firstn_length_le. lia.
  rewrite skipn_length. lia.
Qed.

Lemma b_slice_ext {X} (t s : list X) a b : 0 <= a ->
  (forall i, a <= i < b -> nth_error t (Z.to_nat i) = nth_error s (Z.to_nat i)) ->
  slice t a b = slice s a b.
Proof.
  intros Ha H. apply b_nth_ext. intro n.
  rewrite <- (Nat2Z.id n). rewrite !b_nth_slice by lia.
  destruct (Z.of_nat n <? b - a) eqn:E; [|reflexivity].
  apply Z.ltb_lt in E. apply H. lia.
Qed.

Lemma b_slice_splice {X} (l v : list X) a b :
  0 <= a <= b -> b <= zlen l -> zlen v = b - a -> slice (splice l a b v) a b = v.
Proof.
  intros Hab Hb Hv. apply b_nth_ext. intro n. rewrite <- (Nat2Z.id n).
  rewrite b_nth_slice by lia.
  destruct (Z.of_nat n <? b - a) eqn:E.
  - apply Z.ltb_lt in E. rewrite b_nth_splice by lia.
    assert (E1 : (a <=? a + Z.of_nat n) = true) by (apply Z.leb_le; lia).
    assert (E2 : (a + Z.of_nat n <? b) = true) by (apply Z.ltb_lt; lia).
    rewrite E1, E2. simpl. f_equal. lia.
  - apply Z.ltb_ge in E. symmetry. apply nth_error_None. unfold zlen in Hv. lia.
Qed.

Lemma b_splice_self {X} (l : list X) a b :
  0 <= a <= b -> b <= zlen l -> splice l a b (slice l a b) = l.
Proof.
  intros Hab Hb. apply b_nth_ext. intro n. rewrite <- (Nat2Z.id n).
  rewrite b_nth_splice; try lia.
  - destruct ((a <=? Z.of_nat n) && (Z.of_nat n <? b)) eqn:E; [|reflexivity].
    apply andb_true_iff in E. destruct E as [E1 E2]. apply Z.leb_le in E1. apply Z.ltb_lt in E2.
    rewrite b_nth_slice by lia.
    assert (E3 : (Z.of_nat n - a <? b - a) = true) by (apply Z.ltb_lt; lia).
    rewrite E3. f_equal. lia.
  - apply b_zlen_slice; lia.
Qed.

(* ---------- sorting facts ---------- *)
Lemma b_insert_dna_perm x : forall l, Permutation (insert_dna x l) (x :: l).
Proof.
  induction l as [|y l IH]; simpl.
  - apply Permutation_refl.
  - destruct (seq_ltb y x).
    + eapply Permutation_trans. apply perm_skip. apply IH. apply perm_swap.
    + apply Permutation_refl.
Qed.

Lemma b_sort_dna_perm : forall l, Permutation (sort_dna l) l.
Proof.
  induction l as [|x l IH]; simpl.
  - apply Permutation_refl.
  - eapply Permutation_trans. apply b_insert_dna_perm. apply perm_skip. apply IH.
Qed.

Lemma b_insert_key_perm x : forall l, Permutation (insert_key x l) (x :: l).
Proof.
  induction l as [|y l IH]; simpl.
  - apply Permutation_refl.
  - destruct (key_ltb y x).
    + eapply Permutation_trans. apply perm_skip. apply IH. apply perm_swap.
    + apply Permutation_refl.
Qed.

Lemma b_sort_key_perm : forall l, Permutation (fold_right insert_key [] l) l.
Proof.
  induction l as [|x l IH]; simpl.
  - apply Permutation_refl.
  - eapply Permutation_trans. apply b_insert_key_perm. apply perm_skip. apply IH.
Qed.

Lemma b_key_eq_dec : forall x y : Z * dna, {x = y} + {x <> y}.
Proof.
  intros x y. decide equality.
  - apply list_eq_dec. decide equality.
  - apply Z.eq_dec.
Qed.

(* the unique strict minimum comes first *)
Lemma b_sort_key_hd m : forall l,
  In m l ->
  (forall x, In x l -> x <> m -> key_ltb m x = true /\ key_ltb x m = false) ->
  hd_error (fold_right insert_key [] l) = Some m.
Proof.
  induction l as [|x l IH]; intros Hin Hmin.
  - destruct Hin.
  - simpl fold_right.
    destruct (in_dec b_key_eq_dec m l) as [Hml | Hml].
    + assert (IH' : hd_error (fold_right insert_key [] l) = Some m).
      { apply IH. exact Hml. intros y Hy Hne. apply Hmin. right; exact Hy. exact Hne. }
      destruct (fold_right insert_key [] l) as [|y r] eqn:E; [discriminate|].
      simpl in IH'. inversion IH'; subst y. simpl.
      destruct (b_key_eq_dec x m) as [Hxm | Hxm].
      * subst x. destruct (key_ltb m m); reflexivity.
      * destruct (Hmin x (or_introl eq_refl) Hxm) as [H1 _]. rewrite H1. reflexivity.
    + destruct Hin as [Hxm | Hin]; [|contradiction]. subst x.
      destruct (fold_right insert_key [] l) as [|y r] eqn:E; [reflexivity|].
      simpl.
      assert (Hy : In y l).
      { eapply Permutation_in. apply b_sort_key_perm. rewrite E. left; reflexivity. }
      assert (Hne : y <> m) by (intro Heq; subst y; contradiction).
      destruct (Hmin y (or_intror Hy) Hne) as [_ H2]. rewrite H2. reflexivity.
Qed.

Lemma b_index_of_nth v : forall l i r, index_of v l i = Some r ->
  i <= r /\ nth_error l (Z.to_nat (r - i)) = Some v.
Proof.
  induction l as [|w l IH]; intros i r H; simpl in H.
  - discriminate.
  - destruct (seq_eqb v w) eqn:E.
    + inversion H; subst r. apply b_seq_eqb_eq in E. subst w.
      split. lia. rewrite Z.sub_diag. reflexivity.
    + apply IH in H. destruct H as [H1 H2]. split. lia.
      replace (Z.to_nat (r - i)) with (S (Z.to_nat (r - (i + 1)))) by lia. exact H2.
Qed.

Lemma b_index_of_in v : forall l i, In v l -> exists r, index_of v l i = Some r.
Proof.
  induction l as [|w l IH]; intros i Hin.
  - destruct Hin.
  - simpl. destruct (seq_eqb v w) eqn:E.
    + eexists; reflexivity.
    + destruct Hin as [Hw | Hin].
      * subst w. assert (E2 : seq_eqb v v = true) by (apply b_seq_eqb_eq; reflexivity). congruence.
      * apply IH. exact Hin.
Qed.

Lemma b_index_of_inj v w l r : index_of v l 0 = Some r -> index_of w l 0 = Some r -> v = w.
Proof.
  intros H1 H2. apply b_index_of_nth in H1. apply b_index_of_nth in H2.
  destruct H1 as [_ H1]. destruct H2 as [_ H2]. congruence.
Qed.

Lemma b_sbd_spec c s : holds c s ->
  exists vs, sorted_by_distance c s = Some vs /\
             Permutation vs (cvariants c) /\
             hd_error vs = Some (slice s (cstart c) (cend c)).
Proof.
  intro Hh. unfold holds in Hh. unfold sorted_by_distance.
  set (cur := slice s (cstart c) (cend c)) in *.
  set (alpha := sort_dna (cvariants c)).
  assert (Halpha : forall v, In v (cvariants c) -> In v alpha).
  { intros v Hv. eapply Permutation_in. apply Permutation_sym. apply b_sort_dna_perm. exact Hv. }
  destruct (b_index_of_in cur alpha 0 (Halpha _ Hh)) as [rc Hrc]. rewrite Hrc.
  set (kf := fun v : dna => (match index_of v alpha 0 with Some rv => Z.abs (rv - rc) | None => 0 end, v)).
  eexists. split. reflexivity. split.
  - eapply Permutation_trans. apply Permutation_map. apply b_sort_key_perm.
    rewrite map_map. simpl. rewrite map_id. apply Permutation_refl.
  - assert (Hhd : hd_error (fold_right insert_key [] (map kf (cvariants c))) = Some (0, cur)).
    { apply b_sort_key_hd.
      - apply in_map_iff. exists cur. split; [|exact Hh]. unfold kf. rewrite Hrc. f_equal. lia.
      - intros x Hx Hne. apply in_map_iff in Hx. destruct Hx as [v [Hv Hvin]]. subst x.
        assert (Hvc : v <> cur).
        { intro Heq. subst v. apply Hne. unfold kf. rewrite Hrc. f_equal. lia. }
        unfold kf. destruct (b_index_of_in v alpha 0 (Halpha _ Hvin)) as [rv Hrv]. rewrite Hrv.
        assert (Hrr : rv <> rc).
        { intro Heq. subst rv. apply Hvc. eapply b_index_of_inj; eassumption. }
        unfold key_ltb. simpl.
        assert (E1 : (0 <? Z.abs (rv - rc)) = true) by (apply Z.ltb_lt; lia).
        assert (E2 : (Z.abs (rv - rc) <? 0) = false) by (apply Z.ltb_ge; lia).
        rewrite E1, E2. split; reflexivity. }
    fold kf. destruct (fold_right insert_key [] (map kf (cvariants c))) as [|y r]; [discriminate|].
    simpl in Hhd. inversion Hhd; subst y. reflexivity.
Qed.

Lemma b_slots_spec s : forall mc, Forall (fun c => holds c s) mc ->
  exists slots, slots_of mc s = Some slots /\ map fst slots = mc /\
    Forall (fun cv => Permutation (snd cv) (cvariants (fst cv)) /\
                      hd_error (snd cv) = Some (slice s (cstart (fst cv)) (cend (fst cv)))) slots.
Proof.
  induction mc as [|c mc IH]; intro HF.
  - exists []. simpl. repeat split. constructor.
  - inversion HF as [|c' mc' Hc Hmc]; subst.
    destruct (IH Hmc) as [slots [H1 [H2 H3]]].
    destruct (b_sbd_spec c s Hc) as [vs [Hv1 [Hv2 Hv3]]].
    exists ((c, vs) :: slots). simpl. rewrite Hv1, H1. split. reflexivity. split.
    + rewrite H2. reflexivity.
    + constructor. simpl. split; assumption. exact H3.
Qed.

(* ---------- the product over disjoint slots ---------- *)
Definition slot_ok (n : Z) (cv : choice * list dna) : Prop :=
  0 <= cstart (fst cv) <= cend (fst cv) /\ cend (fst cv) <= n /\
  Forall (fun v => zlen v = cend (fst cv) - cstart (fst cv)) (snd cv).
Definition slot_lt (a b : choice * list dna) : Prop := cend (fst a) <= cstart (fst b).
Definition in_slots (t : dna) (slots : list (choice * list dna)) : Prop :=
  forall cv, In cv slots -> In (slice t (cstart (fst cv)) (cend (fst cv))) (snd cv).
Definition out_slots (i : Z) (slots : list (choice * list dna)) : Prop :=
  forall cv, In cv slots -> ~ (cstart (fst cv) <= i < cend (fst cv)).

Lemma b_product_char : forall slots s,
  Forall (slot_ok (zlen s)) slots -> StronglySorted slot_lt slots ->
  forall t, In t (product_apply slots s) <->
    (zlen t = zlen s /\ in_slots t slots /\
     (forall i, 0 <= i -> out_slots i slots -> nth_error t (Z.to_nat i) = nth_error s (Z.to_nat i))).
Proof.
  induction slots as [|[c vs] slots IH]; intros s Hok Hss t.
  - simpl. split.
    + intros [H | []]. subst t. split. reflexivity. split. intros cv []. intros; reflexivity.
    + intros (H1 & _ & H3). left. apply b_nth_ext. intro n. symmetry.
      rewrite <- (Nat2Z.id n). apply H3. lia. intros cv [].
  - inversion Hok as [|x l Hc Hrest]; subst x l.
    apply StronglySorted_inv in Hss. destruct Hss as [Hss Hlt].
    destruct Hc as (Hab & Hbn & Hvs). simpl in Hab, Hbn, Hvs.
    rewrite Forall_forall in Hvs, Hlt.
    simpl product_apply. rewrite in_flat_map. split.
    + intros (v & Hv & Ht).
      assert (Hzv : zlen v = cend c - cstart c) by (apply Hvs; exact Hv).
      assert (Hz : zlen (splice s (cstart c) (cend c) v) = zlen s) by (apply b_zlen_splice; lia).
      apply IH in Ht; [| rewrite Hz; exact Hrest | exact Hss].
      destruct Ht as (T1 & T2 & T3).
      split. congruence. split.
      * intros cv [Hcv | Hcv].
        -- subst cv. simpl.
           assert (Hsl : slice t (cstart c) (cend c) = v).
           { rewrite (b_slice_ext t (splice s (cstart c) (cend c) v)).
             - apply b_slice_splice; lia.
             - lia.
             - intros i Hi. apply T3. lia. intros cv Hcv. specialize (Hlt cv Hcv).
               unfold slot_lt in Hlt. simpl in Hlt. lia. }
           rewrite Hsl. exact Hv.
        -- apply T2. exact Hcv.
      * intros i Hi Hout. rewrite T3; [| exact Hi | intros cv Hcv; apply Hout; right; exact Hcv].
        rewrite b_nth_splice by lia.
        destruct ((cstart c <=? i) && (i <? cend c)) eqn:E; [|reflexivity].
        apply andb_true_iff in E. destruct E as [E1 E2]. apply Z.leb_le in E1. apply Z.ltb_lt in E2.
        exfalso. apply (Hout (c, vs)). left; reflexivity. simpl. lia.
    + intros (T1 & T2 & T3).
      exists (slice t (cstart c) (cend c)). split. apply (T2 (c, vs)). left; reflexivity.
      assert (Hzv : zlen (slice t (cstart c) (cend c)) = cend c - cstart c).
      { apply b_zlen_slice; lia. }
      assert (Hz : zlen (splice s (cstart c) (cend c) (slice t (cstart c) (cend c))) = zlen s).
      { apply b_zlen_splice; lia. }
      apply IH; [rewrite Hz; exact Hrest | exact Hss |].
      split. congruence. split.
      * intros cv Hcv. apply T2. right; exact Hcv.
      * intros i Hi Hout. rewrite b_nth_splice by lia.
        destruct ((cstart c <=? i) && (i <? cend c)) eqn:E.
        -- apply andb_true_iff in E. destruct E as [E1 E2]. apply Z.leb_le in E1. apply Z.ltb_lt in E2.
           rewrite b_nth_slice by lia.
           assert (E3 : (i - cstart c <? cend c - cstart c) = true) by (apply Z.ltb_lt; lia).
           rewrite E3. f_equal. lia.
        -- apply T3. exact Hi. intros cv [Hcv | Hcv].
           ++ subst cv. simpl. intro Hin.
              assert (E' : (cstart c <=? i) && (i <? cend c) = true).
              { apply andb_true_iff. split. apply Z.leb_le; lia. apply Z.ltb_lt; lia. }
              congruence.
           ++ apply Hout. exact Hcv.
Qed.

Lemma b_NoDup_app {A} : forall l1 l2 : list A, NoDup l1 -> NoDup l2 ->
  (forall x, In x l1 -> In x l2 -> False) -> NoDup (l1 ++ l2).
Proof.
  induction l1 as [|x l1 IH]; intros l2 H1 H2 Hd; simpl.
  - exact H2.
  - inversion H1 as [|y l Hx Hl]; subst. constructor.
    + intro Hin. apply in_app_or in Hin. destruct Hin as [Hin | Hin].
      * contradiction.
      * apply (Hd x). left; reflexivity. exact Hin.
    + apply IH. exact Hl. exact H2. intros z Hz1 Hz2. apply (Hd z). right; exact Hz1. exact Hz2.
Qed.

Lemma b_NoDup_flat_map {A B} (f : A -> list B) (g : B -> A) : forall l,
  NoDup l -> (forall v, In v l -> NoDup (f v)) ->
  (forall v t, In v l -> In t (f v) -> g t = v) -> NoDup (flat_map f l).
Proof.
  induction l as [|v l IH]; intros Hnd Hf Hg; simpl.
  - constructor.
  - inversion Hnd as [|y l' Hv Hl]; subst. apply b_NoDup_app.
    + apply Hf. left; reflexivity.
    + apply IH. exact Hl. intros w Hw. apply Hf. right; exact Hw.
      intros w t Hw Ht. apply Hg. right; exact Hw. exact Ht.
    + intros t Ht1 Ht2. apply in_flat_map in Ht2. destruct Ht2 as (w & Hw & Ht2).
      assert (E1 : g t = v) by (apply Hg; [left; reflexivity | exact Ht1]).
      assert (E2 : g t = w) by (apply Hg; [right; exact Hw | exact Ht2]).
      apply Hv. congruence.
Qed.

Lemma b_product_NoDup : forall slots s,
  Forall (slot_ok (zlen s)) slots -> StronglySorted slot_lt slots ->
  Forall (fun cv => NoDup (snd cv)) slots -> NoDup (product_apply slots s).
Proof.
  induction slots as [|[c vs] slots IH]; intros s Hok Hss Hnd.
  - simpl. constructor. intros []. constructor.
  - inversion Hok as [|x l Hc Hrest]; subst x l.
    inversion Hnd as [|x l Hndc Hndrest]; subst x l. simpl in Hndc.
    pose proof Hss as Hss0.
    apply StronglySorted_inv in Hss. destruct Hss as [Hss Hlt].
    destruct Hc as (Hab & Hbn & Hvs). simpl in Hab, Hbn, Hvs.
    rewrite Forall_forall in Hvs.
    simpl product_apply.
    apply (b_NoDup_flat_map _ (fun t => slice t (cstart c) (cend c))).
    + exact Hndc.
    + intros v Hv. assert (Hzv : zlen v = cend c - cstart c) by (apply Hvs; exact Hv).
      apply IH. rewrite b_zlen_splice by lia. exact Hrest. exact Hss. exact Hndrest.
    + intros v t Hv Ht.
      assert (Hin : In t (product_apply ((c, vs) :: slots) s)).
      { simpl. apply in_flat_map. exists v. split; assumption. }
      assert (Hzv : zlen v = cend c - cstart c) by (apply Hvs; exact Hv).
      assert (Hz : zlen (splice s (cstart c) (cend c) v) = zlen s) by (apply b_zlen_splice; lia).
      apply b_product_char in Ht; [| rewrite Hz; exact Hrest | exact Hss].
      destruct Ht as (T1 & T2 & T3).
      rewrite (b_slice_ext t (splice s (cstart c) (cend c) v)).
      * apply b_slice_splice; lia.
      * lia.
      * intros i Hi. apply T3. lia. intros cv Hcv. rewrite Forall_forall in Hlt.
        specialize (Hlt cv Hcv). unfold slot_lt in Hlt. simpl in Hlt. lia.
Qed.

Lemma b_zlen_flat_map {A B} (f : A -> list B) K : forall l,
  (forall v, zlen (f v) = K) -> zlen (flat_map f l) = zlen l * K.
Proof.
  induction l as [|v l IH]; intro H.
  - reflexivity.
  - simpl flat_map. rewrite b_zlen_app, H, (IH H). unfold zlen. simpl List.length.
    rewrite Nat2Z.inj_succ. ring.
Qed.

Lemma b_product_len : forall slots s,
  zlen (product_apply slots s) = fold_right Z.mul 1 (map (fun cv => zlen (snd cv)) slots).
Proof.
  induction slots as [|[c vs] slots IH]; intro s.
  - reflexivity.
  - simpl. apply b_zlen_flat_map. intro v. apply IH.
Qed.

Lemma b_product_hd : forall slots s,
  Forall (slot_ok (zlen s)) slots ->
  Forall (fun cv => hd_error (snd cv) = Some (slice s (cstart (fst cv)) (cend (fst cv)))) slots ->
  hd_error (product_apply slots s) = Some s.
Proof.
  induction slots as [|[c vs] slots IH]; intros s Hok Hhd.
  - reflexivity.
  - inversion Hok as [|x l Hc Hrest]; subst x l.
    inversion Hhd as [|x l Hh Hhrest]; subst x l. simpl in Hh.
    destruct Hc as (Hab & Hbn & Hvs). simpl in Hab, Hbn, Hvs.
    destruct vs as [|v vs]; [discriminate|]. simpl in Hh. inversion Hh; subst v.
    simpl. rewrite b_splice_self by lia.
    specialize (IH s Hrest Hhrest).
    destruct (product_apply slots s) as [|y r]; [discriminate|]. exact IH.
Qed.

(* ---------- sortedness of the choices ---------- *)
Definition ch_lt (a b : choice) : Prop := cend a <= cstart b.

Lemma b_ss_filter {A} (R : A -> A -> Prop) (f : A -> bool) : forall l,
  StronglySorted R l -> StronglySorted R (filter f l).
Proof.
  induction l as [|x l IH]; intro H; simpl.
  - constructor.
  - apply StronglySorted_inv in H. destruct H as [H1 H2].
    destruct (f x).
    + constructor. apply IH; exact H1.
      rewrite Forall_forall in *. intros y Hy. apply H2. apply filter_In in Hy. tauto.
    + apply IH; exact H1.
Qed.

Lemma b_ss_map {A B} (R : B -> B -> Prop) (g : A -> B) : forall l,
  StronglySorted R (map g l) -> StronglySorted (fun a b => R (g a) (g b)) l.
Proof.
  induction l as [|x l IH]; intro H; simpl in H.
  - constructor.
  - apply StronglySorted_inv in H. destruct H as [H1 H2]. constructor.
    + apply IH; exact H1.
    + rewrite Forall_map in H2. exact H2.
Qed.

Lemma b_ss_pair {A} (R : A -> A -> Prop) : forall l x y,
  StronglySorted R l -> In x l -> In y l -> x = y \/ R x y \/ R y x.
Proof.
  induction l as [|z l IH]; intros x y H Hx Hy.
  - destruct Hx.
  - apply StronglySorted_inv in H. destruct H as [H1 H2]. rewrite Forall_forall in H2.
    destruct Hx as [Hx | Hx]; destruct Hy as [Hy | Hy].
    + left; congruence.
    + subst z. right; left. apply H2; exact Hy.
    + subst z. right; right. apply H2; exact Hx.
    + apply IH; assumption.
Qed.

Lemma b_ss_last : forall l d c,
  StronglySorted ch_lt l -> Forall (fun c => cstart c < cend c) l -> In c l ->
  cend c <= cend (last l d).
Proof.
  induction l as [|x l IH]; intros d c Hss Hwf Hin.
  - destruct Hin.
  - apply StronglySorted_inv in Hss. destruct Hss as [H1 H2].
    inversion Hwf as [|x' l' Hx Hl]; subst x' l'.
    destruct l as [|y l].
    + destruct Hin as [Hin | []]. subst c. simpl. lia.
    + change (last (x :: y :: l) d) with (last (y :: l) d).
      destruct Hin as [Hin | Hin].
      * subst c. inversion H2 as [|y' l' Hxy Hxl]; subst y' l'. unfold ch_lt in Hxy.
        inversion Hl as [|y' l' Hy Hl']; subst y' l'.
        assert (Hy2 : cend y <= cend (last (y :: l) d)).
        { apply IH. exact H1. exact Hl. left; reflexivity. }
        lia.
      * apply IH. exact H1. exact Hl. exact Hin.
Qed.

(* ---------- bridge between the slot view and is_variant_of ---------- *)
Definition slots_perm (slots : list (choice * list dna)) : Prop :=
  Forall (fun cv => Permutation (snd cv) (cvariants (fst cv))) slots.

Lemma b_bridge ms s slots t :
  map fst slots = multichoices ms -> slots_perm slots ->
  (is_variant_of ms s t <->
   (zlen t = zlen s /\ in_slots t slots /\
    (forall i, 0 <= i -> out_slots i slots -> nth_error t (Z.to_nat i) = nth_error s (Z.to_nat i)))).
Proof.
  intros Hmap Hperm. unfold slots_perm in Hperm. rewrite Forall_forall in Hperm.
  unfold is_variant_of, in_slots, out_slots, holds. rewrite <- Hmap.
  split.
  - intros (H1 & H2 & H3). split. exact H1. split.
    + intros cv Hcv. eapply Permutation_in. apply Permutation_sym. apply Hperm. exact Hcv.
      apply H2. apply in_map. exact Hcv.
    + intros i Hi Hout. apply H3. exact Hi. intros c Hc.
      apply in_map_iff in Hc. destruct Hc as (cv & Hcv1 & Hcv2). subst c. apply Hout. exact Hcv2.
  - intros (H1 & H2 & H3). split. exact H1. split.
    + intros c Hc. apply in_map_iff in Hc. destruct Hc as (cv & Hcv1 & Hcv2). subst c.
      eapply Permutation_in. apply Hperm. exact Hcv2. apply H2. exact Hcv2.
    + intros i Hi Hout. apply H3. exact Hi. intros cv Hcv. apply Hout. apply in_map. exact Hcv.
Qed.

Lemma b_sizes : forall slots, slots_perm slots ->
  map (fun cv => zlen (snd cv)) slots = map nvariants (map fst slots).
Proof.
  induction slots as [|cv slots IH]; intro H.
  - reflexivity.
  - inversion H as [|x l Hx Hl]; subst x l. simpl. f_equal.
    + unfold nvariants, zlen. f_equal. apply Permutation_length. exact Hx.
    + apply IH. exact Hl.
Qed.

(* everything about the enumeration, with the slots exposed *)
Lemma b_all_variants_main : forall ms s,
  wf_choices ms -> member ms s -> (forall c, In c (choices_list ms) -> cend c <= zlen s) ->
  multichoices ms <> [] ->
  exists vs, all_variants ms s = Some vs /\
    NoDup vs /\
    hd_error vs = Some s /\
    (forall t, In t vs <-> is_variant_of ms s t) /\
    zlen vs = space_size_exact ms.
Proof.
  intros ms s Hwf Hmem Hend Hne.
  destruct Hwf as (W1 & W2).
  unfold member in Hmem. rewrite Forall_forall in W1, Hmem.
  assert (Hsub : forall c, In c (multichoices ms) -> In c (choices_list ms)).
  { intros c Hc. unfold multichoices in Hc. apply filter_In in Hc. tauto. }
  assert (Hholds : Forall (fun c => holds c s) (multichoices ms)).
  { apply Forall_forall. intros c Hc. apply Hmem. apply Hsub. exact Hc. }
  destruct (b_slots_spec s _ Hholds) as (slots & S1 & S2 & S3).
  assert (Hperm : slots_perm slots).
  { unfold slots_perm. eapply Forall_impl; [| exact S3]. intros cv [Hp _]. exact Hp. }
  assert (Hhd : Forall (fun cv => hd_error (snd cv) = Some (slice s (cstart (fst cv)) (cend (fst cv)))) slots).
  { eapply Forall_impl; [| exact S3]. intros cv [_ Hp]. exact Hp. }
  assert (Hfst : forall cv, In cv slots -> In (fst cv) (choices_list ms)).
  { intros cv Hcv. apply Hsub. rewrite <- S2. apply in_map. exact Hcv. }
  unfold slots_perm in Hperm. pose proof Hperm as Hperm'. rewrite Forall_forall in Hperm'.
  assert (Hok : Forall (slot_ok (zlen s)) slots).
  { apply Forall_forall. intros cv Hcv. pose proof (Hfst cv Hcv) as Hin.
    destruct (W1 _ Hin) as (Hw1 & Hw2 & Hw3). rewrite Forall_forall in Hw3.
    unfold slot_ok. split. lia. split. apply Hend; exact Hin.
    apply Forall_forall. intros v Hv. apply Hw3. eapply Permutation_in. apply Hperm'. exact Hcv. exact Hv. }
  assert (Hss : StronglySorted slot_lt slots).
  { unfold slot_lt. apply (b_ss_map (fun a b => cend a <= cstart b) fst). rewrite S2.
    unfold multichoices. apply b_ss_filter. exact W2. }
  assert (Hnd : Forall (fun cv => NoDup (snd cv)) slots).
  { apply Forall_forall. intros cv Hcv. pose proof (Hfst cv Hcv) as Hin.
    destruct (W1 _ Hin) as (Hw1 & Hw2 & Hw3).
    eapply Permutation_NoDup. apply Permutation_sym. apply Hperm'. exact Hcv. exact Hw2. }
  exists (product_apply slots s). split.
  - unfold all_variants, choices_span. destruct (multichoices ms) as [|c0 mc] eqn:E.
    + contradiction.
    + rewrite S1. reflexivity.
  - split. apply b_product_NoDup; assumption.
    split. apply b_product_hd; assumption.
    split.
    + intro t. rewrite (b_bridge ms s slots t S2 Hperm). apply b_product_char; assumption.
    + rewrite b_product_len. rewrite (b_sizes slots Hperm). rewrite S2.
      unfold space_size_exact. destruct (multichoices ms) as [|c0 mc] eqn:E.
      * contradiction.
      * reflexivity.
Qed.

Lemma b_variant_member ms s t :
  wf_choices ms -> member ms s -> is_variant_of ms s t -> member ms t.
Proof.
  intros Hwf Hmem Hv. destruct Hwf as (W1 & W2).
  destruct Hv as (V1 & V2 & V3).
  unfold member in *. rewrite Forall_forall in *. intros c Hc.
  destruct (2 <=? nvariants c) eqn:E.
  - apply V2. unfold multichoices. apply filter_In. split; assumption.
  - unfold holds. destruct (W1 c Hc) as (Hw1 & _ & _).
    rewrite (b_slice_ext t s).
    + apply Hmem. exact Hc.
    + lia.
    + intros i Hi. apply V3. lia. intros c' Hc'.
      unfold multichoices in Hc'. apply filter_In in Hc'. destruct Hc' as [Hc'1 Hc'2].
      destruct (b_ss_pair _ _ c c' W2 Hc Hc'1) as [Heq | [Hlt | Hlt]].
      * subst c'. congruence.
      * lia.
      * lia.
Qed.

Theorem all_variants_spec : forall ms s,
  wf_choices ms -> member ms s -> (forall c, In c (choices_list ms) -> cend c <= zlen s) ->
  multichoices ms <> [] ->
  exists vs, all_variants ms s = Some vs /\
    NoDup vs /\
    hd_error vs = Some s /\
    (forall t, In t vs <-> is_variant_of ms s t) /\
    zlen vs = space_size_exact ms /\
    (forall t, In t vs -> member ms t).
Proof.
  intros ms s Hwf Hmem Hend Hne.
  destruct (b_all_variants_main ms s Hwf Hmem Hend Hne) as (vs & H1 & H2 & H3 & H4 & H5).
  exists vs. split. exact H1. split. exact H2. split. exact H3. split. exact H4. split. exact H5.
  intros t Ht. apply (b_variant_member ms s t Hwf Hmem). apply H4. exact Ht.
Qed.

(* outside the span (first multichoice start .. last multichoice end) nothing changes *)
Theorem all_variants_outside_span : forall ms s vs a b t i,
  wf_choices ms -> member ms s -> (forall c, In c (choices_list ms) -> cend c <= zlen s) ->
  all_variants ms s = Some vs -> choices_span ms = Some (a, b) -> In t vs ->
  0 <= i -> ~ (a <= i < b) -> nth_error t (Z.to_nat i) = nth_error s (Z.to_nat i).
Proof.
  intros ms s vs a b t i Hwf Hmem Hend Hall Hspan Hin Hi Hout.
  assert (Hne : multichoices ms <> []).
  { intro E. unfold choices_span in Hspan. rewrite E in Hspan. discriminate. }
  destruct (all_variants_spec ms s Hwf Hmem Hend Hne) as (vs' & H1 & _ & _ & H4 & _).
  rewrite Hall in H1. inversion H1; subst vs'.
  apply H4 in Hin. destruct Hin as (_ & _ & V3). apply V3. exact Hi.
  intros c Hc Hseg. apply Hout.
  destruct Hwf as (W1 & W2).
  assert (Hss : StronglySorted ch_lt (multichoices ms)).
  { unfold multichoices. apply b_ss_filter. exact W2. }
  assert (Hpos : Forall (fun c => cstart c < cend c) (multichoices ms)).
  { apply Forall_forall. intros c' Hc'. unfold multichoices in Hc'. apply filter_In in Hc'.
    rewrite Forall_forall in W1. destruct (W1 c' (proj1 Hc')) as (Hw & _ & _). lia. }
  unfold choices_span in Hspan.
  destruct (multichoices ms) as [|c0 mc] eqn:E; [discriminate|].
  inversion Hspan; subst a b.
  assert (Hlast : cend c <= cend (last (c0 :: mc) c0)).
  { apply b_ss_last; assumption. }
  assert (Hfirst : cstart c0 <= cstart c).
  { destruct Hc as [Hc | Hc].
    - subst c. lia.
    - apply StronglySorted_inv in Hss. destruct Hss as [_ Hlt]. rewrite Forall_forall in Hlt.
      specialize (Hlt c Hc). unfold ch_lt in Hlt.
      inversion Hpos as [|x l Hx Hl]; subst x l. lia. }
  change (cstart c0 <= i < cend (last (c0 :: mc) c0)). lia.
Qed.

(* the frozen case: the only variant is the sequence itself *)
Theorem all_variants_frozen : forall ms s, multichoices ms = [] -> all_variants ms s = Some [s].
Proof.
  intros ms s H. unfold all_variants, choices_span. rewrite H. reflexivity.
Qed.
