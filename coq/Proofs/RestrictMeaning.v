(* C04, per-class half: for every class whose constraints are "enforced by nucleotide
   restrictions", a sequence t satisfies every choice returned by restrict_nucleotides (computed on
   the problem's initial sequence s) IFF the specification's own evaluation passes on t.
   (EnforceTranslation: Proofs/SpecsCodon.v.  Here: AvoidChanges with max_edits = 0,
   EnforceSequence, EnforceChoice, AvoidRareCodons, EnforceChanges with minimum_percent = 100.) *)
From Coq Require Import ZArith QArith Qabs Bool List Ascii String Lia Lqa.
From Coq Require FinFun.
From DC Require Import Model.Base Model.Loc Model.Bio Model.Pattern Model.MSpace Model.Specs
                       Generated.GenTables Proofs.SpecsDefs Proofs.BioA Proofs.BioB Proofs.MSpaceDefs
                       Proofs.MSpaceA Proofs.MSpaceD Proofs.LocProofs Proofs.SpecsLocalA Proofs.SpecsLocalB
                       Proofs.SpecsLocalC Proofs.SpecsEval Proofs.SpecsCodon.
Import ListNotations.
Open Scope Z_scope.

(* ================================================================== brute force (step (a)) *)

Definition holdsb (c : choice) (t : dna) : bool := dmem (slice t (cstart c) (cend c)) (cvariants c).
(* left-hand side: every restriction choice (computed on s) holds on t *)
Definition lhsb (sp : spec) (s t : dna) : bool :=
  forallb (fun r => holdsb r t) (restrict_nucleotides sp false s).
(* right-hand side: the evaluation exists and passes on t *)
Definition rhsb (sp : spec) (t : dna) : bool :=
  match evaluate sp t with Some e => passes e | None => false end.

(* the boolean sides decide the two sides of the statements below *)
Lemma lhsb_iff sp s t :
  lhsb sp s t = true <-> Forall (fun r => holds r t) (restrict_nucleotides sp false s).
Proof.
  unfold lhsb. rewrite forallb_forall, Forall_forall. split; intros H r Hr; specialize (H r Hr);
    unfold holdsb, holds in *; apply dmem_iff_In; exact H.
Qed.
Lemma rhsb_iff sp t : rhsb sp t = true <-> exists e, evaluate sp t = Some e /\ passes e = true.
Proof.
  unfold rhsb. destruct (evaluate sp t) as [e|].
  - split; [intros H; exists e; split; [reflexivity | exact H]|]. intros [e' [He Hp]]. injection He as ->. exact Hp.
  - split; [discriminate|]. intros [e [He _]]. discriminate He.
Qed.

Fixpoint all_seqs (alph : list nuc) (n : nat) : list dna :=
  match n with O => [[]] | S k => flat_map (fun x => map (cons x) (all_seqs alph k)) alph end.
Fixpoint all_strs (alph : list ascii) (n : nat) : list astr :=
  match n with O => [[]] | S k => flat_map (fun x => map (cons x) (all_strs alph k)) alph end.
(* every location 0 <= a <= b <= n with a strand of the list *)
Definition all_locs (n : Z) (strands : list Z) : list loc :=
  flat_map (fun a => flat_map (fun b => map (fun st => mkLoc a b st) strands) (zrange a (n + 1)))
           (zrange 0 (n + 1)).
(* (cases where both sides agree, cases where only the restrictions hold, cases where only the
   evaluation passes) *)
Definition tally (l : list (bool * bool)) : Z * Z * Z :=
  fold_left (fun acc p => let '(a, b, c) := acc in
     match p with
     | (true, true) | (false, false) => (a + 1, b, c)
     | (true, false) => (a, b + 1, c)
     | (false, true) => (a, b, c + 1)
     end) l (0, 0, 0).
Definition ACGT := [nA; nC; nG; nT].
Definition AC := [nA; nC].
Definition take_ix (s : dna) (ix : list Z) : dna :=
  match take_indices s ix with Some d => d | None => [] end.
(* index lists: empty, singletons, pairs (repetitions and both orders included) *)
Definition ix_lists (n : Z) : list (list Z) :=
  [[]] ++ map (fun i => [i]) (zrange 0 n) ++
  flat_map (fun i => map (fun j => [i; j]) (zrange 0 n)) (zrange 0 n).
Definition coversb (l : loc) (ix : list Z) : bool :=
  forallb (fun i => (lstart l <=? i) && (i <? lend l)) ix.

(* ---- 1. AvoidChanges, max_edits = 0 *)
Definition t1_loc (alph : list nuc) (n : nat) (strands : list Z) :=
  tally (flat_map (fun s => flat_map (fun l => map (fun t =>
      let sp := SAvoidChanges l None (extract l s) 0 in (lhsb sp s t, rhsb sp t))
      (all_seqs alph n)) (all_locs (Z.of_nat n) strands)) (all_seqs alph n)).
Definition t1_idx (alph : list nuc) (n : nat) (strands : list Z) (only_cov : bool) :=
  tally (flat_map (fun s => flat_map (fun l => flat_map (fun ix =>
      if only_cov && negb (coversb l ix) then [] else
      map (fun t =>
      let sp := SAvoidChanges l (Some ix) (take_ix s ix) 0 in (lhsb sp s t, rhsb sp t))
      (all_seqs alph n)) (ix_lists (Z.of_nat n))) (all_locs (Z.of_nat n) strands)) (all_seqs alph n)).
(* all s, t of the given length, all locations:
     t1_loc ACGT 3 [0; 1]             = (81920, 0, 0)
     t1_loc AC 5 [0; 1]               = (43008, 0, 0)
     t1_loc AC 4 [-1]                 = (3840, 0, 0)     (strand -1 is excluded by the constructor)
   indices mode, all index lists of length <= 2, all locations (covering the indices or not):
     t1_idx AC 3 [0; 1; -1] false     = (15840, 9120, 0)    <- 9120 cases: restrictions hold, evaluation fails
   indices mode, only the locations that contain every index:
     t1_idx AC 3 [0; 1; -1] true      = (7680, 0, 0)
     t1_idx ACGT 3 [1] true           = (163840, 0, 0) *)
Lemma t1_loc_check : t1_loc AC 4 [0; 1; -1] = (11520, 0, 0).
Proof. vm_compute. reflexivity. Qed.
Lemma t1_idx_check : t1_idx AC 3 [0; 1; -1] false = (15840, 9120, 0) /\
                     t1_idx AC 3 [0; 1; -1] true = (7680, 0, 0).
Proof. split; vm_compute; reflexivity. Qed.

(* ---- 2. EnforceSequence *)
Definition IU : list ascii := ["A"; "C"; "N"; "S"; "R"; "Z"]%char.   (* "Z": not an IUPAC letter *)
Definition t2_exact (alph : list nuc) (n : nat) (strands : list Z) :=
  tally (flat_map (fun l => flat_map (fun w => map (fun t =>
      let sp := SEnforceSequence w l in (lhsb sp t t, rhsb sp t))
      (all_seqs alph n)) (all_strs IU (Z.to_nat (loc_len l)))) (all_locs (Z.of_nat n) strands)).
Definition t2_any (alph : list nuc) (n : nat) (strands : list Z) :=
  tally (flat_map (fun l => flat_map (fun w => map (fun t =>
      let sp := SEnforceSequence w l in (lhsb sp t t, rhsb sp t))
      (all_seqs alph n)) (all_strs IU 0 ++ all_strs IU 1 ++ all_strs IU 2 ++ all_strs IU 3))
      (all_locs (Z.of_nat n) strands)).
(* (the restrictions do not depend on s)  patterns over {A, C, N, S, R, Z} as long as the location:
     t2_exact ACGT 3 [0; 1; -1]       = (59520, 0, 0)
     t2_exact ACGT 4 [1; -1]          = (954880, 0, 0)
   patterns of any length 0..3, whatever the location's length:
     t2_any ACGT 3 [0; 1; -1]         = (497280, 0, 0) *)
Lemma t2_check : t2_exact ACGT 3 [0; 1; -1] = (59520, 0, 0).
Proof. vm_compute. reflexivity. Qed.

(* ---- 3. EnforceChoice *)
Definition small_seqs :=
  all_seqs AC 0 ++ all_seqs AC 1 ++ all_seqs AC 2 ++ all_seqs [nA; nG; nT] 2 ++ all_seqs AC 3.
Definition cs_lists : list (list dna) :=
  [[]] ++ map (fun a => [a]) small_seqs ++ flat_map (fun a => map (fun b => [a; b]) small_seqs) small_seqs.
Definition t3 (alph : list nuc) (n : nat) (strands : list Z) :=
  tally (flat_map (fun l => flat_map (fun cs => map (fun t =>
      let sp := SEnforceChoice cs l in (lhsb sp t t, rhsb sp t))
      (all_seqs alph n)) cs_lists) (all_locs (Z.of_nat n) strands)).
(* 601 lists of at most two choices of length 0..3 (any length, whatever the location):
     t3 ACGT 3 [0; 1; -1]             = (1153920, 0, 0)
     t3 [nA; nC; nG] 4 [1; -1]        = (1460430, 0, 0) *)
Lemma t3_check : t3 AC 3 [0; 1; -1] = (144240, 0, 0).
Proof. vm_compute. reflexivity. Qed.

(* ---- 4. AvoidRareCodons *)
Definition codons64 : list dna := all_seqs ACGT 3.
Definition cntA (c : dna) : Z := zlen (filter (nuc_eqb nA) c).
Definition tabA : list (dna * Q) := map (fun c => (c, cntA c # 3)) codons64.
Definition tabF : list (dna * Q) :=
  map (fun c => (c, match c with x :: y :: _ => (nuc_rank x + 2 * nuc_rank y) # 10 | _ => 0%Q end)) codons64.
Definition mfs : list Q := [0; 1 # 3; 1 # 2; 1; 2]%Q.
Definition locs3 (n : Z) (strands : list Z) := filter (fun l => loc_len l mod 3 =? 0) (all_locs n strands).
Definition t4 (tabs : list (list (dna * Q))) (locs : list loc) (alph : list nuc) (n : nat) :=
  tally (flat_map (fun fr => flat_map (fun mf => flat_map (fun l => map (fun t =>
      let sp := SRareCodons fr mf l in (lhsb sp t t, rhsb sp t))
      (all_seqs alph n)) locs) mfs) tabs).
Definition tabDup : list (dna * Q) := ([nA; nA; nA], 0%Q) :: tabA.     (* a repeated key *)
(* two total tables with distinct keys, five thresholds, locations of length 0, 3, 6:
     t4 [tabA; tabF] (locs3 4 [0; 1; -1]) ACGT 4   = (53760, 0, 0)
     t4 [tabA; tabF] (locs3 6 [1; -1]) ACGT 6      = (983040, 0, 0)
   a table with a repeated key (the first entry rare, the second not):
     t4 [tabDup] (locs3 3 [1]) ACGT 3              = (1597, 3, 0)     <- restrictions hold, evaluation fails
   a table that is not total (first entry removed):
     t4 [tl tabA] (locs3 3 [1]) ACGT 3             = (1595, 0, 5)     <- evaluation passes, restrictions fail
   all locations, multiple of 3 or not (the evaluation raises on the others):
     t4 [tabA] (all_locs 4 [1; -1]) ACGT 4         = (34816, 3584, 0) *)
Lemma t4_check : t4 [tabA; tabF] (locs3 3 [0; 1; -1]) ACGT 3 = (9600, 0, 0) /\
                 t4 [tabDup] (locs3 3 [1]) ACGT 3 = (1597, 3, 0) /\
                 t4 [tl tabA] (locs3 3 [1]) ACGT 3 = (1595, 0, 5).
Proof. split; [|split]; vm_compute; reflexivity. Qed.

(* ---- 5. EnforceChanges, minimum_percent = 100 *)
Definition t5_loc (alph : list nuc) (n : nat) (strands : list Z) (below : Z) :=
  tally (flat_map (fun s => flat_map (fun l => map (fun t =>
      let sp := SEnforceChanges l None (extract l s) (Some (loc_len l - below)) None true in
      (lhsb sp s t, rhsb sp t))
      (all_seqs alph n)) (all_locs (Z.of_nat n) strands)) (all_seqs alph n)).
Definition t5_idx (alph : list nuc) (n : nat) (strands : list Z) (only_cov : bool) :=
  tally (flat_map (fun s => flat_map (fun l => flat_map (fun ix =>
      if only_cov && negb (coversb l ix) then [] else
      map (fun t =>
      let sp := SEnforceChanges l (Some ix) (take_ix s ix) (Some (zlen ix)) None true in
      (lhsb sp s t, rhsb sp t))
      (all_seqs alph n)) (ix_lists (Z.of_nat n))) (all_locs (Z.of_nat n) strands)) (all_seqs alph n)).
(* minimum = number of positions (what initialisation computes for 100 %); the nucleotide to avoid is
   read in the stored reference (here: the reference read from s by initialisation):
     t5_loc ACGT 3 [0; 1] 0           = (81920, 0, 0)
     t5_loc AC 5 [0; 1] 0             = (43008, 0, 0)
   strand -1 (never kept by EnforceChanges' constructor, which turns it into +1): the stored reference
   is the reverse complement, so the restrictions exclude the COMPLEMENT of the original nucleotide
     t5_loc AC 4 [-1] 0               = (2064, 1776, 0)     <- restrictions hold, evaluation fails
   indices mode, all locations / only the locations that contain every index:
     t5_idx AC 3 [0; 1; -1] false     = (15840, 9120, 0)    <- restrictions hold, evaluation fails
     t5_idx AC 3 [0; 1; -1] true      = (7680, 0, 0)
     t5_idx ACGT 3 [1] true           = (163840, 0, 0)
   minimum one below the number of positions (not what the library computes):
     t5_loc AC 3 [1] 1                = (456, 0, 184) *)
Lemma t5_check : t5_loc AC 4 [0; 1] 0 = (7680, 0, 0) /\
                 t5_idx AC 3 [0; 1; -1] false = (15840, 9120, 0) /\
                 t5_idx AC 3 [0; 1; -1] true = (7680, 0, 0).
Proof. split; [|split]; vm_compute; reflexivity. Qed.

(* ---- 6. EnforceChanges, minimum_percent = 100, ANY stored reference of the right length *)
Fixpoint nodupb (l : list Z) : bool :=
  match l with [] => true | x :: r => negb (existsb (Z.eqb x) r) && nodupb r end.
Definition ix_lists3 (n : Z) : list (list Z) :=
  ix_lists n ++
  flat_map (fun i => flat_map (fun j => map (fun k => [i; j; k]) (zrange 0 n)) (zrange 0 n)) (zrange 0 n).
(* indices inside the location, every reference over [ralph] as long as the index list *)
Definition t6_idx (alph ralph : list nuc) (n : nat) (strands : list Z) (need_nodup : bool) :=
  tally (flat_map (fun s => flat_map (fun l => flat_map (fun ix =>
      if negb (coversb l ix) || (need_nodup && negb (nodupb ix)) then [] else
      flat_map (fun ref => map (fun t =>
      let sp := SEnforceChanges l (Some ix) ref (Some (zlen ix)) None true in
      (lhsb sp s t, rhsb sp t))
      (all_seqs alph n)) (all_seqs ralph (List.length ix))) (ix_lists3 (Z.of_nat n)))
      (all_locs (Z.of_nat n) strands)) (all_seqs alph n)).
(* every reference over [ralph] as long as the location *)
Definition t6_loc (alph ralph : list nuc) (n : nat) (strands : list Z) :=
  tally (flat_map (fun s => flat_map (fun l => flat_map (fun ref => map (fun t =>
      let sp := SEnforceChanges l None ref (Some (loc_len l)) None true in
      (lhsb sp s t, rhsb sp t))
      (all_seqs alph n)) (all_seqs ralph (Z.to_nat (loc_len l)))) (all_locs (Z.of_nat n) strands))
      (all_seqs alph n)).
(* index lists of length <= 3 without repetition, all references:
     t6_idx AC AC 3 [0; 1; -1] true   = (22656, 0, 0)
     t6_idx AC ACGT 3 [1] true        = (38016, 0, 0)
   repetitions allowed (the last entry of a repeated index wins in the restrictions, the evaluation
   compares every entry):
     t6_idx AC AC 3 [1] false         = (26112, 4480, 0)    <- restrictions hold, evaluation fails
   location mode:
     t6_loc AC AC 3 [0; 1]            = (3328, 0, 0)
     t6_loc AC ACGT 3 [0; 1]          = (14336, 0, 0)
     t6_loc ACGT ACGT 2 [0; 1]        = (13824, 0, 0)
     t6_loc AC AC 3 [-1]              = (640, 0, 1024)      <- evaluation passes, restrictions fail *)
Lemma t6_check : t6_idx AC AC 3 [1] true = (7552, 0, 0) /\
                 t6_idx AC AC 3 [1] false = (26112, 4480, 0) /\
                 t6_loc AC AC 3 [0; 1] = (3328, 0, 0) /\
                 t6_loc AC AC 3 [-1] = (640, 0, 1024).
Proof. split; [|split; [|split]]; vm_compute; reflexivity. Qed.

(* ================================================================== generic helpers *)

Lemma holds_rchoice a b vs t : holds (rchoice a b vs) t <-> In (slice t a b) vs.
Proof. reflexivity. Qed.

Lemma In_single {X} (x y : X) : In x [y] <-> y = x.
Proof. cbn [In]. tauto. Qed.

Lemma loc_in_bounds l n : loc_in l n -> 0 <= lstart l <= lend l /\ lend l <= n.
Proof. intros (H0 & H1 & H2 & _). lia. Qed.

(* the nucleotide at position i, as a one-letter slice *)
Lemma slice_one (t : dna) i x : 0 <= i -> nth_error t (Z.to_nat i) = Some x -> slice t i (i + 1) = [x].
Proof.
  intros Hi Hx. unfold slice. replace (Z.to_nat (i + 1 - i)) with 1%nat by lia.
  apply nth_errorB_ext. intros j. rewrite nth_errorB_firstn, nth_errorB_skipn.
  destruct j as [|j].
  - cbn [Nat.ltb Nat.leb]. rewrite Nat.add_0_r. exact Hx.
  - change (S j <? 1)%nat with false. cbn [nth_error]. rewrite nth_errorB_nil. reflexivity.
Qed.

Lemma nth_in_range (t : dna) i : 0 <= i < zlen t -> exists x, nth_error t (Z.to_nat i) = Some x.
Proof.
  intros Hi. destruct (nth_error t (Z.to_nat i)) as [x|] eqn:E; [exists x; reflexivity|].
  apply nth_error_None in E. unfold zlen in Hi. lia.
Qed.

(* passing = non-negative integer score *)
Lemma passes_mkEv_zq n ls : passes (mkEv (zq n) ls) = true <-> 0 <= n.
Proof. apply passes_zq_score. reflexivity. Qed.

(* ================================================================== 3. EnforceChoice *)

Lemma rc_In_map (x : dna) cs : In x (map rc cs) <-> In (rc x) cs.
Proof.
  split.
  - intros H. apply in_map_iff in H. destruct H as [c [Hc Hin]]. rewrite <- Hc, rc_involutive. exact Hin.
  - intros H. apply in_map_iff. exists (rc x). split; [apply rc_involutive | exact H].
Qed.

Theorem enforce_choice_restrictions_exact : forall cs l s t,
  loc_in l (zlen s) -> zlen t = zlen s ->
  (Forall (fun r => holds r t) (restrict_nucleotides (SEnforceChoice cs l) false s) <->
   exists e, evaluate (SEnforceChoice cs l) t = Some e /\ passes e = true).
Proof.
  intros cs l s t Hl Hz. apply loc_in_bounds in Hl. rewrite <- Hz in Hl.
  cbn [restrict_nucleotides evaluate].
  assert (Hpass : (exists e, Some (eval_enforce_choice cs l t) = Some e /\ passes e = true) <->
                  In (extract l t) cs).
  { unfold eval_enforce_choice. destruct (dmem (extract l t) cs) eqn:E.
    - apply dmem_iff_In in E. split; [intros _; exact E|]. intros _. eexists. split; reflexivity.
    - split.
      + intros [e [He Hp]]. injection He as <-. discriminate Hp.
      + intros H. apply dmem_iff_In in H. rewrite H in E. discriminate E. }
  rewrite Hpass. clear Hpass.
  split.
  - intros H. inversion H as [|c cs' Hc _]; subst. rewrite holds_rchoice, nodup_dna_In in Hc.
    destruct (Z.eqb_spec (lstrand l) (-1)) as [E|E].
    + rewrite extract_rev by lia. apply rc_In_map. exact Hc.
    + rewrite extract_fwd by lia. exact Hc.
  - intros H. constructor; [|constructor]. rewrite holds_rchoice, nodup_dna_In.
    destruct (Z.eqb_spec (lstrand l) (-1)) as [E|E].
    + rewrite extract_rev in H by lia. apply rc_In_map. exact H.
    + rewrite extract_fwd in H by lia. exact H.
Qed.

(* ================================================================== 2. EnforceSequence *)

Lemma where_nil_iff {X} (f : X -> bool) (l : list X) k :
  indices_where f l k = [] <-> (forall j x, nth_error l j = Some x -> f x = false).
Proof.
  split.
  - intros H j x Hx. destruct (f x) eqn:E; [|reflexivity]. exfalso.
    assert (Hin : In (k + Z.of_nat j) (indices_where f l k)).
    { apply in_indices_where. exists j, x. split; [reflexivity|]. split; assumption. }
    rewrite H in Hin. destruct Hin.
  - intros H. destruct (indices_where f l k) as [|r rs] eqn:E; [reflexivity|]. exfalso.
    assert (Hin : In r (indices_where f l k)) by (rewrite E; left; reflexivity).
    apply in_indices_where in Hin. destruct Hin as [j [x [_ [Hx Hf]]]].
    rewrite (H j x Hx) in Hf. discriminate Hf.
Qed.

Lemma nth_error_combine {X Y} (a : list X) (b : list Y) j :
  nth_error (combine a b) j =
  match nth_error a j, nth_error b j with Some x, Some y => Some (x, y) | _, _ => None end.
Proof.
  revert b j. induction a as [|x a IH]; intros b j.
  - cbn [combine]. rewrite !nth_errorB_nil. reflexivity.
  - destruct b as [|y b]; cbn [combine].
    + rewrite !nth_errorB_nil. destruct (nth_error (x :: a) j); reflexivity.
    + destruct j as [|j]; [reflexivity|]. cbn [nth_error]. apply IH.
Qed.

Lemma nth_error_rev {X} (l : list X) j : (j < List.length l)%nat ->
  nth_error (rev l) j = nth_error l (List.length l - S j).
Proof.
  intros Hj. destruct l as [|d l']; [cbn [List.length] in Hj; lia|].
  set (l := d :: l') in *.
  rewrite (nth_error_nth' (rev l) d) by (rewrite rev_length; exact Hj).
  rewrite (nth_error_nth' l d) by lia.
  rewrite rev_nth by exact Hj. reflexivity.
Qed.

(* the j-th letter of the extracted region, in terms of the sequence *)
Lemma extract_nth l (t : dna) j : 0 <= lstart l <= lend l -> lend l <= zlen t ->
  (j < Z.to_nat (lend l - lstart l))%nat ->
  nth_error (extract l t) j =
  if lstrand l =? -1 then option_map ncomp (nth_error t (Z.to_nat (lend l - 1 - Z.of_nat j)))
  else nth_error t (Z.to_nat (lstart l + Z.of_nat j)).
Proof.
  intros H1 H2 Hj.
  assert (Hsl : forall k, (k < Z.to_nat (lend l - lstart l))%nat ->
            nth_error (slice t (lstart l) (lend l)) k = nth_error t (Z.to_nat (lstart l + Z.of_nat k))).
  { intros k Hk. unfold slice. rewrite nth_errorB_firstn, nth_errorB_skipn.
    destruct (Nat.ltb_spec k (Z.to_nat (lend l - lstart l))) as [_|Hge]; [|lia]. f_equal. lia. }
  destruct (Z.eqb_spec (lstrand l) (-1)) as [E|E].
  - rewrite extract_rev by lia. unfold rc.
    assert (Hlen : List.length (map ncomp (slice t (lstart l) (lend l))) = Z.to_nat (lend l - lstart l)).
    { rewrite map_length. pose proof (zlenB_slice t (lstart l) (lend l) ltac:(lia) ltac:(lia)) as Hs.
      unfold zlen in Hs. lia. }
    rewrite nth_error_rev by lia. rewrite Hlen, nth_error_map, Hsl by lia.
    do 2 f_equal. lia.
  - rewrite extract_fwd by lia. apply Hsl. exact Hj.
Qed.

Lemma extract_length l (t : dna) : 0 <= lstart l <= lend l -> lend l <= zlen t ->
  List.length (extract l t) = Z.to_nat (lend l - lstart l).
Proof.
  intros H1 H2.
  assert (Hs : List.length (slice t (lstart l) (lend l)) = Z.to_nat (lend l - lstart l)).
  { pose proof (zlenB_slice t (lstart l) (lend l) ltac:(lia) ltac:(lia)) as Hs. unfold zlen in Hs. lia. }
  destruct (Z.eq_dec (lstrand l) (-1)) as [E|E].
  - rewrite extract_rev by lia. rewrite rc_length. exact Hs.
  - rewrite extract_fwd by lia. exact Hs.
Qed.

Lemma iupac_N x : iupac_matches "N" x = true.
Proof. destruct x; vm_compute; reflexivity. Qed.

Lemma ncomp_involutive x : ncomp (ncomp x) = x.
Proof. destruct x; reflexivity. Qed.

Lemma In_nucs_of_iupac c x : In x (nucs_of_iupac c) <-> iupac_matches c x = true.
Proof.
  unfold nucs_of_iupac. rewrite filter_In. split; [intros [_ H]; exact H|].
  intros H. split; [|exact H]. destruct x; cbn [In]; tauto.
Qed.

Lemma In_letter_fwd c x : In [x] (map (fun y : nuc => [y]) (nucs_of_iupac c)) <-> iupac_matches c x = true.
Proof.
  rewrite <- In_nucs_of_iupac, in_map_iff. split.
  - intros [y [Hy Hin]]. injection Hy as <-. exact Hin.
  - intros H. exists x. split; [reflexivity | exact H].
Qed.

Lemma In_letter_rev c x :
  In [x] (map (fun y : nuc => [ncomp y]) (nucs_of_iupac c)) <-> iupac_matches c (ncomp x) = true.
Proof.
  rewrite <- In_nucs_of_iupac, in_map_iff. split.
  - intros [y [Hy Hin]]. injection Hy as <-. rewrite ncomp_involutive. exact Hin.
  - intros H. exists (ncomp x). split; [rewrite ncomp_involutive; reflexivity | exact H].
Qed.

(* the letter of the pattern facing position j of the extracted region; beyond the end of the
   pattern nothing is asked (restrict_nucleotides reads "N", evaluate stops at the shorter string) *)
Lemma enforce_sequence_pass w l (t : dna) :
  (exists e, evaluate (SEnforceSequence w l) t = Some e /\ passes e = true) <->
  (forall j x, nth_error (extract l t) j = Some x -> iupac_matches (nth j w "N"%char) x = true).
Proof.
  cbn [evaluate].
  set (f := fun p : nuc * ascii => negb (iupac_matches (snd p) (fst p))).
  assert (Hp : (exists e, Some (eval_enforce_sequence w l t) = Some e /\ passes e = true) <->
               indices_where f (combine (extract l t) w) 0 = []).
  { unfold eval_enforce_sequence. cbv zeta. fold f.
    set (rel := indices_where f (combine (extract l t) w) 0).
    split.
    - intros [e [He Hpe]]. injection He as <-. apply passes_mkEv_zq in Hpe.
      apply zlen_zero_nil. pose proof (zlenB_nonneg rel). lia.
    - intros H. eexists. split; [reflexivity|]. apply passes_mkEv_zq. rewrite H.
      change (zlen (@nil Z)) with 0. lia. }
  rewrite Hp, where_nil_iff. clear Hp. split.
  - intros H j x Hx. destruct (nth_error w j) as [c|] eqn:Ec.
    + specialize (H j (x, c)). rewrite nth_error_combine, Hx, Ec in H. specialize (H eq_refl).
      unfold f in H. cbn [fst snd] in H. apply negb_false_iff in H.
      rewrite (nth_error_nth w j "N"%char Ec). exact H.
    + apply nth_error_None in Ec. rewrite nth_overflow by exact Ec. apply iupac_N.
  - intros H j [x c] Hp. rewrite nth_error_combine in Hp.
    destruct (nth_error (extract l t) j) as [x'|] eqn:Ex; [|discriminate Hp].
    destruct (nth_error w j) as [c'|] eqn:Ec; [|discriminate Hp].
    injection Hp as -> ->. specialize (H j x Ex). rewrite (nth_error_nth w j "N"%char Ec) in H.
    unfold f. cbn [fst snd]. rewrite H. reflexivity.
Qed.

Theorem enforce_sequence_restrictions_exact : forall w l s t,
  loc_in l (zlen s) -> zlen t = zlen s ->
  (Forall (fun r => holds r t) (restrict_nucleotides (SEnforceSequence w l) false s) <->
   exists e, evaluate (SEnforceSequence w l) t = Some e /\ passes e = true).
Proof.
  intros w l s t Hl Hz. apply loc_in_bounds in Hl. rewrite <- Hz in Hl. destruct Hl as [H1 H2].
  rewrite enforce_sequence_pass.
  cbn [restrict_nucleotides]. rewrite Forall_map, Forall_forall.
  pose proof (extract_length l t H1 H2) as Hlen.
  destruct (Z.eqb_spec (lstrand l) (-1)) as [E|E].
  - split.
    + intros H j x Hx.
      assert (Hj : (j < Z.to_nat (lend l - lstart l))%nat).
      { rewrite <- Hlen. apply nth_error_Some. rewrite Hx. discriminate. }
      rewrite (extract_nth l t j H1 H2 Hj) in Hx.
      destruct (Z.eqb_spec (lstrand l) (-1)) as [_|E']; [|contradiction].
      set (i := lend l - 1 - Z.of_nat j) in *.
      destruct (nth_error t (Z.to_nat i)) as [y|] eqn:Ey; [|discriminate Hx].
      cbn [option_map] in Hx. injection Hx as <-.
      specialize (H i). rewrite in_zrange in H. specialize (H ltac:(lia)).
      rewrite holds_rchoice, (slice_one t i y ltac:(lia) Ey), In_letter_rev in H.
      replace (Z.to_nat (lend l - i - 1)) with j in H by lia. exact H.
    + intros H i Hi. apply in_zrange in Hi.
      destruct (nth_in_range t i ltac:(lia)) as [y Ey].
      rewrite holds_rchoice, (slice_one t i y ltac:(lia) Ey), In_letter_rev.
      apply (H (Z.to_nat (lend l - i - 1)) (ncomp y)).
      rewrite extract_nth by lia.
      destruct (Z.eqb_spec (lstrand l) (-1)) as [_|E']; [|contradiction].
      replace (lend l - 1 - Z.of_nat (Z.to_nat (lend l - i - 1))) with i by lia.
      rewrite Ey. reflexivity.
  - split.
    + intros H j x Hx.
      assert (Hj : (j < Z.to_nat (lend l - lstart l))%nat).
      { rewrite <- Hlen. apply nth_error_Some. rewrite Hx. discriminate. }
      rewrite (extract_nth l t j H1 H2 Hj) in Hx.
      destruct (Z.eqb_spec (lstrand l) (-1)) as [E'|_]; [contradiction|].
      set (i := lstart l + Z.of_nat j) in *.
      specialize (H i). rewrite in_zrange in H. specialize (H ltac:(lia)).
      rewrite holds_rchoice, (slice_one t i x ltac:(lia) Hx), In_letter_fwd in H.
      replace (Z.to_nat (i - lstart l)) with j in H by lia. exact H.
    + intros H i Hi. apply in_zrange in Hi.
      destruct (nth_in_range t i ltac:(lia)) as [y Ey].
      rewrite holds_rchoice, (slice_one t i y ltac:(lia) Ey), In_letter_fwd.
      apply (H (Z.to_nat (i - lstart l)) y).
      rewrite extract_nth by lia.
      destruct (Z.eqb_spec (lstrand l) (-1)) as [E'|_]; [contradiction|].
      replace (lstart l + Z.of_nat (Z.to_nat (i - lstart l))) with i by lia. exact Ey.
Qed.

(* ================================================================== positions: slices, extract, indices *)

Lemma slice_getn (t : dna) i : 0 <= i < zlen t -> slice t i (i + 1) = [getn t i].
Proof.
  intros Hi. apply slice_one; [lia|]. unfold getn. apply nth_error_nth'. unfold zlen in Hi. lia.
Qed.

Lemma slice_cons (t : dna) a b : 0 <= a < b -> b <= zlen t -> slice t a b = getn t a :: slice t (a + 1) b.
Proof.
  intros H1 H2. rewrite (sliceB_split t a (a + 1) b) by lia. rewrite slice_getn by lia. reflexivity.
Qed.

Lemma slice_empty {X} (t : list X) a : slice t a a = [].
Proof. unfold slice. rewrite Z.sub_diag. reflexivity. Qed.

Lemma slice_Forall2 (R : nuc -> nuc -> Prop) (s t : dna) a b :
  0 <= a <= b -> b <= zlen s -> zlen t = zlen s ->
  (Forall2 R (slice t a b) (slice s a b) <-> forall i, a <= i < b -> R (getn t i) (getn s i)).
Proof.
  intros H1 H2 Hz. remember (Z.to_nat (b - a)) as n eqn:En. revert a H1 En.
  induction n as [|n IH]; intros a H1 En.
  - assert (a = b) by lia. subst b. rewrite !slice_empty. split; [intros _ i Hi; lia | constructor].
  - rewrite (slice_cons t a b), (slice_cons s a b) by lia. split.
    + intros H. inversion H as [|x y xs ys Hxy Hrest]; subst.
      pose proof (proj1 (IH (a + 1) ltac:(lia) ltac:(lia)) Hrest) as Hr. intros i Hi.
      destruct (Z.eq_dec i a) as [->|Hne]; [exact Hxy | apply Hr; lia].
    + intros H. constructor; [apply H; lia|]. apply (proj2 (IH (a + 1) ltac:(lia) ltac:(lia))). intros i Hi. apply H. lia.
Qed.

Lemma Forall2_rev_imp {X Y} (R : X -> Y -> Prop) a b : Forall2 R a b -> Forall2 R (rev a) (rev b).
Proof.
  intros H. induction H as [|x y a b Hxy _ IH]; [constructor|]. cbn [rev].
  apply Forall2_app; [exact IH | constructor; [exact Hxy | constructor]].
Qed.

Lemma Forall2_rev_iff {X Y} (R : X -> Y -> Prop) a b : Forall2 R (rev a) (rev b) <-> Forall2 R a b.
Proof.
  split; [|apply Forall2_rev_imp]. intros H. apply Forall2_rev_imp in H.
  rewrite !rev_involutive in H. exact H.
Qed.

Lemma Forall2_map2 {X Y X' Y'} (f : X -> X') (g : Y -> Y') (R : X' -> Y' -> Prop) a b :
  Forall2 R (map f a) (map g b) <-> Forall2 (fun x y => R (f x) (g y)) a b.
Proof.
  revert b. induction a as [|x a IH]; intros b; destruct b as [|y b]; cbn [map].
  - split; constructor.
  - split; intros H; inversion H.
  - split; intros H; inversion H.
  - split; intros H; inversion H as [|? ? ? ? Hxy Hr]; subst; constructor; try exact Hxy; apply IH; exact Hr.
Qed.

Lemma Forall2_eq {X} (a b : list X) : Forall2 eq a b <-> a = b.
Proof.
  split.
  - intros H. induction H as [|x y a b Hxy _ IH]; [reflexivity | subst; reflexivity].
  - intros <-. induction a as [|x a IH]; constructor; [reflexivity | exact IH].
Qed.

(* a letter-wise relation that does not see complementation holds between the two extracted
   regions iff it holds at every position of the location *)
Lemma extract_Forall2 (R : nuc -> nuc -> Prop) l (s t : dna) :
  (forall x y, R (ncomp x) (ncomp y) <-> R x y) ->
  0 <= lstart l <= lend l -> lend l <= zlen s -> zlen t = zlen s ->
  (Forall2 R (extract l t) (extract l s) <->
   forall i, lstart l <= i < lend l -> R (getn t i) (getn s i)).
Proof.
  intros HR H1 H2 Hz. destruct (Z.eq_dec (lstrand l) (-1)) as [E|E].
  - rewrite !extract_rev by lia. unfold rc. rewrite Forall2_rev_iff, Forall2_map2.
    rewrite slice_Forall2 by lia. split; intros H i Hi; apply HR; apply H; exact Hi.
  - rewrite !extract_fwd by lia. apply slice_Forall2; lia.
Qed.

Lemma take_indices_bounds (s : dna) ix tg : take_indices s ix = Some tg ->
  Forall (fun i => 0 <= i < zlen s) ix.
Proof.
  unfold take_indices. revert tg. induction ix as [|i ix IH]; intros tg H; [constructor|].
  cbn [mapM] in H. destruct (Z.ltb_spec i 0) as [Hi|Hi]; [discriminate H|].
  destruct (nth_error s (Z.to_nat i)) as [x|] eqn:Ex; [|discriminate H].
  destruct (mapM _ ix) as [r|] eqn:Er; [|discriminate H].
  constructor; [|apply (IH r); reflexivity].
  assert (Hlt : (Z.to_nat i < List.length s)%nat) by (apply nth_error_Some; rewrite Ex; discriminate).
  unfold zlen. lia.
Qed.

Lemma take_indices_getn (s : dna) ix tg : take_indices s ix = Some tg -> tg = map (getn s) ix.
Proof.
  intros H. pose proof (take_indices_some s ix (take_indices_bounds s ix tg H)) as H'.
  rewrite H in H'. injection H' as ->. reflexivity.
Qed.

Lemma Forall2_same_map {X Y} (R : Y -> Y -> Prop) (f g : X -> Y) l :
  Forall2 R (map f l) (map g l) <-> Forall (fun i => R (f i) (g i)) l.
Proof.
  rewrite Forall2_map2. induction l as [|x l IH].
  - split; constructor.
  - split; intros H; inversion H; subst; constructor; try assumption; apply IH; assumption.
Qed.

(* the restricted positions in indices mode: the indices lying inside the location *)
Definition idx_covered (l : loc) (idx : option (list Z)) : Prop :=
  match idx with Some ix => Forall (fun i => lstart l <= i < lend l) ix | None => True end.

Lemma Forall_map_filter_covered {X} (P : X -> Prop) (c : Z -> X) l ix :
  Forall (fun i => lstart l <= i < lend l) ix ->
  (Forall P (map c (filter (fun i => (lstart l <=? i) && (i <? lend l)) ix)) <-> Forall (fun i => P (c i)) ix).
Proof.
  intros Hc. rewrite Forall_map. rewrite !Forall_forall. rewrite Forall_forall in Hc. split.
  - intros H i Hi. apply H. apply filter_In. split; [exact Hi|]. specialize (Hc i Hi).
    apply andb_true_iff. split; [apply Z.leb_le | apply Z.ltb_lt]; lia.
  - intros H i Hi. apply filter_In in Hi. apply H. apply Hi.
Qed.

(* diff_array read through indices_where *)
Lemma where_diff_nil (f : bool -> bool) (a b : dna) k : List.length a = List.length b ->
  (indices_where f (diff_array a b) k = [] <->
   Forall2 (fun x y => f (negb (nuc_eqb x y)) = false) a b).
Proof.
  revert b k. induction a as [|x a IH]; intros b k Hlen; destruct b as [|y b];
    cbn [List.length] in Hlen; try discriminate Hlen; cbn [diff_array indices_where].
  - split; constructor.
  - destruct (f (negb (nuc_eqb x y))) eqn:E.
    + split; [discriminate|]. intros H. inversion H as [|? ? ? ? Hxy _]; subst. congruence.
    + rewrite IH by lia. split; [intros H; constructor; assumption|].
      intros H. inversion H; subst. assumption.
Qed.

Lemma Forall2_iff {X Y} (R R' : X -> Y -> Prop) a b : (forall x y, R x y <-> R' x y) ->
  (Forall2 R a b <-> Forall2 R' a b).
Proof.
  intros HR. split; intros H; induction H; constructor; try assumption; apply HR; assumption.
Qed.

(* ================================================================== 1. AvoidChanges, max_edits = 0 *)

Lemma avoid_changes_pass l idx tg (t sub : dna) :
  extract_subsequence l idx t = Some sub -> List.length sub = List.length tg ->
  ((exists e, evaluate (SAvoidChanges l idx tg 0) t = Some e /\ passes e = true) <-> sub = tg).
Proof.
  intros Hs Hlen. cbn [evaluate]. unfold eval_avoid_changes. rewrite Hs.
  replace (zlen sub =? zlen tg) with true by (symmetry; apply Z.eqb_eq; unfold zlen; lia).
  cbn [negb]. cbv zeta.
  set (rel := indices_where (fun b : bool => b) (diff_array sub tg) 0).
  assert (Hrel : rel = [] <-> sub = tg).
  { unfold rel. rewrite (where_diff_nil (fun b => b)) by exact Hlen. rewrite <- (Forall2_eq sub tg).
    apply Forall2_iff. intros x y. rewrite negb_false_iff. apply nuc_eqb_eq. }
  rewrite <- Hrel. split.
  - intros [e [He Hp]]. injection He as <-. apply passes_mkEv_zq in Hp.
    rewrite zlenB_abs_pos in Hp. apply zlen_zero_nil. pose proof (zlenB_nonneg rel). lia.
  - intros H. eexists. split; [reflexivity|]. apply passes_mkEv_zq. rewrite zlenB_abs_pos, H.
    change (zlen (@nil Z)) with 0. lia.
Qed.

(* initialisation on the problem's sequence s *)
Definition changes_init (l : loc) (idx : option (list Z)) (stored s : dna) : Prop :=
  match idx with
  | None => loc_in l (zlen s) /\ stored = extract l s
  | Some ix => take_indices s ix = Some stored
  end.

Theorem avoid_changes_restrictions_exact_partial : forall l idx tg s t,
  changes_init l idx tg s -> idx_covered l idx -> zlen t = zlen s ->
  (Forall (fun r => holds r t) (restrict_nucleotides (SAvoidChanges l idx tg 0) false s) <->
   exists e, evaluate (SAvoidChanges l idx tg 0) t = Some e /\ passes e = true).
Proof.
  intros l idx tg s t Hinit Hcov Hz. cbn [restrict_nucleotides]. change (negb (0 =? 0)) with false. cbv iota.
  destruct idx as [ix|].
  - cbn [changes_init idx_covered] in Hinit, Hcov.
    pose proof (take_indices_bounds s ix tg Hinit) as Hb.
    pose proof (take_indices_getn s ix tg Hinit) as ->.
    assert (Hbt : Forall (fun i => 0 <= i < zlen t) ix) by (rewrite Hz; exact Hb).
    rewrite (avoid_changes_pass l (Some ix) (map (getn s) ix) t (map (getn t) ix));
      [| cbn [extract_subsequence]; apply take_indices_some; exact Hbt | rewrite !map_length; reflexivity].
    rewrite (Forall_map_filter_covered (fun r => holds r t)) by exact Hcov.
    rewrite <- (Forall2_eq (map (getn t) ix) (map (getn s) ix)), Forall2_same_map.
    rewrite !Forall_forall. rewrite Forall_forall in Hb.
    split; intros H i Hi; specialize (H i Hi); specialize (Hb i Hi);
      rewrite holds_rchoice, pysliceB_eq, !slice_getn, In_single in * by lia.
    + injection H as H. symmetry. exact H.
    + rewrite H. reflexivity.
  - cbn [changes_init] in Hinit. destruct Hinit as [Hl ->]. apply loc_in_bounds in Hl. destruct Hl as [H1 H2].
    rewrite (avoid_changes_pass l None (extract l s) t (extract l t));
      [| reflexivity | rewrite !extract_length by lia; reflexivity].
    assert (HR : forall x y : nuc, ncomp x = ncomp y <-> x = y).
    { intros x y. split; [|congruence]. intros E. rewrite <- (ncomp_involutive x), E. apply ncomp_involutive. }
    rewrite <- (Forall2_eq (extract l t) (extract l s)), (extract_Forall2 eq l s t HR) by lia.
    rewrite <- (slice_Forall2 eq s t (lstart l) (lend l)) by lia. rewrite Forall2_eq.
    split.
    + intros H. inversion H as [|c cs Hc _]; subst. rewrite holds_rchoice, pysliceB_eq, In_single in Hc by lia.
      symmetry. exact Hc.
    + intros H. constructor; [|constructor]. rewrite holds_rchoice, pysliceB_eq, In_single by lia.
      symmetry. exact H.
Qed.

(* in location mode the coverage hypothesis is void *)
Corollary avoid_changes_location_restrictions_exact : forall l s t,
  loc_in l (zlen s) -> zlen t = zlen s ->
  (Forall (fun r => holds r t) (restrict_nucleotides (SAvoidChanges l None (extract l s) 0) false s) <->
   exists e, evaluate (SAvoidChanges l None (extract l s) 0) t = Some e /\ passes e = true).
Proof.
  intros l s t Hl Hz. apply avoid_changes_restrictions_exact_partial; [split; [exact Hl | reflexivity] | exact I | exact Hz].
Qed.

(* REFUTED in indices mode without the coverage hypothesis: AvoidChanges(location=(0, 1), indices=[1])
   on s = "AA" is well-formed and initialised (target "A"), restrict_nucleotides keeps only the
   indices inside the location (none), so every t satisfies the restrictions, but t = "AC" fails the
   evaluation (index 1 was edited). *)
Theorem avoid_changes_restrictions_refuted :
  exists l idx tg s t,
    wf_spec (SAvoidChanges l idx tg 0) (zlen s) /\ changes_init l idx tg s /\ zlen t = zlen s /\
    ~ (Forall (fun r => holds r t) (restrict_nucleotides (SAvoidChanges l idx tg 0) false s) <->
       exists e, evaluate (SAvoidChanges l idx tg 0) t = Some e /\ passes e = true).
Proof.
  exists (mkLoc 0 1 1), (Some [1]), [nA], [nA; nA], [nA; nC].
  split; [|split; [|split]].
  - cbn [wf_spec]. split; [reflexivity|]. constructor; [|constructor]. change (zlen [nA; nA]) with 2. lia.
  - reflexivity.
  - reflexivity.
  - intros [H _]. destruct (H (Forall_nil _)) as [e [He Hp]].
    vm_compute in He. injection He as <-. vm_compute in Hp. discriminate Hp.
Qed.

(* ================================================================== 5. EnforceChanges, minimum_percent = 100 *)

Definition n_positions (l : loc) (idx : option (list Z)) : Z :=
  match idx with Some ix => zlen ix | None => loc_len l end.

Lemma enforce_changes_pass l idx ref am (t sub : dna) :
  extract_subsequence l idx t = Some sub -> List.length sub = List.length ref ->
  ((exists e, evaluate (SEnforceChanges l idx ref (Some (n_positions l idx)) am true) t = Some e /\
              passes e = true) <->
   Forall2 (fun x y => x <> y) sub ref).
Proof.
  intros Hs Hlen. cbn [evaluate]. unfold eval_enforce_changes. rewrite Hs.
  replace (zlen sub =? zlen ref) with true by (symmetry; apply Z.eqb_eq; unfold zlen; lia).
  cbn [negb]. cbv zeta. fold (n_positions l idx).
  set (rel := indices_where (fun b : bool => negb b) (diff_array sub ref) 0).
  assert (Hrel : rel = [] <-> Forall2 (fun x y => x <> y) sub ref).
  { unfold rel. rewrite (where_diff_nil negb) by exact Hlen.
    apply Forall2_iff. intros x y. rewrite negb_involutive. rewrite <- nuc_eqb_eq.
    destruct (nuc_eqb x y); split; congruence. }
  rewrite <- Hrel. split.
  - intros [e [He Hp]]. injection He as <-. apply passes_mkEv_zq in Hp.
    rewrite zlenB_abs_pos in Hp. apply zlen_zero_nil. pose proof (zlenB_nonneg rel). lia.
  - intros H. eexists. split; [reflexivity|]. apply passes_mkEv_zq. rewrite zlenB_abs_pos, H.
    change (zlen (@nil Z)) with 0. lia.
Qed.

Lemma other_bases_In x y : In [x] (other_bases_of y) <-> x <> y.
Proof. destruct x, y; cbn; split; intros H; try congruence; intuition congruence. Qed.

(* one restriction choice of EnforceChanges: the nucleotide to avoid at position i is the LAST entry of
   i in the pairs (position, reference letter) ([orig] is the reversed list of pairs); a position without
   entry falls back on the sequence *)
Definition ec_choice (orig : list (Z * nuc)) (s : dna) (i : Z) : choice :=
  rchoice i (i + 1)
    (match find (fun p => fst p =? i) orig with
     | Some p => other_bases_of (snd p)
     | None => match pyslice s i (i + 1) with [x] => other_bases_of x | _ => [] end
     end).

Lemma holds_ec_choice_found orig (s t : dna) i p : 0 <= i < zlen t ->
  find (fun q => fst q =? i) orig = Some p ->
  (holds (ec_choice orig s i) t <-> getn t i <> snd p).
Proof.
  intros Hi E. unfold ec_choice. rewrite E, holds_rchoice, slice_getn by lia. apply other_bases_In.
Qed.

(* a key that occurs is found, under that key *)
Lemma find_key_some (L : list (Z * nuc)) i : In i (map fst L) ->
  exists p, find (fun q => fst q =? i) L = Some p /\ In p L /\ fst p = i.
Proof.
  intros H. destruct (find (fun q => fst q =? i) L) as [p|] eqn:E.
  - exists p. split; [reflexivity|]. apply find_some in E. destruct E as [Hin Hk].
    split; [exact Hin | apply Z.eqb_eq; exact Hk].
  - exfalso. apply in_map_iff in H. destruct H as [p [Hp Hin]].
    pose proof (find_none _ _ E p Hin) as Hn. cbv beta in Hn. rewrite Hp, Z.eqb_refl in Hn. discriminate Hn.
Qed.

(* distinct keys: every entry is the one found under its key *)
Lemma find_key_nodup (L : list (Z * nuc)) p : NoDup (map fst L) -> In p L ->
  find (fun q => fst q =? fst p) L = Some p.
Proof.
  induction L as [|q L IH]; intros Hnd Hin; [destruct Hin|].
  cbn [map] in Hnd. inversion Hnd as [|? ? Hnotin Hnd']; subst. cbn [find].
  destruct Hin as [->|Hin].
  - rewrite Z.eqb_refl. reflexivity.
  - destruct (Z.eqb_spec (fst q) (fst p)) as [E|E].
    + exfalso. apply Hnotin. rewrite E. apply in_map. exact Hin.
    + apply IH; assumption.
Qed.

Lemma rm_map_fst_combine {X Y} (a : list X) (b : list Y) :
  List.length a = List.length b -> map fst (combine a b) = a.
Proof.
  revert b. induction a as [|x a IH]; intros [|y b] H; cbn [List.length] in H; try discriminate H;
    cbn [combine map fst]; [reflexivity|]. f_equal. apply IH. lia.
Qed.

Lemma in_combine_map {X Y} (f : X -> Y) (l : list X) p : In p (combine l (map f l)) -> snd p = f (fst p).
Proof.
  induction l as [|x l IH]; cbn [map combine In]; [tauto|]. intros [<-|H]; [reflexivity | apply IH; exact H].
Qed.

Lemma Forall2_map_combine {X} (R : nuc -> nuc -> Prop) (f : X -> nuc) (P : list X) (r : dna) :
  List.length P = List.length r ->
  (Forall2 R (map f P) r <-> Forall (fun p => R (f (fst p)) (snd p)) (combine P r)).
Proof.
  revert r. induction P as [|x P IH]; intros [|y r] H; cbn [List.length] in H; try discriminate H;
    cbn [map combine].
  - split; constructor.
  - assert (Hl : List.length P = List.length r) by lia.
    split; intros H'; inversion H'; subst; constructor; try assumption; apply (IH r Hl); assumption.
Qed.

Lemma rm_zrange_NoDup a b : NoDup (zrange a b).
Proof.
  unfold zrange. apply FinFun.Injective_map_NoDup; [|apply seq_NoDup]. intros x y H. lia.
Qed.

Lemma slice_map_getn (t : dna) a b : 0 <= a <= b -> b <= zlen t -> slice t a b = map (getn t) (zrange a b).
Proof.
  intros H1 H2. remember (Z.to_nat (b - a)) as n eqn:En. revert a H1 En.
  induction n as [|n IH]; intros a H1 En.
  - assert (a = b) by lia. subst b. rewrite slice_empty, zrange_empty by lia. reflexivity.
  - rewrite (slice_cons t a b), (zrange_cons' a b) by lia. cbn [map]. f_equal. apply IH; lia.
Qed.

(* distinct positions P paired with ANY reference r of the same length: the choices hold on t iff t
   differs from the reference at every position *)
Lemma ec_choices_any_reference (P : list Z) (r s t : dna) :
  NoDup P -> List.length P = List.length r -> Forall (fun i => 0 <= i < zlen t) P ->
  (Forall (fun i => holds (ec_choice (rev (combine P r)) s i) t) P <->
   Forall2 (fun x y => x <> y) (map (getn t) P) r).
Proof.
  intros Hnd Hlen Hb. rewrite Forall2_map_combine by exact Hlen.
  set (Q := fun i => holds (ec_choice (rev (combine P r)) s i) t).
  assert (HQ : Forall Q P <-> Forall (fun p => Q (fst p)) (combine P r)).
  { rewrite <- (Forall_map fst Q), rm_map_fst_combine by exact Hlen. reflexivity. }
  rewrite HQ. clear HQ. unfold Q. clear Q.
  assert (Hkeys : NoDup (map fst (rev (combine P r)))).
  { rewrite map_rev, rm_map_fst_combine by exact Hlen. apply NoDup_rev. exact Hnd. }
  rewrite Forall_forall in Hb. rewrite !Forall_forall.
  split; intros H p Hp; specialize (H p Hp);
    (assert (Hi : 0 <= fst p < zlen t)
       by (apply Hb; destruct p as [i y]; apply in_combine_l in Hp; exact Hp));
    apply (holds_ec_choice_found (rev (combine P r)) s t (fst p) p Hi
             (find_key_nodup _ p Hkeys (proj1 (in_rev _ _) Hp))); exact H.
Qed.

(* positions ix (repetitions allowed) paired with the letters of s at these positions *)
Lemma ec_choices_own_reference (ix : list Z) (s t : dna) :
  Forall (fun i => 0 <= i < zlen t) ix ->
  (Forall (fun i => holds (ec_choice (rev (combine ix (map (getn s) ix))) s i) t) ix <->
   Forall (fun i => getn t i <> getn s i) ix).
Proof.
  intros Hb. rewrite Forall_forall in Hb. rewrite !Forall_forall.
  assert (Hfind : forall i, In i ix -> exists p,
            find (fun q => fst q =? i) (rev (combine ix (map (getn s) ix))) = Some p /\ snd p = getn s i).
  { intros i Hi.
    destruct (find_key_some (rev (combine ix (map (getn s) ix))) i) as [p [Hf [Hin Hk]]].
    - rewrite map_rev, rm_map_fst_combine by (rewrite map_length; reflexivity). apply in_rev in Hi. exact Hi.
    - exists p. split; [exact Hf|]. apply in_rev in Hin. apply in_combine_map in Hin. rewrite Hin, Hk. reflexivity. }
  split; intros H i Hi; specialize (H i Hi); destruct (Hfind i Hi) as [p [Hf Hs]];
    pose proof (holds_ec_choice_found _ s t i p (Hb i Hi) Hf) as Hh; rewrite Hs in Hh; apply Hh; exact H.
Qed.

(* location mode, a location that is not on strand -1, ANY reference as long as the location *)
Lemma enforce_changes_location_any_reference l ref am (s t : dna) :
  loc_in l (zlen s) -> lstrand l <> -1 -> zlen ref = loc_len l -> zlen t = zlen s ->
  let sp := SEnforceChanges l None ref (Some (n_positions l None)) am true in
  (Forall (fun r => holds r t) (restrict_nucleotides sp false s) <->
   exists e, evaluate sp t = Some e /\ passes e = true).
Proof.
  intros Hl Hst Hr Hz. cbv zeta. cbn [restrict_nucleotides].
  apply loc_in_bounds in Hl. destruct Hl as [H1 H2].
  destruct (Z.eqb_spec (lstrand l) (-1)) as [E|_]; [contradiction|].
  assert (Hlen : List.length (zrange (lstart l) (lend l)) = List.length ref).
  { rewrite LocProofs.zrange_length. unfold loc_len, zlen in Hr. lia. }
  rewrite (enforce_changes_pass l None ref am t (extract l t));
    [| reflexivity | rewrite extract_length by lia; rewrite <- Hlen; symmetry; apply LocProofs.zrange_length].
  rewrite extract_fwd, slice_map_getn by lia.
  rewrite <- (ec_choices_any_reference (zrange (lstart l) (lend l)) ref s t (rm_zrange_NoDup _ _) Hlen).
  - rewrite Forall_map. reflexivity.
  - apply Forall_forall. intros i Hi. apply in_zrange in Hi. lia.
Qed.

(* The hypothesis [forward_if_location] (the location of a location-mode instance is not on strand -1)
   was ADDED when the restrictions started to read the stored reference (dict(zip(positions,
   reference))): on strand -1 the reference read by initialisation is the reverse complement, so the
   restrictions would exclude the complement of the original nucleotide; see
   [enforce_changes_reverse_strand_refuted].  EnforceChanges' constructor never keeps strand -1
   (wf_spec has the same condition). *)
Definition forward_if_location (l : loc) (idx : option (list Z)) : Prop :=
  match idx with None => lstrand l <> -1 | Some _ => True end.

Theorem enforce_changes_restrictions_exact_partial : forall l idx ref am s t,
  changes_init l idx ref s -> forward_if_location l idx -> idx_covered l idx -> zlen t = zlen s ->
  let sp := SEnforceChanges l idx ref (Some (n_positions l idx)) am true in
  (Forall (fun r => holds r t) (restrict_nucleotides sp false s) <->
   exists e, evaluate sp t = Some e /\ passes e = true).
Proof.
  intros l idx ref am s t Hinit Hfw Hcov Hz.
  destruct idx as [ix|].
  - cbv zeta. cbn [restrict_nucleotides].
    cbn [changes_init idx_covered] in Hinit, Hcov.
    pose proof (take_indices_bounds s ix ref Hinit) as Hb.
    pose proof (take_indices_getn s ix ref Hinit) as ->.
    assert (Hbt : Forall (fun i => 0 <= i < zlen t) ix) by (rewrite Hz; exact Hb).
    rewrite (enforce_changes_pass l (Some ix) (map (getn s) ix) am t (map (getn t) ix));
      [| cbn [extract_subsequence]; apply take_indices_some; exact Hbt | rewrite !map_length; reflexivity].
    rewrite (Forall_map_filter_covered (fun r => holds r t)) by exact Hcov.
    rewrite Forall2_same_map.
    apply (ec_choices_own_reference ix s t Hbt).
  - cbn [changes_init] in Hinit. destruct Hinit as [Hl ->]. cbn [forward_if_location] in Hfw.
    pose proof (loc_in_bounds _ _ Hl) as [H1 H2].
    apply enforce_changes_location_any_reference; [exact Hl | exact Hfw | | exact Hz].
    unfold zlen. rewrite extract_length by lia. unfold loc_len. lia.
Qed.

Corollary enforce_changes_location_restrictions_exact : forall l am s t,
  loc_in l (zlen s) -> lstrand l <> -1 -> zlen t = zlen s ->
  let sp := SEnforceChanges l None (extract l s) (Some (loc_len l)) am true in
  (Forall (fun r => holds r t) (restrict_nucleotides sp false s) <->
   exists e, evaluate sp t = Some e /\ passes e = true).
Proof.
  intros l am s t Hl Hst Hz.
  apply (enforce_changes_restrictions_exact_partial l None (extract l s) am s t);
    [split; [exact Hl | reflexivity] | exact Hst | exact I | exact Hz].
Qed.

(* ANY stored reference (not necessarily read from the problem's sequence): the restrictions read the
   nucleotide to avoid in the reference, as the evaluation does.  Needed: in indices mode, distinct
   indices (for a repeated index the restrictions keep the last reference letter only, the evaluation
   compares each of them: t6_idx ... false above); in location mode, a location that is not on
   strand -1. *)
Definition reference_fits (l : loc) (idx : option (list Z)) (ref s : dna) : Prop :=
  match idx with
  | Some ix => NoDup ix /\ Forall (fun i => 0 <= i < zlen s) ix /\ List.length ref = List.length ix
  | None => loc_in l (zlen s) /\ lstrand l <> -1 /\ zlen ref = loc_len l
  end.

Theorem enforce_changes_restrictions_exact_any_reference : forall l idx ref am s t,
  reference_fits l idx ref s -> idx_covered l idx -> zlen t = zlen s ->
  let sp := SEnforceChanges l idx ref (Some (n_positions l idx)) am true in
  (Forall (fun r => holds r t) (restrict_nucleotides sp false s) <->
   exists e, evaluate sp t = Some e /\ passes e = true).
Proof.
  intros l idx ref am s t Hfit Hcov Hz.
  destruct idx as [ix|].
  - cbv zeta. cbn [restrict_nucleotides].
    cbn [reference_fits idx_covered] in Hfit, Hcov. destruct Hfit as (Hnd & Hb & Hlen).
    assert (Hbt : Forall (fun i => 0 <= i < zlen t) ix) by (rewrite Hz; exact Hb).
    rewrite (enforce_changes_pass l (Some ix) ref am t (map (getn t) ix));
      [| cbn [extract_subsequence]; apply take_indices_some; exact Hbt | rewrite map_length; symmetry; exact Hlen].
    rewrite (Forall_map_filter_covered (fun r => holds r t)) by exact Hcov.
    apply (ec_choices_any_reference ix ref s t Hnd (eq_sym Hlen) Hbt).
  - cbn [reference_fits] in Hfit. destruct Hfit as (Hl & Hst & Hr).
    apply enforce_changes_location_any_reference; assumption.
Qed.

(* REFUTED in location mode on strand -1 (a location EnforceChanges' constructor never keeps):
   location (0, 1, -1) on s = "A": the reference read from s is the reverse complement "T", the only
   restriction is "position 0 is not T", which t = "A" satisfies; the evaluation of t finds its
   reverse complement "T" equal to the reference (0 changes < 1). *)
Theorem enforce_changes_reverse_strand_refuted :
  exists l ref am s t,
    changes_init l None ref s /\ zlen t = zlen s /\
    let sp := SEnforceChanges l None ref (Some (n_positions l None)) am true in
    ~ (Forall (fun r => holds r t) (restrict_nucleotides sp false s) <->
       exists e, evaluate sp t = Some e /\ passes e = true).
Proof.
  exists (mkLoc 0 1 (-1)), [nT], None, [nA], [nA].
  split; [|split].
  - split; [|reflexivity]. unfold loc_in. cbn. lia.
  - reflexivity.
  - cbv zeta. rewrite <- lhsb_iff, <- rhsb_iff. intros [H _].
    assert (Hl : lhsb (SEnforceChanges (mkLoc 0 1 (-1)) None [nT] (Some (n_positions (mkLoc 0 1 (-1)) None)) None true)
                      [nA] [nA] = true) by (vm_compute; reflexivity).
    apply H in Hl. vm_compute in Hl. discriminate Hl.
Qed.

(* the same failure for an arbitrary reference in indices mode with a repeated index:
   indices [2; 2], reference "AC" on s = "AAA": the restrictions only say "position 2 is not C"
   (the last entry wins), t = "AAA" satisfies them and fails the evaluation (1 change < 2) *)
Theorem enforce_changes_repeated_index_refuted :
  exists l ix ref am s t,
    Forall (fun i => 0 <= i < zlen s) ix /\ List.length ref = List.length ix /\
    idx_covered l (Some ix) /\ zlen t = zlen s /\
    let sp := SEnforceChanges l (Some ix) ref (Some (n_positions l (Some ix))) am true in
    ~ (Forall (fun r => holds r t) (restrict_nucleotides sp false s) <->
       exists e, evaluate sp t = Some e /\ passes e = true).
Proof.
  exists (mkLoc 0 3 1), [2; 2], [nA; nC], None, [nA; nA; nA], [nA; nA; nA].
  assert (H2 : 0 <= 2 < zlen [nA; nA; nA]) by (change (zlen [nA; nA; nA]) with 3; lia).
  split; [|split; [|split; [|split]]].
  - repeat constructor; apply H2.
  - reflexivity.
  - cbn [idx_covered lstart lend]. repeat constructor; lia.
  - reflexivity.
  - cbv zeta. rewrite <- lhsb_iff, <- rhsb_iff. intros [H _].
    assert (Hl : lhsb (SEnforceChanges (mkLoc 0 3 1) (Some [2; 2]) [nA; nC]
                         (Some (n_positions (mkLoc 0 3 1) (Some [2; 2]))) None true)
                      [nA; nA; nA] [nA; nA; nA] = true) by (vm_compute; reflexivity).
    apply H in Hl. vm_compute in Hl. discriminate Hl.
Qed.

(* REFUTED in indices mode without the coverage hypothesis: EnforceChanges(minimum_percent=100,
   location=(0, 1), indices=[1]) on s = "AA" (reference "A", minimum 1): no restriction at all (index 1
   is outside the location), but t = s fails the evaluation (0 changes < 1). *)
Theorem enforce_changes_restrictions_refuted :
  exists l idx ref am s t,
    wf_spec (SEnforceChanges l idx ref (Some (n_positions l idx)) am true) (zlen s) /\
    changes_init l idx ref s /\ zlen t = zlen s /\
    let sp := SEnforceChanges l idx ref (Some (n_positions l idx)) am true in
    ~ (Forall (fun r => holds r t) (restrict_nucleotides sp false s) <->
       exists e, evaluate sp t = Some e /\ passes e = true).
Proof.
  exists (mkLoc 0 1 1), (Some [1]), [nA], None, [nA; nA], [nA; nA].
  split; [|split; [|split]].
  - cbn [wf_spec]. split; [reflexivity|]. constructor; [|constructor]. change (zlen [nA; nA]) with 2. lia.
  - reflexivity.
  - reflexivity.
  - cbv zeta. intros [H _]. destruct (H (Forall_nil _)) as [e [He Hp]].
    vm_compute in He. injection He as <-. vm_compute in Hp. discriminate Hp.
Qed.

(* ================================================================== 4. AvoidRareCodons *)

Lemma qsum_neg_nonpos l : Forall (fun q => (q < 0)%Q) l -> (qsum l <= 0)%Q.
Proof.
  intros H. induction H as [|x l Hx _ IH]; [unfold qsum; cbn [fold_right]; lra|].
  change (qsum (x :: l)) with (x + qsum l)%Q. lra.
Qed.

Lemma qsum_neg_iff l : Forall (fun q => (q < 0)%Q) l -> ((0 <= qsum l)%Q <-> l = []).
Proof.
  intros H. destruct H as [|x l Hx Hl].
  - split; [reflexivity|]. intros _. unfold qsum. cbn [fold_right]. lra.
  - split; [|discriminate]. intros H0. exfalso.
    change (qsum (x :: l)) with (x + qsum l)%Q in H0. pose proof (qsum_neg_nonpos l Hl). lra.
Qed.

Lemma codons_fuel_shape f (X c : dna) : In c (codons_fuel f X) -> exists a b d, c = [a; b; d].
Proof.
  revert X. induction f as [|f IH]; intros X H; [destruct H|].
  destruct X as [|a [|b [|d X]]]; cbn [codons_fuel] in H; try (destruct H; fail).
  destruct H as [<-|H]; [exists a, b, d; reflexivity | apply (IH X H)].
Qed.

Lemma qassoc_In c fr v : qassoc c fr = Some v -> In (c, v) fr.
Proof.
  induction fr as [|[d w] fr IH]; cbn [qassoc]; intros H; [discriminate H|].
  destruct (seq_eqb c d) eqn:E.
  - apply seq_eqb_eq in E. injection H as ->. subst d. left. reflexivity.
  - right. apply IH. exact H.
Qed.

Lemma qassoc_nodup c fr v : NoDup (map fst fr) -> In (c, v) fr -> qassoc c fr = Some v.
Proof.
  induction fr as [|[d w] fr IH]; intros Hnd Hin; [destruct Hin|].
  cbn [map fst] in Hnd. inversion Hnd as [|? ? Hnotin Hnd']; subst.
  cbn [qassoc]. destruct (seq_eqb c d) eqn:E.
  - apply seq_eqb_eq in E. subst d. destruct Hin as [Heq|Hin]; [injection Heq as ->; reflexivity|].
    exfalso. apply Hnotin. apply in_map_iff. exists (c, v). split; [reflexivity | exact Hin].
  - destruct Hin as [Heq|Hin]; [|apply IH; assumption].
    injection Heq as -> ->. assert (Hr : seq_eqb c c = true) by (apply seq_eqb_eq; reflexivity).
    rewrite Hr in E. discriminate E.
Qed.

Definition nonrare_codons (fr : list (dna * Q)) (mf : Q) : list dna :=
  map fst (filter (fun p => Qle_bool mf (snd p)) fr).
Definition is_rare_codon (fr : list (dna * Q)) (mf : Q) (c : dna) : bool :=
  match qassoc c fr with Some f => negb (Qle_bool mf f) | None => false end.

Lemma not_rare_iff fr mf a b d : table_total fr -> NoDup (map fst fr) ->
  (is_rare_codon fr mf [a; b; d] = false <-> In [a; b; d] (nonrare_codons fr mf)).
Proof.
  intros Htot Hnd. unfold is_rare_codon, nonrare_codons. destruct (Htot a b d) as [v Hv]. rewrite Hv.
  rewrite negb_false_iff. split.
  - intros H. apply in_map_iff. exists ([a; b; d], v). split; [reflexivity|].
    apply filter_In. split; [apply qassoc_In; exact Hv | exact H].
  - intros H. apply in_map_iff in H. destruct H as [[c v'] [Hc Hin]]. cbn [fst] in Hc. subst c.
    apply filter_In in Hin. destruct Hin as [Hin Hle]. cbn [snd] in Hle.
    rewrite (qassoc_nodup _ _ _ Hnd Hin) in Hv. injection Hv as <-. exact Hle.
Qed.

(* the evaluation passes iff no codon of the region is rare *)
Lemma rare_codons_pass fr mf l (t : dna) cods : get_codons l t = Some cods ->
  ((exists e, evaluate (SRareCodons fr mf l) t = Some e /\ passes e = true) <->
   forall c, In c cods -> is_rare_codon fr mf c = false).
Proof.
  intros Hc. cbn [evaluate]. unfold eval_rare_codons. rewrite Hc. cbv zeta.
  fold (is_rare_codon fr mf).
  set (g := fun c : dna => match qassoc c fr with Some f => (f - mf)%Q | None => 0%Q end).
  assert (Hneg : Forall (fun q => (q < 0)%Q) (map g (filter (is_rare_codon fr mf) cods))).
  { apply Forall_forall. intros q Hq. apply in_map_iff in Hq. destruct Hq as [c [<- Hin]].
    apply filter_In in Hin. destruct Hin as [_ Hr]. unfold is_rare_codon in Hr. unfold g.
    destruct (qassoc c fr) as [f|]; [|discriminate Hr]. apply negb_true_iff in Hr.
    assert (Hn : ~ (mf <= f)%Q) by (intros Hle; apply Qle_bool_iff in Hle; congruence).
    apply Qnot_le_lt in Hn. lra. }
  assert (Hnil : map g (filter (is_rare_codon fr mf) cods) = [] <->
                 forall c, In c cods -> is_rare_codon fr mf c = false).
  { split.
    - intros H c Hin. apply map_eq_nil in H.
      destruct (is_rare_codon fr mf c) eqn:E; [|reflexivity]. exfalso.
      assert (Hf : In c (filter (is_rare_codon fr mf) cods)) by (apply filter_In; split; assumption).
      rewrite H in Hf. destruct Hf.
    - intros H. rewrite (filter_none _ cods H). reflexivity. }
  rewrite <- Hnil, <- (qsum_neg_iff _ Hneg). split.
  - intros [e [He Hp]]. injection He as <-. apply passes_score in Hp. exact Hp.
  - intros H. eexists. split; [reflexivity|]. apply passes_score. exact H.
Qed.

Lemma zrange_step3 a n : 0 <= n -> zrange_step a (a + 3 * n) 3 = map (fun k => a + 3 * k) (zrange 0 n).
Proof.
  intros Hn. unfold zrange_step. destruct (Z.leb_spec (a + 3 * n) a) as [H|H].
  - assert (n = 0) by lia. subst n. reflexivity.
  - replace (a + 3 * n - a + 3 - 1) with (n * 3 + 2) by lia.
    rewrite Z.div_add_l by lia. change (2 / 3) with 0. rewrite Z.add_0_r.
    unfold zrange. rewrite map_map, Z.sub_0_r. apply map_ext. intros k. lia.
Qed.

Theorem rare_codons_restrictions_exact : forall fr mf l s t,
  loc_in l (zlen s) -> (loc_len l) mod 3 = 0 -> table_total fr -> NoDup (map fst fr) ->
  zlen t = zlen s ->
  (Forall (fun r => holds r t) (restrict_nucleotides (SRareCodons fr mf l) false s) <->
   exists e, evaluate (SRareCodons fr mf l) t = Some e /\ passes e = true).
Proof.
  intros fr mf l s t Hl Hmod Htot Hnd Hz. rewrite <- Hz in Hl.
  set (n := loc_len l / 3).
  assert (Hlen : loc_len l = 3 * n).
  { unfold n. pose proof (Z.div_mod (loc_len l) 3 ltac:(lia)) as Hd. rewrite Hmod in Hd. lia. }
  assert (Hn : 0 <= n) by (destruct Hl as (? & ? & ? & ?); unfold loc_len in Hlen; lia).
  (* the evaluation side *)
  assert (Hcods : get_codons l t = Some (map (codon_of l t) (zrange 0 n))).
  { unfold get_codons. cbv zeta. rewrite (extract_zlen l t Hl), Hmod. change (0 =? 0) with true. cbv iota.
    rewrite (codons_extract l t n Hl Hlen Hn). reflexivity. }
  rewrite (rare_codons_pass fr mf l t _ Hcods).
  assert (Hrhs : (forall c, In c (map (codon_of l t) (zrange 0 n)) -> is_rare_codon fr mf c = false) <->
                 (forall k, 0 <= k < n -> In (codon_of l t k) (nonrare_codons fr mf))).
  { assert (Hshape : forall k, 0 <= k < n -> exists a b d, codon_of l t k = [a; b; d]).
    { intros k Hk. apply (codons_fuel_shape (List.length (extract l t)) (extract l t)).
      fold (codons (extract l t)). rewrite (codons_extract l t n Hl Hlen Hn).
      apply in_map. apply in_zrange. exact Hk. }
    split.
    - intros H k Hk. destruct (Hshape k Hk) as [a [b [d E]]]. rewrite E.
      apply (not_rare_iff fr mf a b d Htot Hnd). rewrite <- E. apply H. apply in_map. apply in_zrange. exact Hk.
    - intros H c Hc. apply in_map_iff in Hc. destruct Hc as [k [<- Hk]]. apply in_zrange in Hk.
      destruct (Hshape k Hk) as [a [b [d E]]]. rewrite E. apply (not_rare_iff fr mf a b d Htot Hnd).
      rewrite <- E. apply H. exact Hk. }
  rewrite Hrhs. clear Hrhs.
  (* the restriction side *)
  cbn [restrict_nucleotides]. fold (nonrare_codons fr mf).
  replace (lend l) with (lstart l + 3 * n) at 1 by (unfold loc_len in Hlen; lia).
  rewrite zrange_step3 by exact Hn. rewrite !Forall_map, Forall_forall.
  set (sigma := fun k => if lstrand l =? -1 then n - 1 - k else k).
  assert (Hch : forall k, 0 <= k < n ->
            rchoice (lstart l + 3 * k) (lstart l + 3 * k + 3)
              (nodup_dna (if lstrand l =? -1 then map rc (nonrare_codons fr mf) else nonrare_codons fr mf)) =
            std_choice (codon_loc l (sigma k)) (nonrare_codons fr mf)).
  { intros k Hk. unfold std_choice, codon_loc, sigma. unfold loc_len in Hlen.
    destruct Hl as (_ & _ & _ & [E|[E|E]]); rewrite E.
    - change (0 <=? 1) with true. change (1 =? -1) with false. cbv iota. cbn [lstart lend lstrand].
      change (1 =? -1) with false. cbv iota. unfold rchoice. f_equal; lia.
    - change (0 <=? -1) with false. change (-1 =? -1) with true. cbv iota. cbn [lstart lend lstrand].
      change (-1 =? -1) with true. cbv iota. unfold rchoice. f_equal; lia.
    - change (0 <=? 0) with true. change (0 =? -1) with false. cbv iota. cbn [lstart lend lstrand].
      change (1 =? -1) with false. cbv iota. unfold rchoice. f_equal; lia. }
  assert (Hsig : forall k, 0 <= k < n -> 0 <= sigma k < n /\ sigma (sigma k) = k).
  { intros k Hk. unfold sigma. destruct (lstrand l =? -1); lia. }
  split.
  - intros H k Hk. destruct (Hsig k Hk) as [Hs1 Hs2].
    specialize (H (sigma k)). rewrite in_zrange in H. specialize (H Hs1).
    rewrite (Hch _ Hs1), Hs2 in H. apply (holds_std l t k n _ Hl Hlen Hk). exact H.
  - intros H k Hk. apply in_zrange in Hk. destruct (Hsig k Hk) as [Hs1 _].
    rewrite (Hch k Hk). apply (holds_std l t (sigma k) n _ Hl Hlen Hs1). apply H. exact Hs1.
Qed.

(* the hypothesis [NoDup (map fst fr)] (the table is a Python dict: one entry per codon) is needed:
   with a repeated key, evaluate reads the first entry while restrict_nucleotides keeps every codon
   that has SOME frequent entry.  Table: AAA -> 0 followed by the total table tabA (AAA -> 1),
   threshold 1/2, t = AAA: the restriction allows AAA, the evaluation finds it rare. *)
Lemma tabDup_total : table_total tabDup.
Proof. intros a b c. destruct a, b, c; eexists; vm_compute; reflexivity. Qed.

Theorem rare_codons_restrictions_refuted_without_unique_keys :
  exists fr mf l s t,
    loc_in l (zlen s) /\ (loc_len l) mod 3 = 0 /\ table_total fr /\ zlen t = zlen s /\
    ~ (Forall (fun r => holds r t) (restrict_nucleotides (SRareCodons fr mf l) false s) <->
       exists e, evaluate (SRareCodons fr mf l) t = Some e /\ passes e = true).
Proof.
  exists tabDup, (1 # 2)%Q, (mkLoc 0 3 1), [nA; nA; nA], [nA; nA; nA].
  split; [|split; [|split; [|split]]].
  - unfold loc_in. cbn. lia.
  - reflexivity.
  - exact tabDup_total.
  - reflexivity.
  - rewrite <- lhsb_iff, <- rhsb_iff. intros [H _].
    assert (Hl : lhsb (SRareCodons tabDup (1 # 2) (mkLoc 0 3 1)) [nA; nA; nA] [nA; nA; nA] = true)
      by (vm_compute; reflexivity).
    apply H in Hl. vm_compute in Hl. discriminate Hl.
Qed.

(* ================================================================== the five classes together *)

(* the shapes whose constraints are enforced by nucleotide restrictions (besides EnforceTranslation) *)
Definition c04_class (sp : spec) : Prop :=
  match sp with
  | SAvoidChanges _ _ _ me => me = 0
  | SEnforceChanges _ _ _ (Some _) _ true => True
  | SEnforceSequence _ _ | SEnforceChoice _ _ | SRareCodons _ _ _ => True
  | _ => False
  end.

(* what the constructors and initialized_on_problem establish on the problem's sequence s, plus
   - for the two classes with an indices mode: the indices lie inside the location (always true when
     the user gives indices without a location; see the *_refuted theorems for the other case),
   - for AvoidRareCodons: one table entry per codon (a Python dict). *)
Definition c04_init (sp : spec) (s : dna) : Prop :=
  match sp with
  | SAvoidChanges l idx tg _ => changes_init l idx tg s /\ idx_covered l idx
  | SEnforceChanges l idx ref mn _ _ =>
      changes_init l idx ref s /\ forward_if_location l idx /\ idx_covered l idx /\
      mn = Some (n_positions l idx)
  | SEnforceSequence _ l | SEnforceChoice _ l => loc_in l (zlen s)
  | SRareCodons fr _ l =>
      loc_in l (zlen s) /\ (loc_len l) mod 3 = 0 /\ table_total fr /\ NoDup (map fst fr)
  | _ => True
  end.

Theorem enforced_restrictions_mean_pass : forall sp s t,
  c04_class sp -> c04_init sp s -> zlen t = zlen s ->
  (Forall (fun r => holds r t) (restrict_nucleotides sp false s) <->
   exists e, evaluate sp t = Some e /\ passes e = true).
Proof.
  intros sp s t Hc Hi Hz. destruct sp; cbn [c04_class] in Hc; try contradiction.
  - subst max_edits. destruct Hi as [H1 H2]. apply avoid_changes_restrictions_exact_partial; assumption.
  - destruct minimum as [m|]; [|contradiction]. destruct amount_percent_is_100; [|contradiction].
    destruct Hi as (H1 & Hfw & H2 & H3). injection H3 as ->.
    apply (enforce_changes_restrictions_exact_partial l indices reference amount s t); assumption.
  - apply enforce_sequence_restrictions_exact; assumption.
  - apply enforce_choice_restrictions_exact; assumption.
  - destruct Hi as (H1 & H2 & H3 & H4). apply rare_codons_restrictions_exact; assumption.
Qed.
