(* C17 lemmas (corollaries of the C19 lemmas on differences). *)
From Coq Require Import ZArith QArith Bool List Lia Sorting.Sorted.
From DC Require Import Model.Base Model.Bio Model.Report Proofs.BioB.
Import ListNotations.
Open Scope Z_scope.

Lemma number_of_edits_counts_mismatches : forall cur orig,
  number_of_edits cur orig = zlen (filter (fun b : bool => b) (diff_array cur orig)).
Proof. intros. unfold number_of_edits. apply diff_count_spec. Qed.

Lemma edit_features_spans : forall cur orig,
  map (fun f => (ef_start f, ef_end f)) (edit_features cur orig) = diff_segments cur orig.
Proof.
  intros. unfold edit_features. rewrite map_map. simpl.
  induction (diff_segments cur orig) as [|[a b] l IH]; simpl; [reflexivity|]. rewrite IH. reflexivity.
Qed.

Lemma edit_features_labels : forall cur orig f, In f (edit_features cur orig) ->
  ef_before f = slice orig (ef_start f) (ef_end f) /\ ef_after f = slice cur (ef_start f) (ef_end f).
Proof.
  intros cur orig f H. unfold edit_features in H. apply in_map_iff in H.
  destruct H as [[a b] [Hf _]]. subst f. simpl. split; reflexivity.
Qed.

Lemma edit_features_cover_exactly_the_edits : forall cur orig, List.length cur = List.length orig ->
  (forall i, (exists f, In f (edit_features cur orig) /\ ef_start f <= i < ef_end f) <-> mismatch cur orig i) /\
  StronglySorted (fun p q => snd p < fst q) (map (fun f => (ef_start f, ef_end f)) (edit_features cur orig)).
Proof.
  intros cur orig Hlen. rewrite edit_features_spans.
  destruct (diff_segments_spec cur orig Hlen) as (Hcov & _ & Hsorted).
  split; [|exact Hsorted].
  intro i. rewrite <- Hcov. split.
  - intros [f [Hin Hi]]. exists (ef_start f, ef_end f). split; [|exact Hi].
    rewrite <- edit_features_spans. apply in_map_iff. exists f. split; [reflexivity|exact Hin].
  - intros [p [Hin Hi]]. rewrite <- edit_features_spans in Hin. apply in_map_iff in Hin.
    destruct Hin as [f [Hf Hin]]. exists f. split; [exact Hin|]. subst p. exact Hi.
Qed.

Lemma summary_success_iff_all_pass : forall scores,
  summary_is_success scores = true <-> forall q, In q scores -> Qle_bool 0 q = true.
Proof.
  intro scores. unfold summary_is_success, failed_count. rewrite Z.eqb_eq. split.
  - intros H q Hq. destruct (Qle_bool 0 q) eqn:E; [reflexivity|].
    assert (Hin : In q (filter (fun q => negb (Qle_bool 0 q)) scores)) by (apply filter_In; rewrite E; auto).
    destruct (filter (fun q => negb (Qle_bool 0 q)) scores); [destruct Hin|]. unfold zlen in H. simpl in H. lia.
  - intros H. induction scores as [|q l IH]; [reflexivity|]. simpl.
    rewrite (H q (or_introl eq_refl)). simpl. apply IH. intros q' Hq'. apply H. right; exact Hq'.
Qed.
