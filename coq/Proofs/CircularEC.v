(* EnforceChanges in circular problems (after fix F24): every one of the three shifted copies, evaluated
   on the three-copy view, has the score of the specification on the sequence itself; hence the circular
   evaluation passes iff the specification passes on the sequence. *)
From Coq Require Import ZArith QArith Bool List Lia Ascii String.
From DC Require Import Model.Base Model.Loc Model.Bio Model.Pattern Model.MSpace Model.Specs Model.Solver Model.Circular
                       Proofs.SpecsDefs Proofs.CircularProofs Proofs.CircularAC.
Import ListNotations.
Open Scope Z_scope.

Definition ec_score (n_indices : Z) (mn : option Z) (am : option Q) (sub ref : dna) : option Q :=
  let n_diff := n_indices - zlen (indices_where (fun b : bool => negb b) (diff_array sub ref) 0) in
  match mn, am with
  | Some m, _ => Some (zq (n_diff - m))
  | None, Some a => Some (- Qabs.Qabs (zq n_diff - a))%Q
  | None, None => None
  end.

Lemma ec_score_form l idx ref mn am s :
  option_map score (eval_enforce_changes l idx ref mn am s)
  = match extract_subsequence l idx s with
    | None => None
    | Some sub => if negb (zlen sub =? zlen ref) then None
                  else ec_score (match idx with Some is_ => zlen is_ | None => loc_len l end) mn am sub ref
    end.
Proof.
  unfold eval_enforce_changes, ec_score.
  destruct (extract_subsequence l idx s) as [sub|]; [|reflexivity].
  destruct (negb (zlen sub =? zlen ref)); [reflexivity|].
  rewrite ac_zlen_absolute_positions.
  destruct mn as [m|]; [reflexivity|]. destruct am as [a|]; reflexivity.
Qed.

Lemma ec_n_indices_shift l (idx : option (list Z)) d :
  match option_map (map (fun i => i + d)) idx with Some is_ => zlen is_ | None => loc_len (loc_add l d) end
  = match idx with Some is_ => zlen is_ | None => loc_len l end.
Proof.
  destruct idx as [is_|]; simpl.
  - unfold zlen. rewrite map_length. reflexivity.
  - unfold loc_len, loc_add. simpl. lia.
Qed.

Lemma shifted_changes_copy_score : forall l idx ref mn am full s k,
  0 <= lstart l -> lstart l <= lend l -> lend l <= zlen s -> indices_inside idx (zlen s) ->
  (k = 0 \/ k = 1 \/ k = 2) ->
  option_map score (Specs.evaluate (shift_enforce_changes l idx ref mn am full (k * zlen s)) (triple s))
  = option_map score (eval_enforce_changes l idx ref mn am s).
Proof.
  intros l idx ref mn am full s k H0 H1 H2 Hin Hk.
  unfold shift_enforce_changes. cbn [Specs.evaluate].
  rewrite !ec_score_form. rewrite ac_extract_subsequence_shift by assumption.
  rewrite ec_n_indices_shift. reflexivity.
Qed.

Theorem enforce_changes_circular_iff_linear : forall l idx ref mn am full s,
  0 <= lstart l -> lstart l <= lend l -> lend l <= zlen s -> indices_inside idx (zlen s) ->
  circular_all_pass [SEnforceChanges l idx ref mn am full] s
  = match eval_enforce_changes l idx ref mn am s with Some e => passes e | None => false end.
Proof.
  intros l idx ref mn am full s H0 H1 H2 Hin.
  unfold circular_all_pass, circular_evaluations.
  cbn [flat_map circularized map app forallb].
  rewrite !ac_recenter_passes.
  pose proof (shifted_changes_copy_score l idx ref mn am full s 0 H0 H1 H2 Hin (or_introl eq_refl)) as E0.
  pose proof (shifted_changes_copy_score l idx ref mn am full s 1 H0 H1 H2 Hin (or_intror (or_introl eq_refl))) as E1.
  pose proof (shifted_changes_copy_score l idx ref mn am full s 2 H0 H1 H2 Hin (or_intror (or_intror eq_refl))) as E2.
  rewrite Z.mul_0_l in E0. rewrite Z.mul_1_l in E1.
  rewrite E0, E1, E2.
  destruct (eval_enforce_changes l idx ref mn am s) as [e|]; [|reflexivity].
  simpl. unfold passes. destruct (Qle_bool 0 (score e)); reflexivity.
Qed.
