(* C13 lemmas: a successful circular solve holds across the origin. *)
From Coq Require Import ZArith QArith Bool List Lia.
From DC Require Import Model.Base Model.Loc Model.Bio Model.Pattern Model.MSpace Model.Specs Model.Solver Model.Circular
                       Proofs.SpecsDefs Proofs.PatternProofs Proofs.BioB Proofs.SpecsEval.
Import ListNotations.
Open Scope Z_scope.

(* ------------------------------------------------------------------ *)
(* helpers *)

Lemma c_zlen_app {X} (l1 l2 : list X) : zlen (l1 ++ l2) = zlen l1 + zlen l2.
Proof. unfold zlen. rewrite app_length. lia. Qed.

Lemma zlen_triple (s : dna) : zlen (triple s) = 3 * zlen s.
Proof. unfold triple. rewrite !c_zlen_app. lia. Qed.

(* a slice lying inside the left part of an append *)
Lemma slice_app_left {X} (l1 l2 : list X) a b : 0 <= a -> a <= b -> b <= zlen l1 ->
  slice (l1 ++ l2) a b = slice l1 a b.
Proof.
  intros Ha Hab Hb. unfold slice. unfold zlen in Hb.
  rewrite skipn_app.
  replace (Z.to_nat a - List.length l1)%nat with 0%nat by lia.
  cbn [skipn]. rewrite firstn_app.
  rewrite skipn_length.
  replace (Z.to_nat (b - a) - (List.length l1 - Z.to_nat a))%nat with 0%nat by lia.
  cbn [firstn]. apply app_nil_r.
Qed.

(* the three-copy view and the wrapped sequence agree on every window starting in the first copy *)
Lemma wrap_slice (s : dna) k i : 0 <= i -> 0 <= k -> i + k <= zlen s + (k - 1) -> k - 1 <= zlen s ->
  slice (triple s) i (i + k) = slice (s ++ firstn (Z.to_nat (k - 1)) s) i (i + k).
Proof.
  intros Hi Hk Hik HkL.
  assert (Hsplit : triple s = (s ++ firstn (Z.to_nat (k - 1)) s) ++ (skipn (Z.to_nat (k - 1)) s ++ s)).
  { unfold triple. rewrite <- app_assoc. f_equal.
    rewrite app_assoc. rewrite firstn_skipn. reflexivity. }
  rewrite Hsplit. apply slice_app_left; [lia | lia |].
  rewrite c_zlen_app.
  destruct (Z_le_gt_dec 0 (k - 1)) as [H0|H0].
  - rewrite zlen_firstn by lia. lia.
  - replace (Z.to_nat (k - 1)) with 0%nat by lia. cbn [firstn]. rewrite zlen_nil. lia.
Qed.

Lemma zlen0_nil {X} (l : list X) : zlen l = 0 -> l = [].
Proof. destruct l; [reflexivity|]. unfold zlen. simpl. lia. Qed.

(* ------------------------------------------------------------------ *)

(* final-check dominance: whatever the solver did on the three-copy view, a normal return means
   the circular evaluation of EVERY constraint passes, and the length is kept *)
Theorem circular_resolve_done : forall view_resolve constraints s s',
  (forall t o t', view_resolve t = (o, t') -> zlen t' = zlen t) ->
  circular_resolve view_resolve constraints true s = (ODone, s') ->
  circular_all_pass constraints s' = true /\ zlen s' = zlen s.
Proof.
  intros view_resolve constraints s s' Hlen Hres.
  unfold circular_resolve in Hres.
  destruct (view_resolve (triple s)) as [o s3] eqn:Hv.
  pose proof (Hlen _ _ _ Hv) as Hl3. rewrite zlen_triple in Hl3.
  pose proof (zlen_nonneg s) as Hnn.
  destruct o; try discriminate Hres.
  destruct (circular_all_pass constraints (slice s3 (zlen s) (2 * zlen s))) eqn:Hp;
    [|discriminate Hres].
  assert (Hs' : s' = slice s3 (zlen s) (2 * zlen s)) by congruence.
  subst s'. split; [exact Hp|].
  rewrite zlen_slice by lia. lia.
Qed.

Theorem circular_resolve_outcomes : forall view_resolve constraints fc s o s',
  circular_resolve view_resolve constraints fc s = (o, s') ->
  o = ODone \/ o = ONoSolution \/ (exists t, view_resolve (triple s) = (o, t) /\ s' = s).
Proof.
  intros view_resolve constraints fc s o s' Hres.
  unfold circular_resolve in Hres.
  destruct (view_resolve (triple s)) as [o3 s3] eqn:Hv.
  destruct o3.
  - destruct fc.
    + destruct (circular_all_pass constraints (slice s3 (zlen s) (2 * zlen s)));
        injection Hres as Ho Hs; subst o; auto.
    + injection Hres as Ho Hs; subst o; auto.
  - injection Hres as Ho Hs. subst o. auto.
  - injection Hres as Ho Hs. subst o s'. right. right. exists s3. split; reflexivity.
  - injection Hres as Ho Hs. subst o s'. right. right. exists s3. split; reflexivity.
Qed.

(* the circular evaluation sees across the origin: a whole-sequence AvoidPattern that passes on
   the three-copy view has no forward occurrence in the wrapped sequence s ++ (first k-1 of s), i.e.
   none spanning the junction either *)
Theorem pattern_wraparound : forall P s st, 1 <= psize P -> psize P <= zlen s + 1 ->
  passes (eval_avoid_pattern P (mkLoc 0 (3 * zlen s) st) (triple s)) = true -> (st = 1 \/ st = 0) ->
  forall i, 0 <= i < zlen s ->
    occurs_fwd P (s ++ firstn (Z.to_nat (psize P - 1)) s) i = false.
Proof.
  intros P s st Hk HkL Hpass Hst i Hi.
  assert (Hin : loc_in (mkLoc 0 (3 * zlen s) st) (zlen (triple s))).
  { unfold loc_in. cbn [lstart lend lstrand]. rewrite zlen_triple. lia. }
  pose proof (avoid_pattern_meaning P (mkLoc 0 (3 * zlen s) st) (triple s) Hk Hin) as Hm.
  cbv zeta in Hm. destruct Hm as [_ [Hiff _]].
  apply Hiff in Hpass.
  assert (Hfwd : n_fwd P (triple s) 0 (3 * zlen s) = 0).
  { unfold n_occ in Hpass. cbn [lstart lend lstrand] in Hpass.
    assert (Hf0 : 0 <= n_fwd P (triple s) 0 (3 * zlen s)) by (unfold n_fwd; apply zlen_nonneg).
    assert (Hr0 : 0 <= n_rev P (triple s) 0 (3 * zlen s)) by (unfold n_rev; apply zlen_nonneg).
    destruct Hst as [Hst|Hst]; subst st.
    - cbn in Hpass. exact Hpass.
    - change (0 =? 1) with false in Hpass. change (0 =? -1) with false in Hpass.
      cbv iota in Hpass. destruct (is_palindromic P); lia. }
  unfold n_fwd in Hfwd. apply zlen0_nil in Hfwd.
  assert (Hocc3 : occurs_fwd P (triple s) i = false).
  { destruct (occurs_fwd P (triple s) i) eqn:Ho; [|reflexivity]. exfalso.
    assert (HIn : In i (filter (fun i0 => (i0 + psize P <=? 3 * zlen s) && occurs_fwd P (triple s) i0)
                               (zrange 0 (3 * zlen s + 1)))).
    { apply filter_In. split.
      - apply pz_in_zrange. lia.
      - rewrite Ho. destruct (Z.leb_spec (i + psize P) (3 * zlen s)) as [Hle|Hgt]; [reflexivity|lia]. }
    rewrite Hfwd in HIn. destruct HIn. }
  rewrite SpecsLocalA.occurs_fwd_slice in Hocc3 by (rewrite ?zlen_triple; lia).
  rewrite SpecsLocalA.occurs_fwd_slice.
  - rewrite <- wrap_slice by lia. exact Hocc3.
  - lia.
  - lia.
  - rewrite c_zlen_app. rewrite zlen_firstn by lia. lia.
Qed.

(* same for a windowed GC constraint on the whole sequence: every cyclic window is within bounds *)
Theorem gc_wraparound : forall mini maxi w s, 1 <= w -> w <= zlen s + 1 ->
  passes (eval_gc mini maxi (Some w) (mkLoc 0 (3 * zlen s) 0) (triple s)) = true ->
  forall i, 0 <= i < zlen s ->
    let g := gc_frac (s ++ firstn (Z.to_nat (w - 1)) s) i w in (mini <= g)%Q /\ (g <= maxi)%Q.
Proof.
  intros mini maxi w s Hw HwL Hpass i Hi. cbv zeta.
  assert (Hin : loc_in (mkLoc 0 (3 * zlen s) 0) (zlen (triple s))).
  { unfold loc_in. cbn [lstart lend lstrand]. rewrite zlen_triple. lia. }
  assert (Hst : lstrand (mkLoc 0 (3 * zlen s) 0) <> -1) by (cbn [lstrand]; lia).
  pose proof (gc_windowed_meaning mini maxi w (mkLoc 0 (3 * zlen s) 0) (triple s) Hw Hin Hst) as Hm.
  cbv zeta in Hm. cbn [lstart lend] in Hm. destruct Hm as [_ [Hiff _]].
  pose proof (proj1 Hiff Hpass i) as Hb.
  assert (HIn : In i (zrange 0 (3 * zlen s - w + 1))) by (apply pz_in_zrange; lia).
  specialize (Hb HIn).
  unfold gc_frac in *. rewrite <- wrap_slice by lia. exact Hb.
Qed.

(* ------------------------------------------------------------------ *)
(* mirroring helpers *)

Lemma map3_length f : forall (x y z : dna) (n : nat),
  List.length x = n -> List.length y = n -> List.length z = n ->
  List.length (map3 f x y z) = n.
Proof.
  induction x as [|a x IH]; intros y z n Hx Hy Hz.
  - simpl in *. lia.
  - destruct y as [|b y]; [simpl in *; lia|]. destruct z as [|c z]; [simpl in *; lia|].
    simpl in *. destruct n as [|n]; [lia|]. f_equal. apply IH; lia.
Qed.

Lemma map3_nth f : forall (i : nat) (x y z : dna) a b c,
  nth_error x i = Some a -> nth_error y i = Some b -> nth_error z i = Some c ->
  nth_error (map3 f x y z) i = Some (f a b c).
Proof.
  induction i as [|i IH]; intros x y z a b c Hx Hy Hz;
    destruct x as [|a0 x]; destruct y as [|b0 y]; destruct z as [|c0 z];
    simpl in *; try discriminate.
  - congruence.
  - eapply IH; eassumption.
Qed.

Lemma c_nth_error_skipn {X} : forall (n : nat) (l : list X) i,
  nth_error (skipn n l) i = nth_error l (n + i).
Proof.
  induction n as [|n IH]; intros l i; [reflexivity|].
  destruct l as [|x l]; simpl.
  - destruct i; reflexivity.
  - apply IH.
Qed.

Lemma c_nth_error_firstn {X} : forall (n : nat) (l : list X) i, (i < n)%nat ->
  nth_error (firstn n l) i = nth_error l i.
Proof.
  induction n as [|n IH]; intros l i Hi; [lia|].
  destruct l as [|x l]; [reflexivity|].
  destruct i as [|i]; [reflexivity|]. simpl. apply IH. lia.
Qed.

Lemma nth_error_slice {X} (l : list X) a b i : 0 <= a -> 0 <= i < b - a ->
  nth_error (slice l a b) (Z.to_nat i) = nth_error l (Z.to_nat (a + i)).
Proof.
  intros Ha Hi. unfold slice.
  rewrite c_nth_error_firstn by lia. rewrite c_nth_error_skipn.
  f_equal. lia.
Qed.

(* mirroring: the result is three equal copies; an edit made in exactly one copy at a position is
   taken over, positions untouched in all three copies are kept *)
Theorem replace_circular_spec : forall s new, zlen new = 3 * zlen s ->
  exists s', replace_circular new = triple s' /\ zlen s' = zlen s /\
    forall i x, 0 <= i < zlen s -> nth_error s (Z.to_nat i) = Some x ->
      (forall a b c, nth_error new (Z.to_nat i) = Some a -> nth_error new (Z.to_nat (i + zlen s)) = Some b ->
                     nth_error new (Z.to_nat (i + 2 * zlen s)) = Some c ->
         (* all untouched *)
         (a = x -> b = x -> c = x -> nth_error s' (Z.to_nat i) = Some x) /\
         (* exactly one copy edited *)
         (a <> x -> b = x -> c = x -> nth_error s' (Z.to_nat i) = Some a) /\
         (a = x -> b <> x -> c = x -> nth_error s' (Z.to_nat i) = Some b) /\
         (a = x -> b = x -> c <> x -> nth_error s' (Z.to_nat i) = Some c)).
Proof.
  intros s new Hnew.
  pose proof (zlen_nonneg s) as HL.
  assert (Hdiv : zlen new / 3 = zlen s).
  { rewrite Hnew. rewrite Z.mul_comm. apply Z.div_mul. lia. }
  unfold replace_circular. cbv zeta. rewrite Hdiv.
  set (L := zlen s) in *.
  exists (map3 loony (slice new 0 L) (slice new L (2 * L)) (slice new (2 * L) (3 * L))).
  split; [reflexivity|]. split.
  - unfold zlen at 1. rewrite (map3_length loony _ _ _ (Z.to_nat L)).
    + lia.
    + pose proof (zlen_slice new 0 L ltac:(lia) ltac:(lia)) as H. unfold zlen in H at 1. lia.
    + pose proof (zlen_slice new L (2 * L) ltac:(lia) ltac:(lia)) as H. unfold zlen in H at 1. lia.
    + pose proof (zlen_slice new (2 * L) (3 * L) ltac:(lia) ltac:(lia)) as H. unfold zlen in H at 1. lia.
  - intros i x Hi Hx a b c Ha Hb Hc.
    assert (Hs' : nth_error (map3 loony (slice new 0 L) (slice new L (2 * L)) (slice new (2 * L) (3 * L)))
                            (Z.to_nat i) = Some (loony a b c)).
    { apply map3_nth.
      - rewrite nth_error_slice by lia. replace (0 + i) with i by lia. exact Ha.
      - rewrite nth_error_slice by lia. replace (L + i) with (i + L) by lia. exact Hb.
      - rewrite nth_error_slice by lia. replace (2 * L + i) with (i + 2 * L) by lia. exact Hc. }
    rewrite Hs'. clear - a.
    repeat split; intros H1 H2 H3; f_equal;
      destruct a, b, c, x; simpl; try reflexivity; try congruence.
Qed.
