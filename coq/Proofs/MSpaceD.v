(* C04 lemmas: the mutation space built by from_constraints is EXACTLY the set of sequences allowed
   by the restriction choices it was built from (merge_with and extract_varying_region are exact),
   it is well-formed, and it is empty exactly when some choice is left without variant. *)
From Coq Require Import ZArith Bool List Lia Sorting.Sorted Permutation.
From DC Require Import Model.Base Model.Loc Model.MSpace Proofs.MSpaceDefs Proofs.MSpaceA.
Import ListNotations.
Open Scope Z_scope.

(* a restriction choice produced by some constraint's restrict_nucleotides(), for a sequence of
   length n: a non-empty segment inside the sequence, variants pairwise distinct and of the
   segment's length; it is not one of the initial "any nucleotide" choices (cany = false: the
   restriction choices are built by Specs.rchoice, which always sets the flag to false).
   Without the last clause the statements below are false, see the end of the file. *)
Definition wf_restriction (n : Z) (r : choice) : Prop :=
  0 <= cstart r /\ cstart r < cend r /\ cend r <= n /\ NoDup (cvariants r) /\
  Forall (fun v => zlen v = cend r - cstart r) (cvariants r) /\ cany r = false.

(* ------------------------------------------------------------------ *)
(* generic list helpers                                                 *)
(* ------------------------------------------------------------------ *)

Lemma d_zlen_slice {X} (l : list X) a b : 0 <= a -> a <= b -> b <= zlen l ->
  zlen (slice l a b) = b - a.
Proof.
  intros Ha Hab Hb. unfold slice, zlen in *. rewrite firstn_length, skipn_length. lia.
Qed.

Lemma d_slice_slice {X} (l : list X) a b c d : 0 <= a -> 0 <= c -> d <= b - a ->
  slice (slice l a b) c d = slice l (a + c) (a + d).
Proof.
  intros Ha Hc Hd. apply nth_error_ext. intro j. rewrite !nth_error_slice.
  destruct (Nat.ltb_spec j (Z.to_nat (d - c))) as [H1|H1];
    destruct (Nat.ltb_spec j (Z.to_nat (a + d - (a + c)))) as [H2|H2]; try lia; try reflexivity.
  destruct (Nat.ltb_spec (Z.to_nat c + j) (Z.to_nat (b - a))) as [H3|H3]; try lia.
  f_equal. lia.
Qed.

Lemma d_split3 {X} (l : list X) (i m : nat) :
  l = firstn i l ++ firstn m (skipn i l) ++ skipn (i + m) l.
Proof.
  rewrite <- skipn_skipn'. rewrite (firstn_skipn m (skipn i l)). rewrite firstn_skipn. reflexivity.
Qed.

Lemma Forall_one {A} (P : A -> Prop) x : Forall P [x] <-> P x.
Proof.
  split; intro H.
  - inversion H; assumption.
  - constructor; [exact H | constructor].
Qed.

Lemma Forall_if {A} (P : A -> Prop) (b : bool) x :
  Forall P (if b then [x] else []) <-> (b = true -> P x).
Proof.
  destruct b.
  - rewrite Forall_one. split; auto.
  - split; [intros _ H; discriminate | intros _; constructor].
Qed.

Lemma last_In {X} (l : list X) d : l <> [] -> In (last l d) l.
Proof.
  induction l as [|x l IH]; intro H; [congruence|].
  destruct l as [|y l]; [left; reflexivity|].
  right. change (last (x :: y :: l) d) with (last (y :: l) d). apply IH. discriminate.
Qed.

Lemma nodup_dna_In v l : In v (nodup_dna l) <-> In v l.
Proof.
  induction l as [|w l IH]; simpl; [tauto|].
  destruct (dmem w l) eqn:E.
  - rewrite IH. split; [auto|]. intros [H|H]; [subst; apply dmem_In; exact E | exact H].
  - simpl. rewrite IH. tauto.
Qed.

Lemma nodup_dna_NoDup l : NoDup (nodup_dna l).
Proof.
  induction l as [|w l IH]; simpl; [constructor|].
  destruct (dmem w l) eqn:E; [exact IH|].
  constructor; [|exact IH]. rewrite nodup_dna_In. intro H. apply dmem_In in H. congruence.
Qed.

Lemma filter_seq_min f : forall n s i0 rest, filter f (seq s n) = i0 :: rest ->
  forall i, In i (i0 :: rest) -> (i0 <= i)%nat.
Proof.
  induction n as [|n IH]; intros s i0 rest H i Hi; simpl in H; [discriminate|].
  destruct (f s) eqn:E.
  - inversion H; subst. destruct Hi as [Hi|Hi]; [lia|].
    apply filter_In in Hi. destruct Hi as [Hi _]. apply in_seq in Hi. lia.
  - eapply IH; eassumption.
Qed.

Lemma filter_seq_max f d : forall n s i, In i (filter f (seq s n)) ->
  (i <= last (filter f (seq s n)) d)%nat.
Proof.
  induction n as [|n IH]; intros s i Hi; simpl in *; [contradiction|].
  destruct (f s) eqn:E.
  - remember (filter f (seq (S s) n)) as l' eqn:Heql'. destruct l' as [|y l''].
    + destruct Hi as [Hi|[]]. simpl. lia.
    + change (last (s :: y :: l'') d) with (last (y :: l'') d). rewrite Heql'.
      destruct Hi as [Hi|Hi].
      * subst i.
        assert (Hy : In y (filter f (seq (S s) n))) by (rewrite <- Heql'; left; reflexivity).
        pose proof (IH (S s) y Hy) as Hle.
        apply filter_In in Hy. destruct Hy as [Hy _]. apply in_seq in Hy. lia.
      * apply IH. rewrite <- Heql'. exact Hi.
  - apply IH. exact Hi.
Qed.

(* ------------------------------------------------------------------ *)
(* extract_varying_region                                               *)
(* ------------------------------------------------------------------ *)

Lemma differs_at_false i ref vs : differs_at i ref vs = false ->
  forall v, In v vs -> nth_error v i = nth_error ref i.
Proof.
  unfold differs_at. intros H v Hv.
  set (g := fun v : dna => match nth_error v i, nth_error ref i with
                           | Some x, Some y => negb (nuc_eqb x y)
                           | None, None => false
                           | _, _ => true
                           end).
  change (existsb g vs = false) in H.
  assert (Hg : g v = false).
  { destruct (g v) eqn:E; [|reflexivity].
    assert (Hex : existsb g vs = true) by (apply existsb_exists; exists v; auto).
    congruence. }
  unfold g in Hg.
  destruct (nth_error v i) as [x|] eqn:E1; destruct (nth_error ref i) as [y|] eqn:E2;
    try discriminate; [|reflexivity].
  apply negb_false_iff in Hg. apply nuc_eqb_eq in Hg. congruence.
Qed.

Lemma diff_pos : forall (v ref : dna), List.length v = List.length ref -> v <> ref ->
  exists i, (i < List.length ref)%nat /\
    (match nth_error v i, nth_error ref i with
     | Some x, Some y => negb (nuc_eqb x y) | None, None => false | _, _ => true end) = true.
Proof.
  induction v as [|a v IH]; intros [|b ref] Hl Hne; simpl in Hl; try discriminate.
  - congruence.
  - destruct (nuc_eqb a b) eqn:E.
    + apply nuc_eqb_eq in E. subst b.
      destruct (IH ref) as [i [Hi Hd]]; [lia | congruence |].
      exists (S i). split; [simpl; lia | exact Hd].
    + exists 0%nat. split; [simpl; lia|]. simpl. rewrite E. reflexivity.
Qed.

Lemma evr_small c : (cvariants c = [] \/ exists v, cvariants c = [v]) ->
  extract_varying_region c = [c].
Proof.
  intros [H|[v H]]; unfold extract_varying_region; rewrite H; reflexivity.
Qed.

Lemma evr_shape c ref v2 vs : wf_choice c -> cvariants c = ref :: v2 :: vs ->
  exists i0 m : nat, (i0 <= m < List.length ref)%nat /\
    (forall v, In v (cvariants c) -> firstn i0 v = firstn i0 ref) /\
    (forall v, In v (cvariants c) -> skipn (S m) v = skipn (S m) ref) /\
    extract_varying_region c =
      (if 0 <? Z.of_nat i0
       then [mkChoice (cstart c) (cstart c + Z.of_nat i0) [firstn i0 ref] false] else [])
      ++ [mkChoice (cstart c + Z.of_nat i0) (cstart c + (Z.of_nat m + 1))
            (nodup_dna (map (fun v => slice v (Z.of_nat i0) (Z.of_nat m + 1)) (cvariants c))) false]
      ++ (if Z.of_nat m + 1 <? Z.of_nat (List.length ref)
          then [mkChoice (cstart c + (Z.of_nat m + 1)) (cend c)
                  (nodup_dna (map (fun v => skipn (Z.to_nat (Z.of_nat m + 1)) v) (cvariants c))) false]
          else []).
Proof.
  intros (Hpos & Hnd & Hlen) Ev.
  rewrite Forall_forall in Hlen.
  assert (Hall : forall v, In v (cvariants c) -> List.length v = List.length ref).
  { intros v Hv. pose proof (Hlen v Hv) as H1.
    pose proof (Hlen ref ltac:(rewrite Ev; left; reflexivity)) as H2.
    unfold zlen in *. lia. }
  destruct (filter (fun i => differs_at i ref (v2 :: vs)) (seq 0 (List.length ref)))
    as [|i0 rest] eqn:Ef.
  - exfalso.
    assert (Hne : v2 <> ref).
    { rewrite Ev in Hnd. inversion Hnd as [|x l Hni _]; subst. intro He. apply Hni. left. auto. }
    destruct (diff_pos v2 ref) as [i [Hi Hd]];
      [apply Hall; rewrite Ev; right; left; reflexivity | exact Hne |].
    assert (Hin : In i (filter (fun i => differs_at i ref (v2 :: vs)) (seq 0 (List.length ref)))).
    { apply filter_In. split; [apply in_seq; lia|].
      unfold differs_at. simpl existsb. rewrite Hd. reflexivity. }
    rewrite Ef in Hin. exact Hin.
  - set (idxs := i0 :: rest) in *.
    assert (Hmem : forall i, In i idxs <->
              (i < List.length ref)%nat /\ differs_at i ref (v2 :: vs) = true).
    { intro i. rewrite <- Ef. rewrite filter_In, in_seq. split; intros [A B]; split; auto; lia. }
    assert (Hlast : In (last idxs i0) idxs) by (apply last_In; discriminate).
    assert (Hmin : forall i, In i idxs -> (i0 <= i)%nat).
    { intros i Hi. eapply filter_seq_min; [exact Ef | exact Hi]. }
    assert (Hmax : forall i, In i idxs -> (i <= last idxs i0)%nat).
    { intros i Hi. rewrite <- Ef. apply filter_seq_max. rewrite Ef. exact Hi. }
    assert (Hagree : forall i v, (i < i0 \/ last idxs i0 < i)%nat -> In v (cvariants c) ->
              nth_error v i = nth_error ref i).
    { intros i v Hi Hv.
      destruct (Nat.lt_ge_cases i (List.length ref)) as [Hlt|Hge].
      - rewrite Ev in Hv. destruct Hv as [Hv|Hv]; [subst; reflexivity|].
        apply (differs_at_false i ref (v2 :: vs)); [|exact Hv].
        destruct (differs_at i ref (v2 :: vs)) eqn:E; [|reflexivity].
        exfalso. assert (Hin : In i idxs) by (apply Hmem; auto).
        pose proof (Hmin i Hin). pose proof (Hmax i Hin). lia.
      - pose proof (Hall v Hv) as Hl.
        assert (E1 : nth_error v i = None) by (apply nth_error_None; lia).
        assert (E2 : nth_error ref i = None) by (apply nth_error_None; lia).
        congruence. }
    exists i0, (last idxs i0). split; [|split; [|split]].
    + apply Hmem in Hlast. destruct Hlast as [Hl _].
      assert (Hi0 : In i0 idxs) by (left; reflexivity).
      pose proof (Hmax i0 Hi0). lia.
    + intros v Hv. apply nth_error_ext. intro j.
      destruct (Nat.lt_ge_cases j i0) as [Hlt|Hge].
      * rewrite !nth_error_firstn_lt by assumption. apply Hagree; [lia | exact Hv].
      * rewrite !nth_error_firstn_ge by assumption. reflexivity.
    + intros v Hv. apply nth_error_ext. intro j. rewrite !nth_error_skipn'.
      apply Hagree; [lia | exact Hv].
    + unfold extract_varying_region. rewrite Ev. cbv zeta. rewrite Ef. reflexivity.
Qed.

Theorem extract_varying_region_exact : forall c t,
  wf_choice c -> cend c <= zlen t ->
  (holds c t <-> Forall (fun p => holds p t) (extract_varying_region c)).
Proof.
  intros c t Hwf Hce.
  destruct (cvariants c) as [|ref [|v2 vs]] eqn:Ev.
  - rewrite evr_small by (left; exact Ev). rewrite Forall_one. tauto.
  - rewrite evr_small by (right; eexists; exact Ev). rewrite Forall_one. tauto.
  - destruct (evr_shape c ref v2 vs Hwf Ev) as (i0 & m & Him & Hpre & Hsuf & Heq).
    rewrite Heq. clear Heq.
    destruct Hwf as (Hpos & Hnd & Hlen). rewrite Forall_forall in Hlen.
    assert (HL : cend c - cstart c = Z.of_nat (List.length ref)).
    { pose proof (Hlen ref ltac:(rewrite Ev; left; reflexivity)) as H. unfold zlen in H. lia. }
    assert (Hall : forall v, In v (cvariants c) -> List.length v = List.length ref).
    { intros v Hv. pose proof (Hlen v Hv) as H1. unfold zlen in *. lia. }
    set (w := slice t (cstart c) (cend c)).
    assert (Hw : List.length w = List.length ref).
    { pose proof (d_zlen_slice t (cstart c) (cend c) ltac:(lia) ltac:(lia) Hce) as H.
      fold w in H. unfold zlen in H. lia. }
    assert (E1 : slice t (cstart c) (cstart c + Z.of_nat i0) = firstn i0 w).
    { transitivity (slice w 0 (Z.of_nat i0)).
      - unfold w. rewrite d_slice_slice by lia. f_equal; lia.
      - unfold slice. simpl skipn. rewrite Z.sub_0_r, Nat2Z.id. reflexivity. }
    assert (E2 : slice t (cstart c + Z.of_nat i0) (cstart c + (Z.of_nat m + 1)) =
                 slice w (Z.of_nat i0) (Z.of_nat m + 1)).
    { unfold w. rewrite d_slice_slice by lia. reflexivity. }
    assert (E3 : slice t (cstart c + (Z.of_nat m + 1)) (cend c) = skipn (S m) w).
    { transitivity (slice w (Z.of_nat m + 1) (cend c - cstart c)).
      - unfold w. rewrite d_slice_slice by lia. f_equal; lia.
      - unfold slice. replace (Z.to_nat (Z.of_nat m + 1)) with (S m) by lia.
        apply firstn_all2. rewrite skipn_length. lia. }
    replace (Z.to_nat (Z.of_nat m + 1)) with (S m) by lia.
    rewrite !Forall_app, !Forall_if, Forall_one.
    unfold holds at 2 3 4. cbn [cstart cend cvariants].
    rewrite E1, E2, E3. rewrite !nodup_dna_In, !in_map_iff.
    unfold holds. fold w. rewrite Ev. rewrite Ev in Hpre, Hsuf, Hall.
    split.
    + intro Hin. split; [|split].
      * intros _. left. symmetry. apply Hpre. exact Hin.
      * exists w. split; [reflexivity | exact Hin].
      * intros _. exists w. split; [reflexivity | exact Hin].
    + intros (H1 & (v & Hv & Hvin) & H3).
      assert (Hwv : w = v); [|rewrite Hwv; exact Hvin].
      rewrite (d_split3 w i0 (S m - i0)), (d_split3 v i0 (S m - i0)).
      f_equal; [|f_equal].
      * destruct (Z.ltb_spec 0 (Z.of_nat i0)) as [Hlt|Hge].
        -- destruct (H1 eq_refl) as [H1'|[]]. rewrite <- H1'. symmetry. apply Hpre. exact Hvin.
        -- replace i0 with 0%nat by lia. reflexivity.
      * unfold slice in Hv.
        replace (Z.to_nat (Z.of_nat m + 1 - Z.of_nat i0)) with (S m - i0)%nat in Hv by lia.
        rewrite Nat2Z.id in Hv. symmetry. exact Hv.
      * replace (i0 + (S m - i0))%nat with (S m) by lia.
        destruct (Z.ltb_spec (Z.of_nat m + 1) (Z.of_nat (List.length ref))) as [Hlt|Hge].
        -- destruct (H3 eq_refl) as (v' & Hv' & Hv'in).
           rewrite <- Hv'. rewrite (Hsuf v' Hv'in). symmetry. apply Hsuf. exact Hvin.
        -- rewrite !skipn_all2; [reflexivity | rewrite (Hall v Hvin); lia | lia].
Qed.

(* ------------------------------------------------------------------ *)
(* tilings: consecutive non-empty segments covering [a, b)              *)
(* ------------------------------------------------------------------ *)

Definition R (x y : choice) : Prop := cend x <= cstart y.

Inductive tiles : Z -> Z -> list choice -> Prop :=
| tiles_nil : forall a b, a = b -> tiles a b []
| tiles_cons : forall a b c L, cstart c = a -> a < cend c -> tiles (cend c) b L ->
    tiles a b (c :: L).

Lemma tiles_le a b L : tiles a b L -> a <= b.
Proof. induction 1; lia. Qed.

Lemma tiles_bounds a b L : tiles a b L -> forall o, In o L ->
  a <= cstart o /\ cstart o < cend o /\ cend o <= b.
Proof.
  induction 1 as [a b Hab | a b c L Hc Hlt HT IH]; intros o Ho; [contradiction|].
  destruct Ho as [Ho|Ho].
  - subst o. pose proof (tiles_le _ _ _ HT). lia.
  - destruct (IH o Ho) as (A & B & C). lia.
Qed.

Lemma tiles_cover a b L : tiles a b L -> forall i, a <= i < b ->
  exists o, In o L /\ cstart o <= i < cend o.
Proof.
  induction 1 as [a b Hab | a b c L Hc Hlt HT IH]; intros i Hi; [lia|].
  destruct (Z.lt_ge_cases i (cend c)) as [H|H].
  - exists c. split; [left; reflexivity | lia].
  - destruct (IH i) as [o [Ho Hio]]; [lia|]. exists o. split; [right; exact Ho | exact Hio].
Qed.

Lemma evr_tiles c : wf_choice c -> tiles (cstart c) (cend c) (extract_varying_region c).
Proof.
  intros Hwf.
  assert (Hone : tiles (cstart c) (cend c) [c]).
  { destruct Hwf as (Hpos & _). apply tiles_cons; [reflexivity | lia | apply tiles_nil; reflexivity]. }
  destruct (cvariants c) as [|ref [|v2 vs]] eqn:Ev.
  - rewrite evr_small by (left; exact Ev). exact Hone.
  - rewrite evr_small by (right; eexists; exact Ev). exact Hone.
  - destruct (evr_shape c ref v2 vs Hwf Ev) as (i0 & m & Him & _ & _ & Heq).
    rewrite Heq. clear Heq.
    destruct Hwf as (Hpos & Hnd & Hlen). rewrite Forall_forall in Hlen.
    assert (HL : cend c - cstart c = Z.of_nat (List.length ref)).
    { pose proof (Hlen ref ltac:(rewrite Ev; left; reflexivity)) as H. unfold zlen in H. lia. }
    destruct (Z.ltb_spec 0 (Z.of_nat i0)) as [H1|H1];
      destruct (Z.ltb_spec (Z.of_nat m + 1) (Z.of_nat (List.length ref))) as [H2|H2];
      simpl app;
      repeat (first [apply tiles_nil | apply tiles_cons]; cbn [cstart cend]; try lia).
Qed.

Lemma evr_wf c : wf_choice c -> Forall wf_choice (extract_varying_region c).
Proof.
  intros Hwf.
  destruct (cvariants c) as [|ref [|v2 vs]] eqn:Ev.
  - rewrite evr_small by (left; exact Ev). apply Forall_one. exact Hwf.
  - rewrite evr_small by (right; eexists; exact Ev). apply Forall_one. exact Hwf.
  - destruct (evr_shape c ref v2 vs Hwf Ev) as (i0 & m & Him & _ & _ & Heq).
    rewrite Heq. clear Heq.
    destruct Hwf as (Hpos & Hnd & Hlen). rewrite Forall_forall in Hlen.
    assert (HL : cend c - cstart c = Z.of_nat (List.length ref)).
    { pose proof (Hlen ref ltac:(rewrite Ev; left; reflexivity)) as H. unfold zlen in H. lia. }
    assert (Hall : forall v, In v (cvariants c) -> zlen v = Z.of_nat (List.length ref)).
    { intros v Hv. pose proof (Hlen v Hv) as H1. lia. }
    rewrite !Forall_app, !Forall_if, Forall_one.
    split; [|split].
    + intro Hb. apply Z.ltb_lt in Hb. unfold wf_choice. cbn [cstart cend cvariants].
      split; [lia|]. split.
      * constructor; [intros [] | constructor].
      * apply Forall_one. unfold zlen. rewrite firstn_length. lia.
    + unfold wf_choice. cbn [cstart cend cvariants].
      split; [lia|]. split; [apply nodup_dna_NoDup|].
      apply Forall_forall. intros q Hq. rewrite nodup_dna_In, in_map_iff in Hq.
      destruct Hq as [v [Hq Hv]]. subst q. pose proof (Hall v Hv) as Hvl.
      rewrite d_zlen_slice by lia. lia.
    + intro Hb. apply Z.ltb_lt in Hb. unfold wf_choice. cbn [cstart cend cvariants].
      split; [lia|]. split; [apply nodup_dna_NoDup|].
      apply Forall_forall. intros q Hq. rewrite nodup_dna_In, in_map_iff in Hq.
      destruct Hq as [v [Hq Hv]]. subst q. pose proof (Hall v Hv) as Hvl.
      unfold zlen in *. rewrite skipn_length. lia.
Qed.

Lemma evr_cany c : wf_choice c -> cany c = false ->
  forall p, In p (extract_varying_region c) -> cany p = false.
Proof.
  intros Hwf Hc p Hp.
  destruct (cvariants c) as [|ref [|v2 vs]] eqn:Ev.
  - rewrite evr_small in Hp by (left; exact Ev). destruct Hp as [Hp|[]]. subst p. exact Hc.
  - rewrite evr_small in Hp by (right; eexists; exact Ev). destruct Hp as [Hp|[]]. subst p. exact Hc.
  - destruct (evr_shape c ref v2 vs Hwf Ev) as (i0 & m & Him & _ & _ & Heq).
    rewrite Heq in Hp. clear Heq.
    rewrite !in_app_iff in Hp.
    destruct Hp as [Hp|[Hp|Hp]].
    + destruct (0 <? Z.of_nat i0); [|destruct Hp]. destruct Hp as [Hp|[]]. subst p. reflexivity.
    + destruct Hp as [Hp|[]]. subst p. reflexivity.
    + destruct (Z.of_nat m + 1 <? Z.of_nat (List.length ref)); [|destruct Hp].
      destruct Hp as [Hp|[]]. subst p. reflexivity.
Qed.

(* ------------------------------------------------------------------ *)
(* product_concat over a tiling                                         *)
(* ------------------------------------------------------------------ *)

Lemma d_zlen_app {X} (l1 l2 : list X) : zlen (l1 ++ l2) = zlen l1 + zlen l2.
Proof. unfold zlen. rewrite app_length. lia. Qed.

Lemma d_slice_app_l {X} (v r : list X) k : zlen v = k -> slice (v ++ r) 0 k = v.
Proof.
  intro H. unfold slice. simpl skipn. rewrite Z.sub_0_r. apply firstn_app_exact.
  unfold zlen in H. lia.
Qed.

Lemma d_slice_app_r {X} (v r : list X) k x y : zlen v = k -> k <= x ->
  slice (v ++ r) x y = slice r (x - k) (y - k).
Proof.
  intros H Hx. unfold slice.
  replace (Z.to_nat x) with (List.length v + Z.to_nat (x - k))%nat by (unfold zlen in *; lia).
  rewrite <- skipn_skipn'. rewrite skipn_app_exact by reflexivity. f_equal. lia.
Qed.

Lemma pc_tiles : forall S a b, tiles a b S -> forall (f : choice -> list dna),
  (forall o v, In o S -> In v (f o) -> zlen v = cend o - cstart o) ->
  forall q, In q (product_concat (map f S)) <->
    zlen q = b - a /\ forall o, In o S -> In (slice q (cstart o - a) (cend o - a)) (f o).
Proof.
  intros S a b HT. induction HT as [a b Hab | a b c L Hc Hlt HT IH]; intros f Hf q.
  - simpl. split.
    + intros [H|[]]. subst q. split; [unfold zlen; simpl; lia | intros o []].
    + intros [Hz _]. left. destruct q; [reflexivity | unfold zlen in Hz; simpl in Hz; lia].
  - pose proof (tiles_le _ _ _ HT) as Hle.
    assert (Hf' : forall o v, In o L -> In v (f o) -> zlen v = cend o - cstart o).
    { intros o v Ho Hv. apply Hf; [right; exact Ho | exact Hv]. }
    simpl map. simpl product_concat. rewrite in_flat_map. split.
    + intros [v [Hv Hq]]. apply in_map_iff in Hq. destruct Hq as [rest [Hq Hrest]]. subst q.
      apply (IH f Hf') in Hrest. destruct Hrest as [Hz Hall].
      pose proof (Hf c v (or_introl eq_refl) Hv) as Hvl.
      split; [rewrite d_zlen_app; lia|].
      intros o [Ho|Ho].
      * subst o. replace (cstart c - a) with 0 by lia.
        rewrite d_slice_app_l by lia. exact Hv.
      * destruct (tiles_bounds _ _ _ HT o Ho) as (B1 & B2 & B3).
        rewrite (d_slice_app_r v rest (cend c - a)) by lia.
        replace (cstart o - a - (cend c - a)) with (cstart o - cend c) by lia.
        replace (cend o - a - (cend c - a)) with (cend o - cend c) by lia.
        apply Hall. exact Ho.
    + intros [Hz Hall].
      pose proof (Hall c (or_introl eq_refl)) as Hvc.
      pose proof (Hf c _ (or_introl eq_refl) Hvc) as Hvl.
      set (k := cend c - a) in *.
      set (v := slice q (cstart c - a) k) in *.
      set (rest := skipn (Z.to_nat k) q).
      assert (Hq : q = v ++ rest).
      { unfold v, rest, slice. replace (cstart c - a) with 0 by lia. simpl skipn.
        rewrite Z.sub_0_r. symmetry. apply firstn_skipn. }
      exists v. split; [exact Hvc|]. apply in_map_iff. exists rest. split; [symmetry; exact Hq|].
      apply (IH f Hf'). split.
      * rewrite Hq, d_zlen_app in Hz. lia.
      * intros o Ho. destruct (tiles_bounds _ _ _ HT o Ho) as (B1 & B2 & B3).
        pose proof (Hall o (or_intror Ho)) as Ho'.
        rewrite Hq in Ho'. rewrite (d_slice_app_r v rest k) in Ho' by lia.
        replace (cstart o - a - k) with (cstart o - cend c) in Ho' by lia.
        replace (cend o - a - k) with (cend o - cend c) in Ho' by lia.
        exact Ho'.
Qed.

Lemma pc_nonempty : forall slots : list (list dna), (forall s, In s slots -> s <> []) ->
  product_concat slots <> [].
Proof.
  induction slots as [|s slots IH]; intro H; simpl; [discriminate|].
  assert (Hs : s <> []) by (apply H; left; reflexivity).
  assert (Hr : product_concat slots <> []) by (apply IH; intros s' Hs'; apply H; right; exact Hs').
  destruct s as [|v s]; [congruence|].
  destruct (product_concat slots) as [|r rs]; [congruence|]. simpl. discriminate.
Qed.

(* ------------------------------------------------------------------ *)
(* sort_by_start, distinct_somes                                        *)
(* ------------------------------------------------------------------ *)

Fixpoint ins_start (x : choice) (l : list choice) : list choice :=
  match l with
  | [] => [x]
  | y :: l' => if cstart y <? cstart x then y :: ins_start x l' else x :: l
  end.

Lemma sbs_eq l : sort_by_start l = fold_right ins_start [] l.
Proof.
  induction l as [|x l IH]; [reflexivity|].
  simpl fold_right. rewrite <- IH. unfold sort_by_start. simpl fold_right.
  generalize (fold_right
    (fun (x0 : choice) (acc : list choice) =>
      (fix ins (l0 : list choice) : list choice :=
         match l0 with
         | [] => [x0]
         | y :: l' => if cstart y <? cstart x0 then y :: ins l' else x0 :: l0
         end) acc) [] l) as acc.
  induction acc as [|y acc IHa]; simpl; [reflexivity|].
  destruct (cstart y <? cstart x); [f_equal; exact IHa | reflexivity].
Qed.

Lemma ins_start_perm x l : Permutation (ins_start x l) (x :: l).
Proof.
  induction l as [|y l IH]; simpl; [apply Permutation_refl|].
  destruct (cstart y <? cstart x).
  - eapply perm_trans; [apply perm_skip; exact IH | apply perm_swap].
  - apply Permutation_refl.
Qed.

Lemma sbs_perm l : Permutation (sort_by_start l) l.
Proof.
  rewrite sbs_eq. induction l as [|x l IH]; simpl; [constructor|].
  eapply perm_trans; [apply ins_start_perm|]. apply perm_skip. exact IH.
Qed.

Definition le_start (x y : choice) : Prop := cstart x <= cstart y.

Lemma ins_start_sorted x l : StronglySorted le_start l -> StronglySorted le_start (ins_start x l).
Proof.
  induction l as [|y l IH]; intro H; simpl; [repeat constructor|].
  inversion H as [|y' l' Hs Hf]; subst.
  destruct (Z.ltb_spec (cstart y) (cstart x)) as [Hlt|Hge].
  - constructor; [apply IH; exact Hs|].
    rewrite Forall_forall in *. intros z Hz.
    apply (Permutation_in _ (ins_start_perm x l)) in Hz. destruct Hz as [Hz|Hz].
    + subst z. unfold le_start. lia.
    + apply Hf. exact Hz.
  - constructor; [exact H|]. constructor; [unfold le_start; lia|].
    rewrite Forall_forall in *. intros z Hz. specialize (Hf z Hz). unfold le_start in *. lia.
Qed.

Lemma sbs_sorted l : StronglySorted le_start (sort_by_start l).
Proof.
  rewrite sbs_eq. induction l as [|x l IH]; simpl; [constructor|].
  apply ins_start_sorted. exact IH.
Qed.

Lemma ss_convert : forall S, StronglySorted le_start S -> NoDup S ->
  (forall x y, In x S -> In y S -> x = y \/ R x y \/ R y x) ->
  (forall x, In x S -> cstart x < cend x) -> StronglySorted R S.
Proof.
  induction S as [|c S IH]; intros Hs Hnd Hd Hne; [constructor|].
  inversion Hs as [|c' S' Hs' Hf]; subst. inversion Hnd as [|c' S' Hni Hnd']; subst.
  constructor.
  - apply IH; [exact Hs' | exact Hnd' | |].
    + intros x y Hx Hy. apply Hd; right; assumption.
    + intros x Hx. apply Hne. right. exact Hx.
  - rewrite Forall_forall in *. intros y Hy.
    destruct (Hd c y (or_introl eq_refl) (or_intror Hy)) as [E|[E|E]].
    + subst y. contradiction.
    + exact E.
    + pose proof (Hf y Hy) as H1. pose proof (Hne y (or_intror Hy)) as H2.
      unfold R, le_start in *. lia.
Qed.

Lemma ss_last : forall L d x, StronglySorted R L -> In x L -> x = last L d \/ R x (last L d).
Proof.
  induction L as [|c L IH]; intros d x Hs Hx; [contradiction|].
  inversion Hs as [|c' L' Hs' Hf]; subst. destruct L as [|y L].
  - destruct Hx as [Hx|[]]. left. simpl. auto.
  - change (last (c :: y :: L) d) with (last (y :: L) d). destruct Hx as [Hx|Hx].
    + subst x. right. rewrite Forall_forall in Hf. apply Hf. apply last_In. discriminate.
    + apply IH; assumption.
Qed.

Lemma tiles_of_sorted : forall S d, S <> [] -> StronglySorted R S ->
  (forall o, In o S -> cstart o < cend o) ->
  (forall i, cstart (hd d S) <= i < cend (last S d) ->
     exists o, In o S /\ cstart o <= i < cend o) ->
  tiles (cstart (hd d S)) (cend (last S d)) S.
Proof.
  induction S as [|c S IH]; intros d Hne Hs Hpos Hcov; [congruence|].
  destruct S as [|c' S].
  - simpl. apply tiles_cons; [reflexivity | apply Hpos; left; reflexivity |
                              apply tiles_nil; reflexivity].
  - change (last (c :: c' :: S) d) with (last (c' :: S) d) in *. simpl hd in *.
    inversion Hs as [|x l Hs' Hf]; subst. rewrite Forall_forall in Hf.
    assert (Hc : cstart c < cend c) by (apply Hpos; left; reflexivity).
    assert (Hc' : cstart c' < cend c') by (apply Hpos; right; left; reflexivity).
    assert (Hlast : cend c' <= cend (last (c' :: S) d)).
    { destruct (ss_last (c' :: S) d c' Hs' (or_introl eq_refl)) as [E|E].
      - rewrite <- E. lia.
      - assert (Hl : In (last (c' :: S) d) (c' :: S)) by (apply last_In; discriminate).
        pose proof (Hpos _ (or_intror Hl)) as Hp. unfold R in E. lia. }
    assert (Hfirst : forall o, In o (c' :: S) -> cstart c' <= cstart o).
    { intros o [Ho|Ho]; [subst; lia|].
      inversion Hs' as [|x l _ Hf']; subst. rewrite Forall_forall in Hf'.
      pose proof (Hf' o Ho) as H1. unfold R in H1. lia. }
    assert (Hadj : cend c = cstart c').
    { pose proof (Hf c' (or_introl eq_refl)) as Hle. unfold R in Hle.
      destruct (Z.eq_dec (cend c) (cstart c')) as [E|E]; [exact E|]. exfalso.
      destruct (Hcov (cend c)) as [o [Ho Hio]]; [lia|].
      destruct Ho as [Ho|Ho]; [subst o; lia|]. pose proof (Hfirst o Ho). lia. }
    apply tiles_cons; [reflexivity | exact Hc |]. rewrite Hadj.
    apply (IH d); [discriminate | exact Hs' | intros o Ho; apply Hpos; right; exact Ho |].
    simpl hd. intros i Hi. destruct (Hcov i) as [o [Ho Hio]]; [lia|].
    destruct Ho as [Ho|Ho]; [subst o; lia|]. exists o. split; assumption.
Qed.

Lemma existsb_choice c r : existsb (choice_eqb c) r = true <-> In c r.
Proof.
  rewrite existsb_exists. split.
  - intros [x [Hx E]]. apply choice_eqb_eq in E. subst. exact Hx.
  - intro H. exists c. split; [exact H | apply choice_eqb_eq; reflexivity].
Qed.

Lemma ds_In l o : In o (distinct_somes l) <-> In (Some o) l.
Proof.
  induction l as [|[c|] l IH]; simpl; [tauto| |].
  - destruct (existsb (choice_eqb c) (distinct_somes l)) eqn:E.
    + rewrite IH. split; [auto|]. intros [H|H]; [|exact H].
      inversion H; subst. apply IH. apply existsb_choice. exact E.
    + simpl. rewrite IH. split; intros [H|H]; auto; left; congruence.
  - rewrite IH. split; [auto|]. intros [H|H]; [discriminate | exact H].
Qed.

Lemma ds_NoDup l : NoDup (distinct_somes l).
Proof.
  induction l as [|[c|] l IH]; simpl; [constructor | | exact IH].
  destruct (existsb (choice_eqb c) (distinct_somes l)) eqn:E; [exact IH|].
  constructor; [|exact IH]. intro H. apply existsb_choice in H. congruence.
Qed.

(* ------------------------------------------------------------------ *)
(* merge_with                                                           *)
(* ------------------------------------------------------------------ *)

Definition mfinals (ch : choice) (S : list choice) (a : Z) : list dna :=
  flat_map (fun cand =>
      filter (fun q => seq_eqb (pyslice q (cstart ch - a) (cend ch - a)) cand)
        (product_concat (map (fun o => filter (compatible ch o cand) (cvariants o)) S)))
    (cvariants ch).

Lemma merge_unfold ch others o0 S' : sort_by_start others = o0 :: S' ->
  merge_with ch others =
  mkChoice (cstart o0) (cend (last (o0 :: S') o0))
           (nodup_dna (mfinals ch (o0 :: S') (cstart o0))) false.
Proof. intro H. unfold merge_with. rewrite H. reflexivity. Qed.

Lemma wo_overlap os oe ss se : os < oe -> ss < se -> os < se -> ss < oe ->
  exists i0 i1, windows_overlap (os, oe) (ss, se) = Some (i0, i1) /\
     os <= i0 /\ ss <= i0 /\ i0 <= i1 /\ i1 <= oe /\ i1 <= se.
Proof.
  intros H1 H2 H3 H4. unfold windows_overlap.
  destruct (Z.ltb_spec ss os) as [A|A].
  - destruct (Z.leb_spec os se) as [B|B]; [|lia].
    eexists _, _. split; [reflexivity|]. lia.
  - destruct (Z.leb_spec ss oe) as [B|B]; [|lia].
    eexists _, _. split; [reflexivity|]. lia.
Qed.

Lemma mfinals_len ch S a b q : tiles a b S ->
  (forall o, In o S -> Forall (fun v => zlen v = cend o - cstart o) (cvariants o)) ->
  In q (mfinals ch S a) -> zlen q = b - a.
Proof.
  intros HT Hlen Hq. unfold mfinals in Hq. apply in_flat_map in Hq.
  destruct Hq as [cand [_ Hq]]. apply filter_In in Hq. destruct Hq as [Hq _].
  apply (pc_tiles S a b HT) in Hq; [tauto|].
  intros o v Ho Hv. apply filter_In in Hv. destruct Hv as [Hv _].
  specialize (Hlen o Ho). rewrite Forall_forall in Hlen. apply Hlen. exact Hv.
Qed.

Lemma merge_holds ch S a b t :
  tiles a b S -> 0 <= a -> b <= zlen t ->
  (forall o, In o S -> Forall (fun v => zlen v = cend o - cstart o) (cvariants o)) ->
  a <= cstart ch -> cstart ch < cend ch -> cend ch <= b ->
  (forall o, In o S -> cstart o < cend ch /\ cstart ch < cend o) ->
  (In (slice t a b) (nodup_dna (mfinals ch S a)) <->
   In (slice t (cstart ch) (cend ch)) (cvariants ch) /\
   forall o, In o S -> In (slice t (cstart o) (cend o)) (cvariants o)).
Proof.
  intros HT Ha Hb Hlen Hs1 Hs2 Hs3 Hov.
  pose proof (tiles_le _ _ _ HT) as Hab.
  assert (Hf : forall cand o v, In o S ->
            In v (filter (compatible ch o cand) (cvariants o)) -> zlen v = cend o - cstart o).
  { intros cand o v Ho Hv. apply filter_In in Hv. destruct Hv as [Hv _].
    specialize (Hlen o Ho). rewrite Forall_forall in Hlen. apply Hlen. exact Hv. }
  assert (Hq : zlen (slice t a b) = b - a) by (apply d_zlen_slice; lia).
  assert (Hpy : pyslice (slice t a b) (cstart ch - a) (cend ch - a) =
                slice t (cstart ch) (cend ch)).
  { rewrite pyslice_slice by lia. rewrite d_slice_slice by lia. f_equal; lia. }
  assert (Hsl : forall o, In o S ->
            slice (slice t a b) (cstart o - a) (cend o - a) = slice t (cstart o) (cend o)).
  { intros o Ho. destruct (tiles_bounds _ _ _ HT o Ho) as (B1 & B2 & B3).
    rewrite d_slice_slice by lia. f_equal; lia. }
  rewrite nodup_dna_In. unfold mfinals. rewrite in_flat_map. split.
  - intros [cand [Hc Hq']]. apply filter_In in Hq'. destruct Hq' as [Hpc Hfin].
    apply seq_eqb_eq in Hfin. rewrite Hpy in Hfin.
    apply (pc_tiles S a b HT _ (Hf cand)) in Hpc. destruct Hpc as [_ Hall].
    split; [rewrite Hfin; exact Hc|].
    intros o Ho. specialize (Hall o Ho). rewrite Hsl in Hall by exact Ho.
    apply filter_In in Hall. tauto.
  - intros [Hc Hall]. exists (slice t (cstart ch) (cend ch)). split; [exact Hc|].
    apply filter_In. split; [|apply seq_eqb_eq; exact Hpy].
    apply (pc_tiles S a b HT _ (Hf _)). split; [exact Hq|].
    intros o Ho. rewrite Hsl by exact Ho. apply filter_In. split; [apply Hall; exact Ho|].
    destruct (tiles_bounds _ _ _ HT o Ho) as (B1 & B2 & B3).
    destruct (Hov o Ho) as [O1 O2].
    unfold compatible.
    destruct (wo_overlap (cstart o) (cend o) (cstart ch) (cend ch) B2 Hs2 O1 O2)
      as (i0 & i1 & Hwo & W1 & W2 & W3 & W4 & W5).
    rewrite Hwo. apply seq_eqb_eq.
    rewrite !pyslice_slice by (rewrite ?d_zlen_slice by lia; lia).
    rewrite !d_slice_slice by lia. f_equal; lia.
Qed.

(* ------------------------------------------------------------------ *)
(* the index as a partition, position-wise                              *)
(* ------------------------------------------------------------------ *)

Definition ix (idx : list (option choice)) (i : Z) : option (option choice) :=
  nth_error idx (Z.to_nat i).

(* the index covers [0, n), every position points to a well-formed choice that contains it and
   fits in [0, n), and all the positions of that choice's segment point to it *)
Definition Part (n : Z) (idx : list (option choice)) : Prop :=
  zlen idx = n /\
  (forall i, 0 <= i < n -> exists c, ix idx i = Some (Some c)) /\
  (forall i c, 0 <= i -> ix idx i = Some (Some c) ->
     wf_choice c /\ cstart c <= i < cend c /\ cend c <= n /\
     forall j, cstart c <= j < cend c -> ix idx j = Some (Some c)).

Lemma In_ix idx c : In (Some c) idx <-> exists i, 0 <= i /\ ix idx i = Some (Some c).
Proof.
  split.
  - intro H. apply In_nth_error in H. destruct H as [k Hk]. exists (Z.of_nat k).
    split; [lia|]. unfold ix. rewrite Nat2Z.id. exact Hk.
  - intros [i [_ H]]. eapply nth_error_In. exact H.
Qed.

Lemma part_in n idx c : Part n idx -> In (Some c) idx ->
  wf_choice c /\ cend c <= n /\ forall j, cstart c <= j < cend c -> ix idx j = Some (Some c).
Proof.
  intros (P1 & P2 & P3) H. apply In_ix in H. destruct H as [i [Hi H]].
  destruct (P3 i c Hi H) as (A & B & C & D). auto.
Qed.

Lemma part_unique n idx c c' j : Part n idx -> In (Some c) idx -> In (Some c') idx ->
  cstart c <= j < cend c -> cstart c' <= j < cend c' -> c = c'.
Proof.
  intros HP H1 H2 J1 J2.
  destruct (part_in _ _ _ HP H1) as (_ & _ & D1). destruct (part_in _ _ _ HP H2) as (_ & _ & D2).
  pose proof (D1 j J1) as E1. pose proof (D2 j J2) as E2. congruence.
Qed.

Lemma part_disj n idx x y : Part n idx -> In (Some x) idx -> In (Some y) idx ->
  x = y \/ R x y \/ R y x.
Proof.
  intros HP Hx Hy.
  destruct (part_in _ _ _ HP Hx) as ((Wx & _) & _ & _).
  destruct (part_in _ _ _ HP Hy) as ((Wy & _) & _ & _).
  unfold R.
  destruct (Z.le_gt_cases (cend x) (cstart y)) as [H1|H1]; [auto|].
  destruct (Z.le_gt_cases (cend y) (cstart x)) as [H2|H2]; [auto|].
  left. apply (part_unique n idx x y (Z.max (cstart x) (cstart y))); auto; lia.
Qed.

Lemma member_ix idx t : member (mkSpace idx) t <-> forall c, In (Some c) idx -> holds c t.
Proof.
  unfold member, choices_list. simpl. rewrite Forall_forall.
  split; intros H c Hc; apply H; apply In_dedupe_None; exact Hc.
Qed.

(* ---- set_range and the writing loop ---- *)

Lemma nth_repeat {X} (v : X) : forall k j, (j < k)%nat -> nth_error (repeat v k) j = Some v.
Proof.
  induction k as [|k IH]; intros j H; [lia|].
  destruct j as [|j]; simpl; [reflexivity | apply IH; lia].
Qed.

Lemma set_range_len {X} (l : list X) a b v : 0 <= a -> a <= b -> b <= zlen l ->
  zlen (set_range l a b v) = zlen l.
Proof.
  intros Ha Hab Hb. unfold set_range, zlen in *.
  rewrite !app_length, firstn_length, repeat_length, skipn_length. lia.
Qed.

Lemma set_range_nth {X} (l : list X) a b v i : 0 <= a -> a <= b -> b <= zlen l -> 0 <= i ->
  nth_error (set_range l a b v) (Z.to_nat i) =
  if (a <=? i) && (i <? b) then Some v else nth_error l (Z.to_nat i).
Proof.
  intros Ha Hab Hb Hi. unfold set_range.
  assert (Hlf : List.length (firstn (Z.to_nat a) l) = Z.to_nat a).
  { rewrite firstn_length. unfold zlen in *. lia. }
  destruct (Z.leb_spec a i) as [H1|H1]; simpl.
  - destruct (Z.ltb_spec i b) as [H2|H2].
    + rewrite nth_error_app2 by (rewrite Hlf; lia).
      rewrite nth_error_app1 by (rewrite repeat_length, Hlf; lia).
      apply nth_repeat. rewrite Hlf. lia.
    + rewrite nth_error_app2 by (rewrite Hlf; lia).
      rewrite nth_error_app2 by (rewrite repeat_length, Hlf; lia).
      rewrite nth_error_skipn'. f_equal. rewrite repeat_length, Hlf. lia.
  - rewrite nth_error_app1 by (rewrite Hlf; lia).
    apply nth_error_firstn_lt. lia.
Qed.

Definition pstep (acc : list (option choice)) (c : choice) : list (option choice) :=
  let acc := if zlen acc <? cend c then acc ++ repeat None (Z.to_nat (cend c - zlen acc)) else acc in
  set_range acc (cstart c) (cend c) (Some c).

Definition any_flag (o : option choice) : bool :=
  match o with Some c => cany c | None => false end.

Definition new_choice (idx : list (option choice)) (ch : choice) : choice :=
  let underlying := pyslice idx (cstart ch) (cend ch) in
  match underlying with
  | [] => ch
  | _ => if forallb any_flag underlying then ch else merge_with ch (distinct_somes underlying)
  end.

Lemma place_choice_eq idx ch :
  place_choice idx ch = fold_left pstep (extract_varying_region (new_choice idx ch)) idx.
Proof. reflexivity. Qed.

Lemma nc_eq idx ch :
  new_choice idx ch =
  if forallb any_flag (pyslice idx (cstart ch) (cend ch)) then ch
  else merge_with ch (distinct_somes (pyslice idx (cstart ch) (cend ch))).
Proof. unfold new_choice. destruct (pyslice idx (cstart ch) (cend ch)); reflexivity. Qed.

Lemma pstep_spec idx c : 0 <= cstart c -> cstart c <= cend c -> cend c <= zlen idx ->
  zlen (pstep idx c) = zlen idx /\
  forall i, 0 <= i ->
    ix (pstep idx c) i = if (cstart c <=? i) && (i <? cend c) then Some (Some c) else ix idx i.
Proof.
  intros H1 H2 H3. unfold pstep. destruct (Z.ltb_spec (zlen idx) (cend c)) as [H|H]; [lia|].
  cbv zeta. split.
  - apply set_range_len; lia.
  - intros i Hi. unfold ix. apply set_range_nth; lia.
Qed.

Lemma fold_tiles : forall ps a b, tiles a b ps -> forall idx, 0 <= a -> b <= zlen idx ->
  zlen (fold_left pstep ps idx) = zlen idx /\
  (forall i, 0 <= i -> (i < a \/ b <= i) -> ix (fold_left pstep ps idx) i = ix idx i) /\
  (forall p i, In p ps -> cstart p <= i < cend p ->
     ix (fold_left pstep ps idx) i = Some (Some p)).
Proof.
  intros ps a b HT. induction HT as [a b Hab | a b c L Hc Hlt HT IH]; intros idx Ha Hb.
  - simpl. split; [reflexivity|]. split; [reflexivity | intros p i []].
  - pose proof (tiles_le _ _ _ HT) as Hle.
    destruct (pstep_spec idx c) as [L1 N1]; [lia | lia | lia |].
    simpl fold_left.
    destruct (IH (pstep idx c)) as (A & B & C); [lia | lia |].
    split; [lia|]. split.
    + intros i Hi Ho. rewrite B by lia. rewrite N1 by lia.
      destruct (Z.leb_spec (cstart c) i); destruct (Z.ltb_spec i (cend c)); simpl;
        try reflexivity; lia.
    + intros p i [Hp|Hp] Hi.
      * subst p. rewrite B by lia. rewrite N1 by lia.
        destruct (Z.leb_spec (cstart c) i); destruct (Z.ltb_spec i (cend c)); simpl;
          try reflexivity; lia.
      * apply C; assumption.
Qed.

(* writing a tiling of [a, b) over a partition, when [a, b) is a union of old segments *)
Lemma replace_spec n idx a b ps :
  Part n idx -> 0 <= a -> a < b -> b <= n -> tiles a b ps -> Forall wf_choice ps ->
  (forall c j, In (Some c) idx -> cstart c <= j < cend c -> a <= j < b ->
               a <= cstart c /\ cend c <= b) ->
  Part n (fold_left pstep ps idx) /\
  forall c, In (Some c) (fold_left pstep ps idx) <->
            In c ps \/ (In (Some c) idx /\ (cend c <= a \/ b <= cstart c)).
Proof.
  intros HP Ha Hab Hb HT Hwf Hcl.
  pose proof HP as (P1 & P2 & P3).
  destruct (fold_tiles ps a b HT idx Ha ltac:(lia)) as (F1 & F2 & F3).
  set (idx' := fold_left pstep ps idx) in *.
  rewrite Forall_forall in Hwf.
  assert (Hin : forall i, a <= i < b ->
            exists p, In p ps /\ cstart p <= i < cend p /\ ix idx' i = Some (Some p)).
  { intros i Hi. destruct (tiles_cover _ _ _ HT i Hi) as [p [Hp Hip]].
    exists p. split; [exact Hp|]. split; [exact Hip|]. apply F3; assumption. }
  assert (Hout : forall i c, 0 <= i -> (i < a \/ b <= i) -> ix idx i = Some (Some c) ->
            (cend c <= a \/ b <= cstart c)).
  { intros i c Hi Ho Hc. destruct (P3 i c Hi Hc) as (W & Hic & Hn & Hblk).
    assert (Hc' : In (Some c) idx) by (apply In_ix; exists i; auto).
    destruct Ho as [Ho|Ho].
    - left. destruct (Z.le_gt_cases (cend c) a) as [H|H]; [exact H|].
      destruct (Hcl c a Hc'); lia.
    - right. destruct (Z.le_gt_cases b (cstart c)) as [H|H]; [exact H|].
      destruct (Hcl c (b - 1) Hc'); lia. }
  split.
  - split; [lia|]. split.
    + intros i Hi.
      assert (Hcase : a <= i < b \/ (i < a \/ b <= i)) by lia.
      destruct Hcase as [Hi'|Ho].
      * destruct (Hin i Hi') as [p [_ [_ Hp]]]. exists p. exact Hp.
      * rewrite F2 by lia. apply P2. lia.
    + intros i c Hi Hc.
      assert (Hcase : a <= i < b \/ (i < a \/ b <= i)) by lia.
      destruct Hcase as [Hi'|Ho].
      * destruct (Hin i Hi') as [p [Hp [Hip Hp']]]. rewrite Hp' in Hc. inversion Hc; subst c.
        destruct (tiles_bounds _ _ _ HT p Hp) as (B1 & B2 & B3).
        split; [apply Hwf; exact Hp|]. split; [exact Hip|]. split; [lia|].
        intros j Hj. apply F3; assumption.
      * rewrite F2 in Hc by lia. destruct (P3 i c Hi Hc) as (W & Hic & Hn & Hblk).
        pose proof (Hout i c Hi Ho Hc) as Hoc.
        split; [exact W|]. split; [exact Hic|]. split; [exact Hn|].
        intros j Hj. destruct W as (W1 & _). rewrite F2 by lia. apply Hblk. exact Hj.
  - intro c. split.
    + intro H. apply In_ix in H. destruct H as [i [Hi Hc]].
      assert (Hcase : a <= i < b \/ (i < a \/ b <= i)) by lia.
      destruct Hcase as [Hi'|Ho].
      * destruct (Hin i Hi') as [p [Hp [Hip Hp']]]. rewrite Hp' in Hc. inversion Hc; subst c.
        left. exact Hp.
      * right. rewrite F2 in Hc by lia. split; [apply In_ix; exists i; auto|].
        eapply Hout; eauto.
    + intros [Hp | [Hc Ho]].
      * destruct (tiles_bounds _ _ _ HT c Hp) as (B1 & B2 & B3).
        apply In_ix. exists (cstart c). split; [lia|]. apply F3; [exact Hp | lia].
      * destruct (part_in _ _ _ HP Hc) as ((W1 & _) & Hn & Hblk).
        apply In_ix. exists (cstart c). split; [lia|]. rewrite F2 by lia. apply Hblk. lia.
Qed.

(* ------------------------------------------------------------------ *)
(* the initial "any nucleotide" choices                                 *)
(* ------------------------------------------------------------------ *)

Definition any_choice (i : Z) (x : nuc) : choice :=
  mkChoice i (i + 1) (map (fun y => [y]) (nuc_variants x)) true.

Definition AnyInv (idx : list (option choice)) : Prop :=
  forall c, In (Some c) idx -> cany c = true -> exists i x, c = any_choice i x.

Lemma nuc_variants_all x y : In y (nuc_variants x).
Proof. destruct x, y; vm_compute; tauto. Qed.

Lemma nuc_variants_nodup x : NoDup (map (fun y => [y]) (nuc_variants x)).
Proof. destruct x; vm_compute; repeat constructor; simpl; intuition discriminate. Qed.

Lemma nuc_variants_len x : Forall (fun v : dna => zlen v = 1) (map (fun y => [y]) (nuc_variants x)).
Proof. destruct x; vm_compute; repeat constructor. Qed.

Lemma wf_any i x : 0 <= i -> wf_choice (any_choice i x).
Proof.
  intro Hi. unfold wf_choice, any_choice. cbn [cstart cend cvariants].
  split; [lia|]. split; [apply nuc_variants_nodup|].
  replace (i + 1 - i) with 1 by lia. apply nuc_variants_len.
Qed.

Lemma any_holds i x t : 0 <= i -> i + 1 <= zlen t -> holds (any_choice i x) t.
Proof.
  intros Hi Ht. unfold holds, any_choice. cbn [cstart cend cvariants]. unfold slice.
  replace (Z.to_nat (i + 1 - i)) with 1%nat by lia.
  destruct (skipn (Z.to_nat i) t) as [|y r] eqn:E.
  - exfalso. pose proof (skipn_length (Z.to_nat i) t) as H. rewrite E in H. simpl in H.
    unfold zlen in Ht. lia.
  - simpl. apply (in_map (fun y0 : nuc => [y0]) (nuc_variants x) y). apply nuc_variants_all.
Qed.

Lemma nth_error_combine {A B} : forall (l1 : list A) (l2 : list B) k a b,
  nth_error l1 k = Some a -> nth_error l2 k = Some b -> nth_error (combine l1 l2) k = Some (a, b).
Proof.
  induction l1 as [|x l1 IH]; intros [|y l2] [|k] a b H1 H2; simpl in *; try discriminate.
  - congruence.
  - apply IH; assumption.
Qed.

Lemma nth_error_seq' : forall n s k, (k < n)%nat -> nth_error (seq s n) k = Some (s + k)%nat.
Proof.
  induction n as [|n IH]; intros s [|k] H; simpl; try lia.
  - f_equal. lia.
  - rewrite IH by lia. f_equal. lia.
Qed.

Lemma init_nth s k x : nth_error s k = Some x ->
  nth_error (initial_index s) k = Some (Some (any_choice (Z.of_nat k) x)).
Proof.
  intro H. unfold initial_index.
  assert (Hk : (k < List.length s)%nat) by (apply nth_error_Some; congruence).
  assert (Hc : nth_error (combine (zrange 0 (zlen s)) s) k = Some (Z.of_nat k, x)).
  { apply nth_error_combine; [|exact H]. unfold zrange.
    erewrite map_nth_error; [|apply nth_error_seq'; unfold zlen; lia]. f_equal. }
  rewrite (map_nth_error _ _ _ Hc). reflexivity.
Qed.

Lemma init_len s : zlen (initial_index s) = zlen s.
Proof.
  unfold initial_index, zlen, zrange.
  rewrite map_length, combine_length, map_length, seq_length. lia.
Qed.

Lemma init_ix s i c : 0 <= i -> ix (initial_index s) i = Some (Some c) ->
  exists x, nth_error s (Z.to_nat i) = Some x /\ c = any_choice i x.
Proof.
  intros Hi Hc. unfold ix in Hc.
  destruct (nth_error s (Z.to_nat i)) as [x|] eqn:E.
  - exists x. split; [reflexivity|]. rewrite (init_nth s _ x E) in Hc.
    rewrite Z2Nat.id in Hc by lia. congruence.
  - exfalso. apply nth_error_None in E.
    assert (Hn : nth_error (initial_index s) (Z.to_nat i) = None).
    { apply nth_error_None. pose proof (init_len s) as Hl. unfold zlen in Hl. lia. }
    congruence.
Qed.

Lemma init_part s : Part (zlen s) (initial_index s).
Proof.
  split; [apply init_len|]. split.
  - intros i Hi. destruct (nth_error s (Z.to_nat i)) as [x|] eqn:E.
    + exists (any_choice (Z.of_nat (Z.to_nat i)) x). apply init_nth. exact E.
    + exfalso. apply nth_error_None in E. unfold zlen in Hi. lia.
  - intros i c Hi Hc. destruct (init_ix s i c Hi Hc) as [x [Hx Ec]]. subst c.
    split; [apply wf_any; exact Hi|]. cbn [any_choice cstart cend].
    split; [lia|]. split.
    + assert (Hlt : (Z.to_nat i < List.length s)%nat) by (apply nth_error_Some; congruence).
      unfold zlen. lia.
    + intros j Hj. assert (Ej : j = i) by lia. subst j. exact Hc.
Qed.

Lemma init_any s : AnyInv (initial_index s).
Proof.
  intros c Hc _. apply In_ix in Hc. destruct Hc as [i [Hi Hc]].
  destruct (init_ix s i c Hi Hc) as [x [_ Ec]]. exists i, x. exact Ec.
Qed.

(* ------------------------------------------------------------------ *)
(* the invariant of the construction loop and its preservation          *)
(* ------------------------------------------------------------------ *)

Definition Inv (n : Z) (idx : list (option choice)) (done : list choice) : Prop :=
  Part n idx /\ AnyInv idx /\
  forall t, zlen t = n -> (member (mkSpace idx) t <-> forall r, In r done -> holds r t).

Lemma seg_cases (c : choice) a b : cstart c < cend c -> a < b ->
  (cend c <= a \/ b <= cstart c) \/ exists j, cstart c <= j < cend c /\ a <= j < b.
Proof.
  intros Hc Hab.
  destruct (Z.le_gt_cases (cend c) a) as [H1|H1]; [left; left; exact H1|].
  destruct (Z.le_gt_cases b (cstart c)) as [H2|H2]; [left; right; exact H2|].
  right. exists (Z.max (cstart c) a). lia.
Qed.

Lemma step_any n idx done ch :
  Inv n idx done -> wf_restriction n ch ->
  forallb any_flag (pyslice idx (cstart ch) (cend ch)) = true ->
  Inv n (fold_left pstep (extract_varying_region ch) idx) (ch :: done).
Proof.
  intros (HP & HA & HM) (R1 & R2 & R3 & R4 & R5 & R6) Eall.
  assert (Wch : wf_choice ch) by (split; [lia | split; assumption]).
  assert (Hany : forall c j, In (Some c) idx -> cstart c <= j < cend c ->
            cstart ch <= j < cend ch -> exists i x, c = any_choice i x).
  { intros c j Hc J1 J2. destruct (part_in _ _ _ HP Hc) as (_ & _ & Hblk).
    apply HA; [exact Hc|].
    rewrite forallb_forall in Eall. apply (Eall (Some c)).
    apply In_pyslice; [lia | lia |]. exists j. split; [exact J2 | apply Hblk; exact J1]. }
  assert (Hcl : forall c j, In (Some c) idx -> cstart c <= j < cend c ->
            cstart ch <= j < cend ch -> cstart ch <= cstart c /\ cend c <= cend ch).
  { intros c j Hc J1 J2. destruct (Hany c j Hc J1 J2) as (i & x & E). subst c.
    cbn [any_choice cstart cend] in *. lia. }
  destruct (replace_spec n idx (cstart ch) (cend ch) (extract_varying_region ch)
              HP R1 R2 R3 (evr_tiles ch Wch) (evr_wf ch Wch) Hcl) as [HP' HIn].
  split; [exact HP'|]. split.
  - intros c Hc Hca. apply HIn in Hc. destruct Hc as [Hc|[Hc _]].
    + rewrite (evr_cany ch Wch R6 c Hc) in Hca. discriminate.
    + apply HA; assumption.
  - intros t Ht. rewrite member_ix. split.
    + intros H r [Hr|Hr].
      * subst r. apply (extract_varying_region_exact ch t Wch ltac:(lia)).
        apply Forall_forall. intros p Hp. apply H. apply HIn. left. exact Hp.
      * revert r Hr. apply (HM t Ht). apply member_ix. intros c Hc.
        destruct (part_in _ _ _ HP Hc) as (W & Hn & _).
        destruct (seg_cases c (cstart ch) (cend ch) ltac:(destruct W; lia) R2)
          as [Ho|[j [J1 J2]]].
        -- apply H. apply HIn. right. split; assumption.
        -- destruct (Hany c j Hc J1 J2) as (i & x & E). subst c.
           destruct W as (W1 & _). cbn [any_choice cstart cend] in *.
           apply any_holds; lia.
    + intros H c Hc. apply HIn in Hc. destruct Hc as [Hp|[Hc _]].
      * assert (Hch : holds ch t) by (apply H; left; reflexivity).
        apply (extract_varying_region_exact ch t Wch ltac:(lia)) in Hch.
        rewrite Forall_forall in Hch. apply Hch. exact Hp.
      * assert (Hm : member (mkSpace idx) t).
        { apply (HM t Ht). intros r Hr. apply H. right. exact Hr. }
        rewrite member_ix in Hm. apply Hm. exact Hc.
Qed.

Lemma step_merge n idx done ch :
  Inv n idx done -> wf_restriction n ch ->
  forallb any_flag (pyslice idx (cstart ch) (cend ch)) = false ->
  Inv n (fold_left pstep
           (extract_varying_region
              (merge_with ch (distinct_somes (pyslice idx (cstart ch) (cend ch))))) idx)
        (ch :: done).
Proof.
  intros (HP & HA & HM) (R1 & R2 & R3 & R4 & R5 & R6) Eall.
  pose proof HP as (P1 & P2 & P3).
  set (others := distinct_somes (pyslice idx (cstart ch) (cend ch))).
  assert (Hoth : forall o, In o others <->
            exists i, cstart ch <= i < cend ch /\ ix idx i = Some (Some o)).
  { intro o. unfold others. rewrite ds_In. apply In_pyslice; lia. }
  assert (HSin : forall o, In o (sort_by_start others) <-> In o others).
  { intro o. split; intro H.
    - eapply Permutation_in; [apply sbs_perm | exact H].
    - eapply Permutation_in; [apply Permutation_sym, sbs_perm | exact H]. }
  (* facts about the sorted underlying choices *)
  assert (HSidx : forall o, In o (sort_by_start others) ->
            In (Some o) idx /\ wf_choice o /\ cend o <= n /\
            exists i, cstart ch <= i < cend ch /\ cstart o <= i < cend o).
  { intros o Ho. apply HSin, Hoth in Ho. destruct Ho as [i [Hi Ho]].
    destruct (P3 i o ltac:(lia) Ho) as (W & Hio & Hn & _).
    split; [apply In_ix; exists i; split; [lia | exact Ho]|].
    split; [exact W|]. split; [exact Hn|]. exists i. split; assumption. }
  assert (Hcov0 : forall i, cstart ch <= i < cend ch ->
            exists o, In o (sort_by_start others) /\ cstart o <= i < cend o).
  { intros i Hi. destruct (P2 i ltac:(lia)) as [o Ho]. exists o.
    split; [apply HSin, Hoth; exists i; split; assumption|].
    destruct (P3 i o ltac:(lia) Ho) as (_ & Hio & _). exact Hio. }
  assert (HsR : StronglySorted R (sort_by_start others)).
  { apply ss_convert.
    - apply sbs_sorted.
    - eapply Permutation_NoDup; [apply Permutation_sym, sbs_perm | apply ds_NoDup].
    - intros x y Hx Hy. apply (part_disj n idx); [exact HP | apply HSidx; exact Hx |
                                                   apply HSidx; exact Hy].
    - intros x Hx. destruct (HSidx x Hx) as (_ & (W & _) & _). lia. }
  destruct (sort_by_start others) as [|o0 S'] eqn:ES.
  { exfalso. destruct (Hcov0 (cstart ch) ltac:(lia)) as [o [[] _]]. }
  rewrite (merge_unfold ch others o0 S' ES).
  set (S := o0 :: S') in *.
  set (a := cstart o0). set (b := cend (last S o0)).
  assert (Hpos : forall o, In o S -> cstart o < cend o).
  { intros o Ho. destruct (HSidx o Ho) as (_ & (W & _) & _). lia. }
  assert (Hlast : In (last S o0) S) by (apply last_In; discriminate).
  assert (Ha_ss : a <= cstart ch).
  { destruct (Hcov0 (cstart ch) ltac:(lia)) as [o [Ho Hio]].
    destruct Ho as [Ho|Ho]; [subst o; unfold a; lia|].
    inversion HsR as [|x l _ Hf]; subst. rewrite Forall_forall in Hf.
    pose proof (Hf o Ho) as H1. pose proof (Hpos o0 (or_introl eq_refl)) as H2.
    unfold R in H1. unfold a. lia. }
  assert (Hse_b : cend ch <= b).
  { destruct (Hcov0 (cend ch - 1) ltac:(lia)) as [o [Ho Hio]].
    destruct (ss_last S o0 o HsR Ho) as [E|E].
    - unfold b. rewrite <- E. lia.
    - pose proof (Hpos _ Hlast) as H2. unfold R in E. unfold b. lia. }
  assert (Hcov : forall i, cstart (hd o0 S) <= i < cend (last S o0) ->
            exists o, In o S /\ cstart o <= i < cend o).
  { simpl hd. fold a. fold b. intros i Hi.
    assert (Hcase : i < cstart ch \/ cend ch <= i \/ cstart ch <= i < cend ch) by lia.
    destruct Hcase as [H|[H|H]].
    - exists o0. split; [left; reflexivity|].
      destruct (HSidx o0 (or_introl eq_refl)) as (_ & _ & _ & p & Hp1 & Hp2). unfold a in Hi. lia.
    - exists (last S o0). split; [exact Hlast|].
      destruct (HSidx _ Hlast) as (_ & _ & _ & p & Hp1 & Hp2). unfold b in Hi. lia.
    - apply Hcov0. exact H. }
  assert (HT : tiles a b S).
  { apply (tiles_of_sorted S o0); [discriminate | exact HsR | exact Hpos | exact Hcov]. }
  assert (Ha0 : 0 <= a).
  { destruct (HSidx o0 (or_introl eq_refl)) as (_ & (W & _) & _). unfold a. lia. }
  assert (Hbn : b <= n).
  { destruct (HSidx _ Hlast) as (_ & _ & Hn & _). exact Hn. }
  assert (Hlen : forall o, In o S -> Forall (fun v => zlen v = cend o - cstart o) (cvariants o)).
  { intros o Ho. destruct (HSidx o Ho) as (_ & (_ & _ & W) & _). exact W. }
  assert (Hov : forall o, In o S -> cstart o < cend ch /\ cstart ch < cend o).
  { intros o Ho. destruct (HSidx o Ho) as (_ & _ & _ & p & Hp1 & Hp2). lia. }
  set (M := mkChoice a b (nodup_dna (mfinals ch S a)) false).
  assert (WM : wf_choice M).
  { unfold wf_choice, M. cbn [cstart cend cvariants].
    split; [lia|]. split; [apply nodup_dna_NoDup|].
    apply Forall_forall. intros q Hq. rewrite nodup_dna_In in Hq.
    eapply mfinals_len; [exact HT | exact Hlen | exact Hq]. }
  assert (HMh : forall t, zlen t = n ->
            (holds M t <-> holds ch t /\ forall o, In o S -> holds o t)).
  { intros t Ht. unfold holds at 1. unfold M at 1 2 3. cbn [cstart cend cvariants].
    apply (merge_holds ch S a b t HT Ha0 ltac:(lia) Hlen Ha_ss R2 Hse_b Hov). }
  assert (Hmeet : forall c j, In (Some c) idx -> cstart c <= j < cend c -> a <= j < b -> In c S).
  { intros c j Hc J1 J2. destruct (tiles_cover _ _ _ HT j J2) as [o [Ho Hjo]].
    destruct (HSidx o Ho) as (Hoi & _).
    rewrite (part_unique n idx c o j HP Hc Hoi J1 Hjo). exact Ho. }
  assert (Hcl : forall c j, In (Some c) idx -> cstart c <= j < cend c -> a <= j < b ->
            a <= cstart c /\ cend c <= b).
  { intros c j Hc J1 J2. pose proof (Hmeet c j Hc J1 J2) as Hs.
    destruct (tiles_bounds _ _ _ HT c Hs) as (B1 & B2 & B3). lia. }
  assert (Hab : a < b) by lia.
  destruct (replace_spec n idx a b (extract_varying_region M)
              HP Ha0 Hab Hbn (evr_tiles M WM) (evr_wf M WM) Hcl) as [HP' HIn].
  split; [exact HP'|]. split.
  - intros c Hc Hca. apply HIn in Hc. destruct Hc as [Hc|[Hc _]].
    + rewrite (evr_cany M WM eq_refl c Hc) in Hca. discriminate.
    + apply HA; assumption.
  - intros t Ht. rewrite member_ix.
    assert (HcM : cend M <= zlen t) by (unfold M; cbn [cend]; lia).
    split.
    + intros H.
      assert (HhM : holds M t).
      { apply (extract_varying_region_exact M t WM HcM).
        apply Forall_forall. intros p Hp. apply H. apply HIn. left. exact Hp. }
      apply (HMh t Ht) in HhM. destruct HhM as [Hch HS].
      intros r [Hr|Hr]; [subst r; exact Hch|].
      revert r Hr. apply (HM t Ht). apply member_ix. intros c Hc.
      destruct (part_in _ _ _ HP Hc) as (W & Hn & _).
      destruct (seg_cases c a b ltac:(destruct W; lia) Hab) as [Ho|[j [J1 J2]]].
      * apply H. apply HIn. right. split; assumption.
      * apply HS. apply (Hmeet c j Hc J1 J2).
    + intros H.
      assert (Hm : member (mkSpace idx) t).
      { apply (HM t Ht). intros r Hr. apply H. right. exact Hr. }
      rewrite member_ix in Hm.
      intros c Hc. apply HIn in Hc. destruct Hc as [Hp|[Hc _]].
      * assert (HhM : holds M t).
        { apply (HMh t Ht). split; [apply H; left; reflexivity|].
          intros o Ho. apply Hm. apply HSidx. exact Ho. }
        apply (extract_varying_region_exact M t WM HcM) in HhM.
        rewrite Forall_forall in HhM. apply HhM. exact Hp.
      * apply Hm. exact Hc.
Qed.

Lemma step n idx done ch :
  Inv n idx done -> wf_restriction n ch -> Inv n (place_choice idx ch) (ch :: done).
Proof.
  intros HI Hr. rewrite place_choice_eq, nc_eq.
  destruct (forallb any_flag (pyslice idx (cstart ch) (cend ch))) eqn:E.
  - apply step_any; assumption.
  - apply step_merge; assumption.
Qed.

Lemma fold_inv n : forall l idx done, Inv n idx done -> Forall (wf_restriction n) l ->
  Inv n (fold_left place_choice l idx) (rev l ++ done).
Proof.
  induction l as [|r l IH]; intros idx done HI Hl; simpl; [exact HI|].
  inversion Hl as [|r' l' Hr Hl']; subst.
  rewrite <- app_assoc. simpl. apply IH; [apply step; assumption | exact Hl'].
Qed.

Lemma insert_stable_In x l y : In y (insert_stable x l) <-> y = x \/ In y l.
Proof.
  induction l as [|z l IH]; simpl.
  - split; intros [H|H]; auto.
  - destruct (rkey_ltb z x); simpl; [rewrite IH|]; split; intros H;
      repeat (destruct H as [H|H]); auto.
Qed.

Lemma sort_restrictions_In l y : In y (sort_restrictions l) <-> In y l.
Proof.
  induction l as [|x l IH]; simpl; [tauto|].
  unfold sort_restrictions in *. simpl. rewrite insert_stable_In, IH.
  split; intros [H|H]; auto.
Qed.

Lemma final_inv s rs : Forall (wf_restriction (zlen s)) rs ->
  Inv (zlen s) (choices_index (from_constraints s rs)) (rev (sort_restrictions rs) ++ []).
Proof.
  intro H. unfold from_constraints, from_constraints_on. simpl choices_index.
  apply fold_inv.
  - split; [apply init_part|]. split; [apply init_any|].
    intros t Ht. rewrite member_ix. split.
    + intros _ r [].
    + intros _ c Hc. apply In_ix in Hc. destruct Hc as [i [Hi Hc]].
      destruct (init_ix s i c Hi Hc) as [x [Hx Ec]]. subst c.
      assert (Hlt : (Z.to_nat i < List.length s)%nat) by (apply nth_error_Some; congruence).
      apply any_holds; [exact Hi | unfold zlen in *; lia].
  - rewrite Forall_forall in *. intros r Hr. apply H. apply sort_restrictions_In. exact Hr.
Qed.

Lemma space_eta ms : ms = mkSpace (choices_index ms).
Proof. destruct ms; reflexivity. Qed.

Theorem from_constraints_exact : forall s rs t,
  Forall (wf_restriction (zlen s)) rs -> zlen t = zlen s ->
  (member (from_constraints s rs) t <-> Forall (fun r => holds r t) rs).
Proof.
  intros s rs t Hrs Ht. destruct (final_inv s rs Hrs) as (_ & _ & HM).
  rewrite (space_eta (from_constraints s rs)). rewrite (HM t Ht). rewrite Forall_forall.
  split; intros H r Hr; apply H.
  - rewrite app_nil_r, <- in_rev, sort_restrictions_In. exact Hr.
  - rewrite app_nil_r, <- in_rev, sort_restrictions_In in Hr. exact Hr.
Qed.

(* ------------------------------------------------------------------ *)
(* a partition index is a well-formed space                             *)
(* ------------------------------------------------------------------ *)

Definition RO (x y : option choice) : Prop :=
  forall c c', x = Some c -> y = Some c' -> c = c' \/ R c c'.

Lemma dedupe_sorted : forall l prev,
  (forall c, In (Some c) l -> cstart c < cend c) ->
  StronglySorted RO l ->
  (forall p c, prev = Some p -> In (Some c) l -> c = p \/ R p c) ->
  StronglySorted R (dedupe prev l) /\ (forall p, prev = Some p -> Forall (R p) (dedupe prev l)).
Proof.
  induction l as [|[c|] l IH]; intros prev Hne Hs Hprev.
  - simpl. split; [constructor | intros; constructor].
  - inversion Hs as [|x l' Hs' Hf]; subst. rewrite Forall_forall in Hf.
    assert (Hne' : forall c', In (Some c') l -> cstart c' < cend c').
    { intros c' Hc'. apply Hne. right. exact Hc'. }
    assert (Hc : forall p c', Some c = Some p -> In (Some c') l -> c' = p \/ R p c').
    { intros p c' Ep Hc'. inversion Ep; subst p.
      destruct (Hf (Some c') Hc' c c' eq_refl eq_refl) as [E|E]; [left; congruence | right; exact E]. }
    destruct (IH (Some c) Hne' Hs' Hc) as [IH1 IH2].
    assert (Hcons : StronglySorted R (c :: dedupe (Some c) l)).
    { constructor; [exact IH1 | apply IH2; reflexivity]. }
    simpl. destruct prev as [p|].
    + destruct (choice_eqb c p) eqn:E.
      * apply IH; [exact Hne' | exact Hs' |].
        intros p0 c' Ep Hc'. apply (Hprev p0 c' Ep). right. exact Hc'.
      * split; [exact Hcons|]. intros p0 Ep. inversion Ep; subst p0.
        assert (Hpc : R p c).
        { destruct (Hprev p c eq_refl (or_introl eq_refl)) as [E'|E']; [|exact E'].
          subst p. assert (Ht : choice_eqb c c = true) by (apply choice_eqb_eq; reflexivity).
          congruence. }
        constructor; [exact Hpc|].
        pose proof (Hne c (or_introl eq_refl)) as Hcc.
        eapply Forall_impl; [|apply IH2; reflexivity].
        intros c' Hcc'. unfold R in *. lia.
    + split; [exact Hcons | intros p Ep; discriminate].
  - inversion Hs as [|x l' Hs' Hf]; subst. simpl. apply IH; [| exact Hs' |].
    + intros c Hc. apply Hne. right. exact Hc.
    + intros p c Ep Hc. apply (Hprev p c Ep). right. exact Hc.
Qed.

Lemma ss_of_nth {X} (P : X -> X -> Prop) : forall l : list X,
  (forall i j x y, (i < j)%nat -> nth_error l i = Some x -> nth_error l j = Some y -> P x y) ->
  StronglySorted P l.
Proof.
  induction l as [|a l IH]; intro H; [constructor|].
  constructor.
  - apply IH. intros i j x y Hij Hx Hy. apply (H (S i) (S j) x y); [lia | exact Hx | exact Hy].
  - apply Forall_forall. intros y Hy. apply In_nth_error in Hy. destruct Hy as [j Hj].
    apply (H 0%nat (S j) a y); [lia | reflexivity | exact Hj].
Qed.

Lemma part_sorted n idx : Part n idx -> StronglySorted RO idx.
Proof.
  intros HP. pose proof HP as (P1 & P2 & P3).
  apply ss_of_nth. intros i j x y Hij Hx Hy c c' Ex Ey. subst x y.
  assert (Hx' : ix idx (Z.of_nat i) = Some (Some c)) by (unfold ix; rewrite Nat2Z.id; exact Hx).
  assert (Hy' : ix idx (Z.of_nat j) = Some (Some c')) by (unfold ix; rewrite Nat2Z.id; exact Hy).
  destruct (P3 (Z.of_nat i) c ltac:(lia) Hx') as (_ & Hic & _).
  destruct (P3 (Z.of_nat j) c' ltac:(lia) Hy') as (_ & Hjc & _).
  destruct (part_disj n idx c c' HP) as [E|[E|E]].
  - apply In_ix. exists (Z.of_nat i). split; [lia | exact Hx'].
  - apply In_ix. exists (Z.of_nat j). split; [lia | exact Hy'].
  - left. exact E.
  - right. exact E.
  - exfalso. unfold R in E. lia.
Qed.

Lemma part_wf n idx : Part n idx ->
  wf_space (mkSpace idx) /\ (forall c, In c (choices_list (mkSpace idx)) -> cend c <= n).
Proof.
  intros HP. pose proof HP as (P1 & P2 & P3).
  unfold wf_space, choices_list. simpl choices_index.
  split; [split; [|split; [|split]]|].
  - apply Forall_forall. intros c Hc. apply In_dedupe_None in Hc.
    destruct (part_in _ _ _ HP Hc) as (W & _). exact W.
  - apply (dedupe_sorted idx None).
    + intros c Hc. destruct (part_in _ _ _ HP Hc) as ((W & _) & _). lia.
    + apply (part_sorted n). exact HP.
    + intros p c Ep. discriminate.
  - intros i c Hi Hc. split.
    + apply In_dedupe_None. eapply nth_error_In. exact Hc.
    + destruct (P3 i c Hi Hc) as (_ & Hic & _). exact Hic.
  - intros c i Hc Hi. apply In_dedupe_None in Hc.
    destruct (part_in _ _ _ HP Hc) as (_ & _ & Hblk). apply Hblk. exact Hi.
  - intros c Hc. apply In_dedupe_None in Hc.
    destruct (part_in _ _ _ HP Hc) as (_ & Hn & _). exact Hn.
Qed.

Theorem from_constraints_wf : forall s rs,
  Forall (wf_restriction (zlen s)) rs ->
  wf_space (from_constraints s rs) /\
  (forall c, In c (choices_list (from_constraints s rs)) -> cend c <= zlen s).
Proof.
  intros s rs Hrs. destruct (final_inv s rs Hrs) as (HP & _ & _).
  rewrite (space_eta (from_constraints s rs)). apply part_wf. exact HP.
Qed.

(* ------------------------------------------------------------------ *)
(* a space all of whose choices have a variant is inhabited             *)
(* ------------------------------------------------------------------ *)

Fixpoint build (k : nat) (l : list (option choice)) : dna :=
  match l with
  | [] => []
  | oc :: l' =>
      (match oc with
       | Some c => nth (k - Z.to_nat (cstart c)) (hd [] (cvariants c)) nA
       | None => nA
       end) :: build (S k) l'
  end.

Lemma build_nth : forall l k j c, nth_error l j = Some (Some c) ->
  nth_error (build k l) j = Some (nth (k + j - Z.to_nat (cstart c)) (hd [] (cvariants c)) nA).
Proof.
  induction l as [|oc l IH]; intros k [|j] c H; simpl in *; try discriminate.
  - inversion H; subst. rewrite Nat.add_0_r. reflexivity.
  - rewrite (IH (S k) j c H). replace (S k + j)%nat with (k + S j)%nat by lia. reflexivity.
Qed.

Lemma build_len : forall l k, List.length (build k l) = List.length l.
Proof. induction l as [|oc l IH]; intro k; simpl; [reflexivity | rewrite IH; reflexivity]. Qed.

Lemma part_inhabited n idx : Part n idx ->
  (forall c, In (Some c) idx -> cvariants c <> []) ->
  exists t, zlen t = n /\ member (mkSpace idx) t.
Proof.
  intros HP Hne. pose proof HP as (P1 & P2 & P3).
  exists (build 0 idx). split; [unfold zlen in *; rewrite build_len; exact P1|].
  apply member_ix. intros c Hc.
  destruct (part_in _ _ _ HP Hc) as ((W1 & W2 & W3) & Hn & Hblk).
  destruct (cvariants c) as [|v vs] eqn:Ev; [exfalso; apply (Hne c Hc); exact Ev|].
  unfold holds. rewrite Ev. left.
  assert (Hvl : zlen v = cend c - cstart c).
  { rewrite Forall_forall in W3. apply W3. left. reflexivity. }
  apply nth_error_ext. intro j. rewrite nth_error_slice.
  destruct (Nat.ltb_spec j (Z.to_nat (cend c - cstart c))) as [Hlt|Hge].
  - assert (Hix : ix idx (cstart c + Z.of_nat j) = Some (Some c)) by (apply Hblk; lia).
    unfold ix in Hix. replace (Z.to_nat (cstart c + Z.of_nat j)) with (Z.to_nat (cstart c) + j)%nat
      in Hix by lia.
    rewrite (build_nth idx 0 _ c Hix). rewrite Ev. simpl hd.
    replace (0 + (Z.to_nat (cstart c) + j) - Z.to_nat (cstart c))%nat with j by lia.
    apply nth_error_nth'. unfold zlen in Hvl. lia.
  - apply nth_error_None. unfold zlen in Hvl. lia.
Qed.

(* "unsolvable": some choice of the final space has no variant  <->  no sequence of that length
   satisfies all the restrictions *)
Theorem unsolvable_iff_no_sequence : forall s rs,
  Forall (wf_restriction (zlen s)) rs ->
  ((exists c, In c (choices_list (from_constraints s rs)) /\ cvariants c = []) <->
   ~ (exists t, zlen t = zlen s /\ Forall (fun r => holds r t) rs)).
Proof.
  intros s rs Hrs. split.
  - intros [c [Hc Hv]] [t [Ht Hall]].
    apply (from_constraints_exact s rs t Hrs Ht) in Hall.
    unfold member in Hall. rewrite Forall_forall in Hall.
    specialize (Hall c Hc). unfold holds in Hall. rewrite Hv in Hall. exact Hall.
  - intro Hno.
    set (f := fun c : choice => match cvariants c with [] => true | _ => false end).
    destruct (existsb f (choices_list (from_constraints s rs))) eqn:E.
    + apply existsb_exists in E. destruct E as [c [Hc Hf]]. exists c. split; [exact Hc|].
      unfold f in Hf. destruct (cvariants c); [reflexivity | discriminate].
    + exfalso. apply Hno.
      destruct (final_inv s rs Hrs) as (HP & _ & _).
      destruct (part_inhabited _ _ HP) as [t [Ht Hm]].
      * intros c Hc Hv.
        assert (Hex : existsb f (choices_list (from_constraints s rs)) = true).
        { apply existsb_exists. exists c. split.
          - unfold choices_list. apply In_dedupe_None. exact Hc.
          - unfold f. rewrite Hv. reflexivity. }
        congruence.
      * exists t. split; [exact Ht|].
        apply (from_constraints_exact s rs t Hrs Ht).
        rewrite (space_eta (from_constraints s rs)). exact Hm.
Qed.

(* ------------------------------------------------------------------ *)
(* why wf_restriction needs [cany r = false]                            *)
(* ------------------------------------------------------------------ *)
(* A restriction flagged "any" is silently overwritten by a later restriction that covers it
   (place_choice takes the branch "all underlying choices are any-choices" and does not merge):
   sequence AC, restrictions {[0,1) in {A}, flagged any} and {[0,2) in {CC, CG}}.  The final
   space accepts CC although CC violates the first restriction, and all the other clauses of
   wf_restriction hold. *)
Example cany_false_needed :
  let s := [nA; nC] in
  let r1 := mkChoice 0 1 [[nA]] true in
  let r2 := mkChoice 0 2 [[nC; nC]; [nC; nG]] false in
  let t := [nC; nC] in
  zlen t = zlen s /\ in_space (from_constraints s [r1; r2]) t = true /\ ~ holds r1 t.
Proof.
  cbv zeta. split; [reflexivity|]. split; [vm_compute; reflexivity|].
  unfold holds. vm_compute. intros [H|[]]. discriminate.
Qed.
