(* C10 / C20 lemmas: the evaluation algorithms of the built-in classes compute their documented
   formulas, and failing evaluations report non-empty breach locations that lie inside the
   specification's span and cover every breach. *)
From Coq Require Import ZArith QArith Qminmax Qabs Bool List Ascii String Lia.
From Coq Require Import Lqa Sorting.Sorted Permutation.
From DC Require Import Model.Base Model.Loc Model.Bio Model.Pattern Model.MSpace Model.Specs
                       Generated.GenTables Proofs.SpecsDefs Proofs.PatternProofs Proofs.BioB Proofs.BioC.
From DC Require Import Proofs.SpecsLocalA Proofs.SpecsLocalB.
Import ListNotations.
Open Scope Z_scope.

(* position i is covered by one of the locations *)
Definition covered (ls : list loc) (i : Z) : Prop := exists l, In l ls /\ lstart l <= i < lend l.
(* the span [a, b) is inside one of the locations *)
Definition span_covered (ls : list loc) (a b : Z) : Prop := exists l, In l ls /\ lstart l <= a /\ b <= lend l.
Definition all_within (ls : list loc) (a b : Z) : Prop := forall l, In l ls -> a <= lstart l /\ lstart l <= lend l /\ lend l <= b.

(* ------------------------------------------------------------------ *)
(* helpers: sorted lists cut into consecutive groups *)

Lemma SS_app_inv {A} (R : A -> A -> Prop) (l1 l2 : list A) :
  StronglySorted R (l1 ++ l2) -> StronglySorted R l1 /\ StronglySorted R l2.
Proof.
  induction l1 as [|a l1 IH]; intros H.
  - split; [constructor | exact H].
  - cbn [app] in H. inversion H as [|a' l' Hs Hall]; subst.
    destruct (IH Hs) as [H1 H2]. split; [|exact H2].
    constructor; [exact H1|]. apply Forall_app in Hall. tauto.
Qed.

Lemma SS_concat_group {A} (R : A -> A -> Prop) (gs : list (list A)) (g : list A) :
  StronglySorted R (List.concat gs) -> In g gs -> StronglySorted R g.
Proof.
  induction gs as [|h gs IH]; intros H Hin; [destruct Hin|].
  cbn [List.concat] in H. apply SS_app_inv in H. destruct H as [H1 H2].
  destruct Hin as [Heq|Hin]; [subst h; exact H1 | exact (IH H2 Hin)].
Qed.

Lemma last_in {A} (l : list A) (d : A) : l <> [] -> In (last l d) l.
Proof.
  induction l as [|a l IH]; intros Hne; [contradiction|].
  destruct l as [|b l].
  - left. reflexivity.
  - change (last (a :: b :: l) d) with (last (b :: l) d). right. apply IH. discriminate.
Qed.

Lemma SS_last {A} (R : A -> A -> Prop) (Hrefl : forall x, R x x) (l : list A) (d x : A) :
  StronglySorted R l -> In x l -> R x (last l d).
Proof.
  induction l as [|a l IH]; intros Hs Hin; [destruct Hin|].
  inversion Hs as [|a' l' Hs' Hall]; subst.
  destruct l as [|b l].
  - destruct Hin as [Heq|[]]. subst x. apply Hrefl.
  - change (last (a :: b :: l) d) with (last (b :: l) d).
    destruct Hin as [Heq|Hin].
    + subst x. rewrite Forall_forall in Hall. apply Hall. apply last_in. discriminate.
    + apply IH; assumption.
Qed.

Lemma SS_hd {A} (R : A -> A -> Prop) (Hrefl : forall x, R x x) (f : A) (rest : list A) (x : A) :
  StronglySorted R (f :: rest) -> In x (f :: rest) -> R f x.
Proof.
  intros Hs Hin. inversion Hs as [|a' l' Hs' Hall]; subst.
  destruct Hin as [Heq|Hin]; [subst x; apply Hrefl|].
  rewrite Forall_forall in Hall. apply Hall. exact Hin.
Qed.

Lemma zlen_zero_nil {X} (l : list X) : zlen l = 0 <-> l = [].
Proof.
  split.
  - intros H. destruct l as [|x l]; [reflexivity|]. unfold zlen in H. cbn [List.length] in H. lia.
  - intros Heq. subst l. reflexivity.
Qed.

(* ---- binned intervals (AvoidChanges, EnforceChanges, EnforceSequence) *)

Lemma intervals_groups idx spread g :
  In g (group_nearby_indices idx None (Some spread)) ->
  g <> [] /\ StronglySorted Z.le g /\ (forall x, In x g -> In x idx).
Proof.
  intros Hg.
  destruct (group_nearby_indices_spec idx None (Some spread)) as [Hc [Hok _]].
  destruct (sort_z_sorted_perm idx) as [Hperm Hsorted].
  split; [|split].
  - rewrite Forall_forall in Hok. specialize (Hok g Hg). intros Heq. subst g. exact Hok.
  - apply (SS_concat_group Z.le _ g) in Hg; [exact Hg|]. rewrite Hc. exact Hsorted.
  - intros x Hx. apply (Permutation_in x (Permutation_sym Hperm)).
    rewrite <- Hc. apply in_concat. exists g. split; assumption.
Qed.

Theorem intervals_of_cover : forall idx spread i, 1 <= spread -> In i idx -> covered (intervals_of idx spread) i.
Proof.
  intros idx spread i _ Hi.
  destruct (group_nearby_indices_spec idx None (Some spread)) as [Hc _].
  destruct (sort_z_sorted_perm idx) as [Hperm _].
  assert (Hin : In i (List.concat (group_nearby_indices idx None (Some spread)))).
  { rewrite Hc. apply (Permutation_in i Hperm). exact Hi. }
  apply in_concat in Hin. destruct Hin as [g [Hg Hig]].
  destruct (intervals_groups idx spread g Hg) as [Hne [Hs _]].
  destruct g as [|f rest]; [contradiction|].
  exists (mkLoc f (last (f :: rest) f + 1) 1). split.
  - unfold intervals_of. apply in_map_iff. exists (f :: rest). split; [reflexivity | exact Hg].
  - cbn [lstart lend].
    pose proof (SS_hd Z.le Z.le_refl f rest i Hs Hig) as H1.
    pose proof (SS_last Z.le Z.le_refl (f :: rest) f i Hs Hig) as H2.
    lia.
Qed.

Theorem intervals_of_within : forall idx spread lo hi,
  (forall i, In i idx -> lo <= i < hi) -> all_within (intervals_of idx spread) lo hi.
Proof.
  intros idx spread lo hi Hb l Hl. unfold intervals_of in Hl.
  apply in_map_iff in Hl. destruct Hl as [g [Heq Hg]].
  destruct (intervals_groups idx spread g Hg) as [Hne [Hs Hsub]].
  destruct g as [|f rest]; [contradiction|]. subst l. cbn [lstart lend].
  assert (Hf : In f (f :: rest)) by (left; reflexivity).
  assert (Hl : In (last (f :: rest) f) (f :: rest)) by (apply last_in; discriminate).
  pose proof (Hb f (Hsub f Hf)) as B1.
  pose proof (Hb _ (Hsub _ Hl)) as B2.
  pose proof (SS_hd Z.le Z.le_refl f rest _ Hs Hl) as H1.
  lia.
Qed.

Theorem intervals_of_nonempty : forall idx spread, idx <> [] -> intervals_of idx spread <> [].
Proof.
  intros idx spread Hne Heq. unfold intervals_of in Heq. apply map_eq_nil in Heq.
  destruct (group_nearby_indices_spec idx None (Some spread)) as [Hc _].
  rewrite Heq in Hc. cbn [List.concat] in Hc.
  destruct (sort_z_sorted_perm idx) as [Hperm _].
  rewrite <- Hc in Hperm. apply Permutation_sym, Permutation_nil in Hperm.
  apply Hne. exact Hperm.
Qed.

(* ---- AvoidPattern / EnforcePatternOccurence: number of occurrences on the requested strands *)
Definition n_fwd (P : pattern) (s : dna) (a b : Z) : Z :=
  zlen (filter (fun i => (i + psize P <=? b) && occurs_fwd P s i) (zrange a (b + 1))).
Definition n_rev (P : pattern) (s : dna) (a b : Z) : Z :=
  zlen (filter (fun i => (a <=? i) && occurs_rev P s i) (map (fun j => b - psize P - j) (zrange 0 (b - a + 1)))).
Definition n_occ (P : pattern) (s : dna) (l : loc) : Z :=
  if lstrand l =? 1 then n_fwd P s (lstart l) (lend l)
  else if lstrand l =? -1 then (if is_palindromic P then n_fwd P s (lstart l) (lend l) else n_rev P s (lstart l) (lend l))
  else n_fwd P s (lstart l) (lend l) + (if is_palindromic P then 0 else n_rev P s (lstart l) (lend l)).

Lemma zlen_find_matches_nocc P s a b st : 0 <= psize P -> 0 <= a <= b -> b <= zlen s ->
  zlen (find_matches P s (mkLoc a b st)) = n_occ P s (mkLoc a b st).
Proof.
  intros Hk Hab Hb. rewrite find_matches_dispatch. unfold n_occ, n_fwd, n_rev.
  cbn [lstart lend lstrand].
  destruct (st =? 1).
  - rewrite find_forced_forward by lia. apply zlen_map.
  - destruct (st =? -1).
    + destruct (is_palindromic P).
      * rewrite find_forced_forward by lia. apply zlen_map.
      * rewrite find_forced_reverse by lia. apply zlen_map.
    + rewrite zlen_app. rewrite find_forced_forward by lia. rewrite zlen_map.
      destruct (is_palindromic P).
      * rewrite zlen_nil. reflexivity.
      * rewrite find_forced_reverse by lia. rewrite zlen_map. reflexivity.
Qed.

Definition match_ok (P : pattern) (a b : Z) (m : loc) : Prop :=
  a <= lstart m /\ lend m - lstart m = psize P /\ lend m <= b.

Lemma forced_fwd_ok P s a b st m : 0 <= psize P -> 0 <= a <= b -> b <= zlen s ->
  In m (find_forced P s (mkLoc a b st) 1) -> match_ok P a b m.
Proof.
  intros Hk Hab Hb Hin. rewrite find_forced_forward in Hin by lia.
  apply in_map_iff in Hin. destruct Hin as [i [Heq Hi]]. subst m.
  apply filter_In in Hi. destruct Hi as [Hr Hc].
  apply pz_in_zrange in Hr. apply andb_true_iff in Hc. destruct Hc as [Hc _].
  apply Z.leb_le in Hc. unfold match_ok. cbn [lstart lend]. lia.
Qed.

Lemma forced_rev_ok P s a b st m : 0 <= psize P -> 0 <= a <= b -> b <= zlen s ->
  In m (find_forced P s (mkLoc a b st) (-1)) -> match_ok P a b m.
Proof.
  intros Hk Hab Hb Hin. rewrite find_forced_reverse in Hin by lia.
  apply in_map_iff in Hin. destruct Hin as [i [Heq Hi]]. subst m.
  apply filter_In in Hi. destruct Hi as [Hr Hc].
  apply in_map_iff in Hr. destruct Hr as [j [Hj Hjr]]. apply pz_in_zrange in Hjr.
  apply andb_true_iff in Hc. destruct Hc as [Hc _].
  apply Z.leb_le in Hc. unfold match_ok. cbn [lstart lend]. lia.
Qed.

Lemma find_matches_ok P s a b st m : 0 <= psize P -> 0 <= a <= b -> b <= zlen s ->
  In m (find_matches P s (mkLoc a b st)) -> match_ok P a b m.
Proof.
  intros Hk Hab Hb Hin. rewrite find_matches_dispatch in Hin. cbn [lstrand] in Hin.
  destruct (st =? 1).
  - apply (forced_fwd_ok P s a b st); assumption.
  - destruct (st =? -1).
    + destruct (is_palindromic P).
      * apply (forced_fwd_ok P s a b st); assumption.
      * apply (forced_rev_ok P s a b st); assumption.
    + apply in_app_or in Hin. destruct Hin as [Hin|Hin].
      * apply (forced_fwd_ok P s a b st); assumption.
      * destruct (is_palindromic P); [destruct Hin|].
        apply (forced_rev_ok P s a b st); assumption.
Qed.

Lemma passes_zq n : passes (mkEv (zq n) None) = true <-> 0 <= n.
Proof.
  unfold passes. cbn [score]. rewrite Qle_bool_iff. unfold zq.
  change 0%Q with (inject_Z 0). rewrite <- Zle_Qle. tauto.
Qed.

Lemma passes_score e : passes e = true <-> (0 <= score e)%Q.
Proof. unfold passes. apply Qle_bool_iff. Qed.

Lemma passes_zq_score e n : score e = zq n -> (passes e = true <-> 0 <= n).
Proof.
  intros Hs. rewrite passes_score, Hs. unfold zq.
  change 0%Q with (inject_Z 0). rewrite <- Zle_Qle. tauto.
Qed.

Theorem avoid_pattern_meaning : forall P l s, 1 <= psize P -> loc_in l (zlen s) ->
  let e := eval_avoid_pattern P l s in
  score e = zq (- n_occ P s l) /\
  (passes e = true <-> n_occ P s l = 0) /\
  (exists ls, locs e = Some ls /\ zlen ls = n_occ P s l /\
     all_within ls (lstart l) (lend l) /\ Forall (fun m => lend m - lstart m = psize P) ls).
Proof.
  intros P [a b st] s Hk Hin. unfold loc_in in Hin. cbn [lstart lend lstrand] in Hin.
  destruct Hin as [Ha [Hab [Hb Hst]]]. cbv zeta.
  pose proof (zlen_find_matches_nocc P s a b st ltac:(lia) ltac:(lia) Hb) as Hn.
  assert (Hsc : score (eval_avoid_pattern P (mkLoc a b st) s) = zq (- n_occ P s (mkLoc a b st))).
  { unfold eval_avoid_pattern. cbn [score]. rewrite Hn. reflexivity. }
  split; [exact Hsc|]. split.
  - rewrite (passes_zq_score _ _ Hsc).
    pose proof (zlen_nonneg (find_matches P s (mkLoc a b st))) as Hnn. lia.
  - exists (find_matches P s (mkLoc a b st)). split; [reflexivity|]. split; [exact Hn|].
    cbn [lstart lend]. split.
    + intros m Hm. apply (find_matches_ok P s a b st m) in Hm; try lia.
      unfold match_ok in Hm. lia.
    + apply Forall_forall. intros m Hm. apply (find_matches_ok P s a b st m) in Hm; try lia.
      unfold match_ok in Hm. lia.
Qed.

Theorem pattern_occ_meaning : forall P occ l s, 0 <= psize P -> loc_in l (zlen s) ->
  let e := eval_pattern_occ P occ l s in
  score e = zq (- Z.abs (n_occ P s l - occ)) /\ (passes e = true <-> n_occ P s l = occ) /\ locs e = Some [l].
Proof.
  intros P occ [a b st] s Hk Hin. unfold loc_in in Hin. cbn [lstart lend lstrand] in Hin.
  destruct Hin as [Ha [Hab [Hb Hst]]]. cbv zeta.
  pose proof (zlen_find_matches_nocc P s a b st Hk ltac:(lia) Hb) as Hn.
  assert (Hsc : score (eval_pattern_occ P occ (mkLoc a b st) s) =
                zq (- Z.abs (n_occ P s (mkLoc a b st) - occ))).
  { unfold eval_pattern_occ. cbn [score]. rewrite Hn. reflexivity. }
  split; [exact Hsc|]. split; [|reflexivity].
  rewrite (passes_zq_score _ _ Hsc). lia.
Qed.

(* ---- EnforceGCContent *)
Definition gc_frac (s : dna) (i w : Z) : Q := count_gc (slice s i (i + w)) # Z.to_pos w.

Lemma breach_le0_iff mini maxi g : (breach mini maxi g <= 0)%Q <-> ((mini <= g)%Q /\ (g <= maxi)%Q).
Proof.
  unfold breach.
  destruct (Q.max_spec 0 (mini - g)) as [[H1 H1']|[H1 H1']];
  destruct (Q.max_spec 0 (g - maxi)) as [[H2 H2']|[H2 H2']];
  split; intros H; try split; lra.
Qed.

Lemma breach_pos_iff mini maxi g : Qle_bool (breach mini maxi g) 0 = false <-> ~ ((mini <= g)%Q /\ (g <= maxi)%Q).
Proof.
  rewrite <- breach_le0_iff, <- Qle_bool_iff.
  destruct (Qle_bool (breach mini maxi g) 0).
  - split; [discriminate | intros H; exfalso; apply H; reflexivity].
  - split; [intros _ H; discriminate | reflexivity].
Qed.

Lemma qsum_le0_iff l : Forall (fun x => (0 <= x)%Q) l ->
  ((qsum l <= 0)%Q <-> Forall (fun x => (x <= 0)%Q) l).
Proof.
  induction 1 as [|x l Hx Hl IH].
  - split; intros _; [constructor | unfold qsum; cbn; lra].
  - pose proof (qsum_nonneg l Hl) as Hnn. rewrite qsum_cons. split.
    + intros H. constructor; [lra|]. apply IH. lra.
    + intros H. inversion H as [|x' l' Hx' Hl']; subst. apply IH in Hl'. lra.
Qed.

Lemma extract_zlen l s : loc_in l (zlen s) -> zlen (extract l s) = loc_len l.
Proof.
  intros [Ha [Hab [Hb Hst]]]. unfold extract, loc_len.
  rewrite pyslice_slice by lia.
  destruct (lstrand l =? -1); rewrite ?zlen_rc; rewrite zlen_slice by lia; reflexivity.
Qed.


(* -- windowed GC: the breach list and the starts of the breaching windows *)
Lemma gc_br_eq mini maxi w a b st s : 1 <= w -> 0 <= a <= b -> b <= zlen s -> st <> -1 ->
  map (fun c => breach mini maxi (c # Z.to_pos w)) (gc_window_counts (extract (mkLoc a b st) s) w)
  = map (fun i => breach mini maxi (gc_frac s i w)) (zrange a (b - w + 1)).
Proof.
  intros Hk Hab Hb Hst.
  unfold extract. cbn [lstart lend lstrand].
  destruct (Z.eqb_spec st (-1)) as [He|He]; [contradiction|].
  rewrite pyslice_slice by lia.
  destruct (Z_le_gt_dec w (b - a)) as [Hle|Hgt].
  - rewrite gc_window_counts_spec by (rewrite zlen_slice by lia; lia).
    rewrite zlen_slice by lia. rewrite map_map.
    replace (zrange a (b - w + 1)) with (zrange (0 + a) (b - a - w + 1 + a)) by (f_equal; lia).
    rewrite zrange_shift. rewrite map_map.
    apply map_ext_in. intros i Hin. apply pz_in_zrange in Hin.
    unfold gc_frac. rewrite slice_slice by lia. reflexivity.
  - rewrite gc_window_counts_short by (rewrite zlen_slice by lia; lia).
    rewrite zrange_empty by lia. reflexivity.
Qed.

Lemma iw_map_zrange {X} (f : X -> bool) (g : Z -> X) : forall n a c k, Z.to_nat (c - a) = n ->
  indices_where f (map g (zrange a c)) k = map (fun i => i - a + k) (filter (fun i => f (g i)) (zrange a c)).
Proof.
  induction n as [|n IH]; intros a c k Hn.
  - rewrite zrange_empty by lia. reflexivity.
  - rewrite zrange_cons by lia. cbn [map indices_where filter].
    rewrite (IH (a + 1) c (k + 1)) by lia.
    assert (Hext : map (fun i => i - (a + 1) + (k + 1)) (filter (fun i => f (g i)) (zrange (a + 1) c)) =
                   map (fun i => i - a + k) (filter (fun i => f (g i)) (zrange (a + 1) c))).
    { apply map_ext. intros i. lia. }
    rewrite Hext.
    destruct (f (g a)); cbn [map]; [f_equal; lia | reflexivity].
Qed.

Lemma starts_eq {X} (f : X -> bool) (g : Z -> X) a c :
  map (fun i => a + i) (indices_where f (map g (zrange a c)) 0) = filter (fun i => f (g i)) (zrange a c).
Proof.
  rewrite (iw_map_zrange f g (Z.to_nat (c - a)) a c 0 eq_refl). rewrite map_map.
  rewrite <- (map_id (filter (fun i => f (g i)) (zrange a c))) at 2.
  apply map_ext. intros i. lia.
Qed.

(* -- sort_segs is a sorting function *)
Definition seg_le (p q : Z * Z) : Prop := fst p <= fst q.

Lemma seg_le_refl p : seg_le p p.
Proof. unfold seg_le. lia. Qed.

Lemma seg_ltb_true p q : seg_ltb p q = true -> seg_le p q.
Proof.
  unfold seg_ltb, seg_le. intros H.
  destruct (Z.ltb_spec (fst p) (fst q)) as [H1|H1]; [lia|].
  destruct (Z.ltb_spec (fst q) (fst p)) as [H2|H2]; [discriminate|lia].
Qed.

Lemma seg_ltb_false p q : seg_ltb p q = false -> seg_le q p.
Proof.
  unfold seg_ltb, seg_le. intros H.
  destruct (Z.ltb_spec (fst p) (fst q)) as [H1|H1]; [discriminate|lia].
Qed.

Lemma insert_seg_perm x l : Permutation (x :: l) (insert_seg x l).
Proof.
  induction l as [|a l IH]; cbn [insert_seg].
  - apply Permutation_refl.
  - destruct (seg_ltb a x).
    + eapply perm_trans; [apply perm_swap|]. apply perm_skip. exact IH.
    + apply Permutation_refl.
Qed.

Lemma insert_seg_sorted x l : StronglySorted seg_le l -> StronglySorted seg_le (insert_seg x l).
Proof.
  induction l as [|a l IH]; intros Hs; cbn [insert_seg].
  - constructor; constructor.
  - inversion Hs as [|a' l' Hs' Hall]; subst.
    destruct (seg_ltb a x) eqn:E.
    + apply seg_ltb_true in E. constructor; [apply IH; exact Hs'|].
      rewrite Forall_forall. intros y Hy.
      apply Permutation_in with (l' := x :: l) in Hy; [|apply Permutation_sym, insert_seg_perm].
      destruct Hy as [Hy|Hy]; [subst y; exact E|].
      rewrite Forall_forall in Hall. apply Hall. exact Hy.
    + apply seg_ltb_false in E. constructor; [exact Hs|].
      constructor; [exact E|].
      eapply Forall_impl; [|exact Hall]. intros y Hy. unfold seg_le in *. lia.
Qed.

Lemma sort_segs_sorted_perm l : Permutation l (sort_segs l) /\ StronglySorted seg_le (sort_segs l).
Proof.
  induction l as [|x l [IHp IHs]]; cbn [sort_segs fold_right].
  - split; constructor.
  - split.
    + eapply perm_trans; [apply perm_skip; exact IHp|]. apply insert_seg_perm.
    + apply insert_seg_sorted. exact IHs.
Qed.

(* -- the reported locations, as a function of the breaching window starts *)
Definition seg_locs (w : Z) (bs : list Z) : list loc :=
  match bs with
  | [] => []
  | [st] => [mkLoc st (st + w) 0]
  | _ => map (fun g => match g with
                       | [] => mkLoc 0 0 0
                       | f :: _ => mkLoc (fst f) (snd (last g f)) 0
                       end)
             (group_nearby_segments (map (fun b => (b, b + w)) bs) None (Some (Z.max 1 50)))
  end.

Lemma seg_groups w bs sp g :
  In g (group_nearby_segments (map (fun b => (b, b + w)) bs) None sp) ->
  g <> [] /\ StronglySorted seg_le g /\ (forall p, In p g -> In (fst p) bs /\ snd p = fst p + w).
Proof.
  intros Hg.
  destruct (group_nearby_segments_spec (map (fun b => (b, b + w)) bs) None sp) as [Hc [Hok _]].
  destruct (sort_segs_sorted_perm (map (fun b => (b, b + w)) bs)) as [Hperm Hsorted].
  split; [|split].
  - rewrite Forall_forall in Hok. specialize (Hok g Hg). intros Heq. subst g. exact Hok.
  - apply (SS_concat_group seg_le _ g) in Hg; [exact Hg|]. rewrite Hc. exact Hsorted.
  - intros p Hp.
    assert (Hin : In p (map (fun b => (b, b + w)) bs)).
    { apply (Permutation_in p (Permutation_sym Hperm)).
      rewrite <- Hc. apply in_concat. exists g. split; assumption. }
    apply in_map_iff in Hin. destruct Hin as [b0 [Heq Hb0]]. subst p. cbn [fst snd].
    split; [exact Hb0 | reflexivity].
Qed.

Lemma seg_groups_cover w bs sp i : In i bs ->
  exists g, In g (group_nearby_segments (map (fun b => (b, b + w)) bs) None sp) /\ In (i, i + w) g.
Proof.
  intros Hi.
  destruct (group_nearby_segments_spec (map (fun b => (b, b + w)) bs) None sp) as [Hc _].
  destruct (sort_segs_sorted_perm (map (fun b => (b, b + w)) bs)) as [Hperm _].
  apply in_concat. rewrite Hc. apply (Permutation_in _ Hperm).
  apply in_map_iff. exists i. split; [reflexivity | exact Hi].
Qed.

Lemma seg_locs_cover w bs i : In i bs -> span_covered (seg_locs w bs) i (i + w).
Proof.
  intros Hi. unfold seg_locs.
  destruct bs as [|x [|y t]].
  - destruct Hi.
  - destruct Hi as [Heq|[]]. subst x. exists (mkLoc i (i + w) 0).
    split; [left; reflexivity|]. cbn [lstart lend]. lia.
  - destruct (seg_groups_cover w (x :: y :: t) (Some (Z.max 1 50)) i Hi) as [g [Hg Hig]].
    destruct (seg_groups w (x :: y :: t) (Some (Z.max 1 50)) g Hg) as [Hne [Hs Hsub]].
    destruct g as [|f rest]; [contradiction|].
    exists (mkLoc (fst f) (snd (last (f :: rest) f)) 0). split.
    + apply in_map_iff. exists (f :: rest). split; [reflexivity | exact Hg].
    + cbn [lstart lend].
      pose proof (SS_hd seg_le seg_le_refl f rest _ Hs Hig) as H1.
      pose proof (SS_last seg_le seg_le_refl (f :: rest) f _ Hs Hig) as H2.
      assert (Hl : In (last (f :: rest) f) (f :: rest)) by (apply last_in; discriminate).
      destruct (Hsub _ Hl) as [_ H3].
      unfold seg_le in H1, H2. cbn [fst snd] in H1, H2. lia.
Qed.

Lemma seg_locs_within w bs lo hi : 0 <= w -> (forall i, In i bs -> lo <= i /\ i + w <= hi) ->
  all_within (seg_locs w bs) lo hi.
Proof.
  intros Hw Hb l Hl. unfold seg_locs in Hl.
  destruct bs as [|x [|y t]].
  - destruct Hl.
  - destruct Hl as [Heq|[]]. subst l. cbn [lstart lend].
    specialize (Hb x (or_introl eq_refl)). lia.
  - apply in_map_iff in Hl. destruct Hl as [g [Heq Hg]].
    destruct (seg_groups w (x :: y :: t) (Some (Z.max 1 50)) g Hg) as [Hne [Hs Hsub]].
    destruct g as [|f rest]; [contradiction|]. subst l. cbn [lstart lend].
    assert (Hf : In f (f :: rest)) by (left; reflexivity).
    assert (Hl : In (last (f :: rest) f) (f :: rest)) by (apply last_in; discriminate).
    destruct (Hsub _ Hf) as [F1 F2]. destruct (Hsub _ Hl) as [L1 L2].
    pose proof (Hb _ F1) as B1. pose proof (Hb _ L1) as B2.
    pose proof (SS_hd seg_le seg_le_refl f rest _ Hs Hl) as H1. unfold seg_le in H1.
    lia.
Qed.

Lemma seg_locs_nonempty w bs : bs <> [] -> seg_locs w bs <> [].
Proof.
  intros Hne. unfold seg_locs. destruct bs as [|x [|y t]].
  - contradiction.
  - discriminate.
  - intros Heq. apply map_eq_nil in Heq.
    destruct (seg_groups_cover w (x :: y :: t) (Some (Z.max 1 50)) x (or_introl eq_refl)) as [g [Hg _]].
    rewrite Heq in Hg. destruct Hg.
Qed.

Lemma eval_gc_windowed_eq mini maxi w a b st s : 1 <= w -> 0 <= a <= b -> b <= zlen s -> st <> -1 ->
  eval_gc mini maxi (Some w) (mkLoc a b st) s =
  mkEv (- qsum (map (fun i => breach mini maxi (gc_frac s i w)) (zrange a (b - w + 1))))%Q
       (Some (seg_locs w (filter (fun i => negb (Qle_bool (breach mini maxi (gc_frac s i w)) 0))
                                 (zrange a (b - w + 1))))).
Proof.
  intros Hk Hab Hb Hst. unfold eval_gc. cbv zeta.
  rewrite (gc_br_eq mini maxi w a b st s Hk Hab Hb Hst). cbn [lstart].
  rewrite (starts_eq (fun x => negb (Qle_bool x 0)) (fun i => breach mini maxi (gc_frac s i w))).
  reflexivity.
Qed.

Theorem gc_windowed_meaning : forall mini maxi w l s, 1 <= w -> loc_in l (zlen s) -> lstrand l <> -1 ->
  let e := eval_gc mini maxi (Some w) l s in
  let starts := zrange (lstart l) (lend l - w + 1) in
  (score e == - qsum (map (fun i => breach mini maxi (gc_frac s i w)) starts))%Q /\
  (passes e = true <-> forall i, In i starts -> (mini <= gc_frac s i w)%Q /\ (gc_frac s i w <= maxi)%Q) /\
  (exists ls, locs e = Some ls /\ all_within ls (lstart l) (lend l) /\
     (forall i, In i starts -> ~ ((mini <= gc_frac s i w)%Q /\ (gc_frac s i w <= maxi)%Q) -> span_covered ls i (i + w)) /\
     (passes e = false -> ls <> [])).
Proof.
  intros mini maxi w [a b st] s Hw Hin Hst. unfold loc_in in Hin. cbn [lstart lend lstrand] in Hin, Hst.
  destruct Hin as [Ha [Hab [Hb Hst']]]. cbv zeta. cbn [lstart lend].
  rewrite (eval_gc_windowed_eq mini maxi w a b st s Hw ltac:(lia) Hb Hst).
  set (starts := zrange a (b - w + 1)).
  set (br := map (fun i => breach mini maxi (gc_frac s i w)) starts).
  set (bs := filter (fun i => negb (Qle_bool (breach mini maxi (gc_frac s i w)) 0)) starts).
  assert (Hbrnn : Forall (fun x => (0 <= x)%Q) br).
  { apply Forall_forall. intros x Hx. apply in_map_iff in Hx. destruct Hx as [i [Hi _]]. subst x.
    apply SpecsLocalA.breach_nonneg. }
  assert (Hpass : passes (mkEv (- qsum br) (Some (seg_locs w bs))) = true <->
                  forall i, In i starts -> (mini <= gc_frac s i w)%Q /\ (gc_frac s i w <= maxi)%Q).
  { rewrite passes_score. cbn [score].
    assert (H0 : (0 <= - qsum br)%Q <-> (qsum br <= 0)%Q) by (split; intros H; lra).
    rewrite H0. rewrite (qsum_le0_iff br Hbrnn). rewrite Forall_forall. split.
    - intros H i Hi. apply breach_le0_iff. apply H. unfold br. apply in_map_iff.
      exists i. split; [reflexivity | exact Hi].
    - intros H x Hx. unfold br in Hx. apply in_map_iff in Hx. destruct Hx as [i [Heq Hi]]. subst x.
      apply breach_le0_iff. apply H. exact Hi. }
  split; [cbn [score]; apply Qeq_refl|]. split; [exact Hpass|].
  exists (seg_locs w bs). split; [reflexivity|]. split; [|split].
  - apply seg_locs_within; [lia|]. intros i Hi. unfold bs in Hi. apply filter_In in Hi.
    destruct Hi as [Hi _]. unfold starts in Hi. apply pz_in_zrange in Hi. lia.
  - intros i Hi Hbad. apply seg_locs_cover. unfold bs. apply filter_In. split; [exact Hi|].
    apply breach_pos_iff in Hbad. rewrite Hbad. reflexivity.
  - intros Hp Hnil. apply seg_locs_nonempty in Hnil; [exact Hnil|].
    intros Hbs. apply Bool.not_true_iff_false in Hp. apply Hp. apply Hpass.
    intros i Hi.
    destruct (Qle_bool (breach mini maxi (gc_frac s i w)) 0) eqn:E.
    + apply Qle_bool_iff in E. apply breach_le0_iff. exact E.
    + exfalso. assert (Hib : In i bs).
      { unfold bs. apply filter_In. split; [exact Hi|]. rewrite E. reflexivity. }
      rewrite Hbs in Hib. destruct Hib.
Qed.

Theorem gc_global_meaning : forall mini maxi l s, loc_in l (zlen s) -> lstrand l <> -1 -> lstart l < lend l ->
  let e := eval_gc mini maxi None l s in
  let g := (count_gc (slice s (lstart l) (lend l)) # Z.to_pos (loc_len l)) in
  (score e == - breach mini maxi g)%Q /\
  (passes e = true <-> (mini <= g)%Q /\ (g <= maxi)%Q) /\
  (passes e = false -> locs e = Some [mkLoc (lstart l) (lend l) 0]).
Proof.
  intros mini maxi l s Hin Hst Hlt. cbv zeta.
  pose proof (extract_zlen l s Hin) as Hlen.
  destruct Hin as [Ha [Hab [Hb Hst']]].
  pose proof (extract_fwd l s Hst ltac:(lia) Hb) as Hex.
  unfold eval_gc. rewrite Hlen. rewrite Hex.
  set (g := count_gc (slice s (lstart l) (lend l)) # Z.to_pos (loc_len l)).
  split; [cbn [score]; apply Qeq_refl|]. split.
  - rewrite passes_score. cbn [score]. rewrite <- breach_le0_iff. split; intros H; lra.
  - intros Hp. cbn [locs].
    destruct (Qle_bool (breach mini maxi g) 0) eqn:E; [|reflexivity].
    exfalso. apply Qle_bool_iff in E.
    apply Bool.not_true_iff_false in Hp. apply Hp. apply passes_score. cbn [score]. lra.
Qed.

(* ---- positions selected by indices_where *)
Lemma in_indices_where {X} (f : X -> bool) : forall (l : list X) k r,
  In r (indices_where f l k) <->
  exists j x, r = k + Z.of_nat j /\ nth_error l j = Some x /\ f x = true.
Proof.
  induction l as [|a l IH]; intros k r.
  - cbn [indices_where]. split; [intros []|].
    intros [j [x [_ [H _]]]]. destruct j; discriminate H.
  - cbn [indices_where]. split.
    + intros Hin. destruct (f a) eqn:E.
      * destruct Hin as [Heq|Hin].
        -- exists 0%nat, a. split; [lia|]. split; [reflexivity | exact E].
        -- apply IH in Hin. destruct Hin as [j [x [Hr [Hn Hf]]]].
           exists (S j), x. split; [lia|]. split; [exact Hn | exact Hf].
      * apply IH in Hin. destruct Hin as [j [x [Hr [Hn Hf]]]].
        exists (S j), x. split; [lia|]. split; [exact Hn | exact Hf].
    + intros [j [x [Hr [Hn Hf]]]]. destruct j as [|j].
      * cbn [nth_error] in Hn. injection Hn as Hn. subst x. rewrite Hf. left. lia.
      * cbn [nth_error] in Hn.
        assert (Hin : In r (indices_where f l (k + 1))).
        { apply IH. exists j, x. split; [lia|]. split; [exact Hn | exact Hf]. }
        destruct (f a); [right; exact Hin | exact Hin].
Qed.

Lemma indices_where_bound {X} (f : X -> bool) (l : list X) r :
  In r (indices_where f l 0) -> 0 <= r < zlen l.
Proof.
  intros Hin. apply in_indices_where in Hin. destruct Hin as [j [x [Hr [Hn _]]]].
  assert (Hlt : (j < List.length l)%nat) by (apply nth_error_Some; rewrite Hn; discriminate).
  unfold zlen. lia.
Qed.

(* ---- EnforceSequence: IUPAC mismatches, both strands *)
Theorem enforce_sequence_meaning : forall w l s, loc_in l (zlen s) -> zlen w = loc_len l ->
  let e := eval_enforce_sequence w l s in
  let sub := extract l s in
  let bad := indices_where (fun p => negb (iupac_matches (snd p) (fst p))) (combine sub w) 0 in
  score e = zq (- zlen bad) /\
  (passes e = true <-> bad = []) /\
  (exists ls, locs e = Some ls /\ all_within ls (lstart l) (lend l) /\
     (forall r, In r bad -> covered ls (if lstrand l =? -1 then lend l - 1 - r else lstart l + r)) /\
     (passes e = false -> ls <> [])).
Proof.
  intros w l s Hin Hw. cbv zeta.
  pose proof (extract_zlen l s Hin) as Hlen.
  set (bad := indices_where (fun p : nuc * ascii => negb (iupac_matches (snd p) (fst p)))
                            (combine (extract l s) w) 0).
  assert (Hbound : forall r, In r bad -> 0 <= r < loc_len l).
  { intros r Hr. apply indices_where_bound in Hr.
    rewrite zlenB_combine in Hr by lia. lia. }
  assert (Hsc : score (eval_enforce_sequence w l s) = zq (- zlen bad)) by reflexivity.
  assert (Hpass : passes (eval_enforce_sequence w l s) = true <-> bad = []).
  { rewrite (passes_zq_score _ _ Hsc). rewrite <- zlen_zero_nil.
    pose proof (zlen_nonneg bad). lia. }
  split; [exact Hsc|]. split; [exact Hpass|].
  unfold eval_enforce_sequence. cbv zeta. cbn [locs]. fold bad.
  set (pos := if lstrand l =? -1 then map (fun r => lend l - 1 - r) bad
              else map (fun r => r + lstart l) bad).
  exists (intervals_of pos 6). split; [reflexivity|].
  unfold loc_len in Hbound.
  split; [|split].
  - apply intervals_of_within. intros i Hi. unfold pos in Hi.
    destruct (lstrand l =? -1); apply in_map_iff in Hi; destruct Hi as [r [Heq Hr]];
      apply Hbound in Hr; lia.
  - intros r Hr. apply intervals_of_cover; [lia|]. unfold pos.
    destruct (lstrand l =? -1); apply in_map_iff; exists r; (split; [lia | exact Hr]).
  - intros Hp. apply intervals_of_nonempty. intros Hnil.
    assert (Hbad : bad = []).
    { unfold pos in Hnil. destruct (lstrand l =? -1); apply map_eq_nil in Hnil; exact Hnil. }
    apply Hpass in Hbad.
    unfold eval_enforce_sequence in Hbad. cbv zeta in Hbad. fold bad in Hbad. fold pos in Hbad.
    rewrite Hbad in Hp. discriminate.
Qed.

(* ---- AvoidChanges (location mode): number of edits against the allowance *)
Theorem avoid_changes_meaning : forall l tg me s e, loc_in l (zlen s) -> lstrand l <> -1 -> zlen tg = loc_len l ->
  evaluate (SAvoidChanges l None tg me) s = Some e ->
  score e = zq (me - diff_count (slice s (lstart l) (lend l)) tg) /\
  (exists ls, locs e = Some ls /\ all_within ls (lstart l) (lend l) /\
     (forall i, lstart l <= i < lend l ->
        nth_error s (Z.to_nat i) <> nth_error tg (Z.to_nat (i - lstart l)) -> covered ls i)).
Proof.
  intros l tg me s e Hin Hst Htg Hev.
  pose proof (extract_zlen l s Hin) as Hlen.
  destruct Hin as [Ha [Hab [Hb Hst']]].
  pose proof (extract_fwd l s Hst ltac:(lia) Hb) as Hex.
  cbn [evaluate] in Hev. unfold eval_avoid_changes in Hev. cbn [extract_subsequence] in Hev.
  rewrite Hex in Hev, Hlen.
  set (sub := slice s (lstart l) (lend l)) in *.
  replace (zlen sub =? zlen tg) with true in Hev by (symmetry; apply Z.eqb_eq; lia).
  cbn [negb] in Hev. cbv zeta in Hev. unfold absolute_positions in Hev.
  destruct (Z.eqb_spec (lstrand l) (-1)) as [E|E]; [contradiction|].
  injection Hev as Hev. subst e. cbn [score locs].
  set (rel := indices_where (fun b : bool => b) (diff_array sub tg) 0).
  assert (Hdl : List.length (diff_array sub tg) = List.length sub).
  { apply diff_array_length. unfold zlen in *. lia. }
  assert (Hbound : forall r, In r rel -> 0 <= r < loc_len l).
  { intros r Hr. apply indices_where_bound in Hr. unfold zlen in *. lia. }
  split.
  - f_equal. f_equal. rewrite zlen_map. unfold rel.
    rewrite zlenB_indices_where. symmetry. apply diff_count_spec.
  - exists (intervals_of (map (fun r => r + lstart l) rel) 6). split; [reflexivity|].
    unfold loc_len in *. split.
    + apply intervals_of_within. intros i Hi. apply in_map_iff in Hi.
      destruct Hi as [r [Heq Hr]]. apply Hbound in Hr. lia.
    + intros i Hi Hne. apply intervals_of_cover; [lia|].
      apply in_map_iff. exists (i - lstart l). split; [lia|].
      unfold rel. apply in_indices_where.
      exists (Z.to_nat (i - lstart l)), true. split; [lia|]. split; [|reflexivity].
      apply diff_array_nth.
      assert (Hsub : nth_error sub (Z.to_nat (i - lstart l)) = nth_error s (Z.to_nat i)).
      { unfold sub, slice. rewrite nth_errorB_firstn, nth_errorB_skipn.
        destruct (Nat.ltb_spec (Z.to_nat (i - lstart l)) (Z.to_nat (lend l - lstart l))) as [H1|H1]; [|lia].
        f_equal. lia. }
      destruct (nth_error s (Z.to_nat i)) as [x|] eqn:Ex.
      2:{ exfalso. apply nth_error_None in Ex. unfold zlen in *. lia. }
      destruct (nth_error tg (Z.to_nat (i - lstart l))) as [y|] eqn:Ey.
      2:{ exfalso. apply nth_error_None in Ey. unfold zlen in *. lia. }
      exists x, y. split; [exact Hsub|]. split; [reflexivity|].
      intros Hxy. apply Hne. rewrite Hxy. reflexivity.
Qed.

(* ---- codon-wise counts *)
Theorem stop_codons_meaning : forall T l s e, eval_stop_codons T l s = Some e ->
  exists aas, translate T (extract l s) = Some aas /\
    score e = zq (- zlen (filter (fun a => Ascii.eqb a "*") aas)) /\
    (passes e = true <-> forall a, In a aas -> a <> "*"%char).
Proof.
  intros T l s e Hev. unfold eval_stop_codons in Hev.
  destruct (translate T (extract l s)) as [aas|]; [|discriminate].
  injection Hev as Hev. exists aas. split; [reflexivity|].
  assert (Hsc : score e = zq (- zlen (filter (fun a => Ascii.eqb a "*") aas))).
  { subst e. cbn [score]. rewrite zlenB_indices_where. reflexivity. }
  split; [exact Hsc|].
  rewrite (passes_zq_score _ _ Hsc).
  pose proof (zlen_nonneg (filter (fun a => Ascii.eqb a "*") aas)) as Hnn.
  split.
  - intros H a Ha Heq.
    assert (Hz : zlen (filter (fun a => Ascii.eqb a "*") aas) = 0) by lia.
    apply zlen_zero_nil in Hz.
    assert (Hin : In a (filter (fun a => Ascii.eqb a "*") aas)).
    { apply filter_In. split; [exact Ha|]. apply Ascii.eqb_eq. exact Heq. }
    rewrite Hz in Hin. destruct Hin.
  - intros H.
    assert (Hz : filter (fun a => Ascii.eqb a "*") aas = []).
    { apply filter_none. intros a Ha. apply Ascii.eqb_neq. apply H. exact Ha. }
    rewrite Hz. unfold zlen. cbn [List.length]. lia.
Qed.

Lemma dmem_iff_In : forall v l, dmem v l = true <-> In v l.
Proof.
  intros v l. induction l as [|w l IH]; cbn [dmem In].
  - split; [discriminate | intros []].
  - rewrite orb_true_iff, seq_eqb_eq, IH. split; intros [H|H]; auto.
Qed.

Theorem choice_meaning : forall cs l s,
  let e := eval_enforce_choice cs l s in
  (In (extract l s) cs -> score e = 0%Q /\ locs e = Some []) /\
  (~ In (extract l s) cs -> score e = zq (-1) /\ locs e = Some [l]).
Proof.
  intros cs l s. cbv zeta. unfold eval_enforce_choice.
  destruct (dmem (extract l s) cs) eqn:E.
  - apply dmem_iff_In in E. split; [intros _; split; reflexivity | intros H; contradiction].
  - split.
    + intros H. apply dmem_iff_In in H. rewrite H in E. discriminate.
    + intros _. split; reflexivity.
Qed.

Theorem length_meaning : forall mn mx s,
  let e := eval_length mn mx s in
  let ok := mn <= zlen s /\ match mx with Some m => zlen s <= m | None => True end in
  (ok -> score e = zq 0) /\ (~ ok -> score e = zq (-1)).
Proof.
  intros mn mx s. cbv zeta. unfold eval_length. cbv zeta. cbn [score].
  destruct mx as [m|].
  - destruct (Z.leb_spec mn (zlen s)) as [H1|H1]; destruct (Z.leb_spec (zlen s) m) as [H2|H2];
      cbn [andb]; split; intros H; try reflexivity; exfalso; lia.
  - destruct (Z.leb_spec mn (zlen s)) as [H1|H1]; split; intros H; try reflexivity; exfalso;
      lia.
Qed.

(* ---- C20: flags and declared best scores *)
Theorem passes_iff_nonneg : forall e, passes e = true <-> (0 <= score e)%Q.
Proof. intros e. apply passes_score. Qed.

(* every modelled class that declares a best possible score declares 0 (regenerated constants) *)
Theorem declared_best_scores_are_zero :
  forallb (fun p => match sc_best (snd p) with Some b => b =? 0 | None => true end) spec_constants = true.
Proof. vm_compute. reflexivity. Qed.

Lemma zq_neg_zlen_nonpos {X} (l : list X) : (zq (- zlen l) <= 0)%Q.
Proof. apply SpecsLocalA.zq_nonpos. apply zlen_nonneg. Qed.

Theorem uniquify_nonpos : forall k l ref irc d s e,
  evaluate (SUniquify k l ref irc d) s = Some e -> (score e <= 0)%Q.
Proof.
  intros k l ref irc d s e Hev. destruct d as [d|]; cbn [evaluate] in Hev;
    injection Hev as Hev; subst e.
  - unfold eval_uniquify_local. cbv zeta. cbn [score]. apply zq_neg_zlen_nonpos.
  - unfold eval_uniquify_global. cbv zeta. cbn [score]. apply zq_neg_zlen_nonpos.
Qed.

Theorem hairpins_nonpos : forall st w l s, (score (eval_hairpins st w l s) <= 0)%Q.
Proof.
  intros st w l s. unfold eval_hairpins. cbv zeta. cbn [score]. apply zq_neg_zlen_nonpos.
Qed.
