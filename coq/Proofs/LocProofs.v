(* Lemmas about the Location model (C18). *)
From Coq Require Import ZArith Bool List Lia Sorting.Sorted Permutation.
From DC Require Import Model.Base Model.Loc.
Import ListNotations.
Open Scope Z_scope.

Ltac zb :=
  repeat match goal with
  | |- context [?a <? ?b] => destruct (Z.ltb_spec a b)
  | |- context [?a <=? ?b] => destruct (Z.leb_spec a b)
  | |- context [?a =? ?b] => destruct (Z.eqb_spec a b)
  | |- context [?a >=? ?b] => rewrite (Z.geb_leb a b)
  | |- context [?a >? ?b] => rewrite (Z.gtb_ltb a b)
  | H : context [?a <? ?b] |- _ => destruct (Z.ltb_spec a b)
  | H : context [?a <=? ?b] |- _ => destruct (Z.leb_spec a b)
  | H : context [?a =? ?b] |- _ => destruct (Z.eqb_spec a b)
  | H : context [?a >=? ?b] |- _ => rewrite (Z.geb_leb a b) in H
  | H : context [?a >? ?b] |- _ => rewrite (Z.gtb_ltb a b) in H
  end.

(* ---------- overlap_region = set intersection ---------- *)

Lemma overlap_some a b r :
  nonempty a -> nonempty b -> overlap_region a b = Some r ->
  (forall i, in_loc i r <-> in_loc i a /\ in_loc i b) /\ lstrand r = lstrand a /\ nonempty r.
Proof.
  unfold nonempty, overlap_region, in_loc. intros Ha Hb H.
  zb; inversion H; subst; clear H; simpl; (split; [intro i; lia | split; [reflexivity | lia]]).
Qed.

Lemma overlap_none a b :
  nonempty a -> nonempty b ->
  (overlap_region a b = None <-> forall i, ~ (in_loc i a /\ in_loc i b)).
Proof.
  unfold nonempty, overlap_region, in_loc. intros Ha Hb. split.
  - intros H i. zb; try discriminate; lia.
  - intros H. zb; try reflexivity; exfalso.
    + apply (H (lstart a)); lia.
    + apply (H (lstart b)); lia.
Qed.

Lemma overlap_span_sym a b :
  nonempty a -> nonempty b ->
  match overlap_region a b, overlap_region b a with
  | Some r, Some r' => lstart r = lstart r' /\ lend r = lend r'
  | None, None => True
  | _, _ => False
  end.
Proof. unfold overlap_region, nonempty. intros Ha Hb. zb; simpl; try lia; auto. Qed.

Lemma overlap_touching_none a b : lend a = lstart b -> nonempty a -> overlap_region a b = None.
Proof. unfold overlap_region, nonempty. intros. zb; try reflexivity; lia. Qed.

(* ---------- extended ---------- *)

Lemma extended_spec a n lo up left right :
  let r := extended a n lo up left right in
  lstrand r = lstrand a /\
  lstart r = (if left then Z.max lo (lstart a - n) else lstart a) /\
  lend r = (if right then match up with Some u => Z.min u (lend a + n) | None => lend a + n end
            else lend a).
Proof. unfold extended; simpl; auto. Qed.

(* ---------- shifting, tuples ---------- *)

Lemma add_sub a n : loc_sub (loc_add a n) n = a.
Proof. destruct a; unfold loc_sub, loc_add; simpl; f_equal; lia. Qed.
Lemma sub_add a n : loc_add (loc_sub a n) n = a.
Proof. destruct a; unfold loc_sub, loc_add; simpl; f_equal; lia. Qed.
Lemma add_in_loc a n i : in_loc i a <-> in_loc (i + n) (loc_add a n).
Proof. unfold in_loc, loc_add; simpl; lia. Qed.
Lemma add_len a n : loc_len (loc_add a n) = loc_len a.
Proof. unfold loc_len, loc_add; simpl; lia. Qed.
Lemma from_to_tuple a : from_tuple3 (to_tuple a) = a.
Proof. destruct a; reflexivity. Qed.
Lemma to_from_tuple t : to_tuple (from_tuple3 t) = t.
Proof. destruct t as [[s e] st]; reflexivity. Qed.
Lemma from_tuple2_default s e : from_tuple2 (s, e) 0 = mkLoc s e 0.
Proof. reflexivity. Qed.

(* ---------- order / equality / hash key ---------- *)

Lemma loc_eqb_eq a b : loc_eqb a b = true <-> a = b.
Proof.
  destruct a, b; unfold loc_eqb; simpl. split.
  - intro H. zb; simpl in H; try discriminate. subst; reflexivity.
  - intro H; inversion H; subst. rewrite !Z.eqb_refl. reflexivity.
Qed.
Lemma loc_eqb_tuple a b : loc_eqb a b = true <-> to_tuple a = to_tuple b.
Proof.
  rewrite loc_eqb_eq. destruct a, b; unfold to_tuple; simpl. split; intro H; inversion H; reflexivity.
Qed.
Lemma loc_ltb_irrefl a : loc_ltb a a = false.
Proof. unfold loc_ltb. zb; try reflexivity; lia. Qed.
Lemma loc_ltb_trans a b c : loc_ltb a b = true -> loc_ltb b c = true -> loc_ltb a c = true.
Proof. unfold loc_ltb. intros H1 H2. zb; try reflexivity; try discriminate; try lia. Qed.
Lemma loc_ltb_total a b : loc_ltb a b = true \/ a = b \/ loc_ltb b a = true.
Proof.
  destruct a as [s e st], b as [s' e' st']; unfold loc_ltb; simpl.
  zb; auto; try lia. right; left. f_equal; lia.
Qed.
Lemma loc_ltb_asym a b : loc_ltb a b = true -> loc_ltb b a = false.
Proof. unfold loc_ltb. intros H. zb; try reflexivity; try discriminate; try lia. Qed.

(* ---------- indices ---------- *)

Lemma zrange_length a b : List.length (zrange a b) = Z.to_nat (b - a).
Proof. unfold zrange. rewrite map_length, seq_length. reflexivity. Qed.

Lemma in_zrange a b i : In i (zrange a b) <-> a <= i < b.
Proof.
  unfold zrange. rewrite in_map_iff. split.
  - intros [k [Hk Hin]]. apply in_seq in Hin. lia.
  - intros H. exists (Z.to_nat (i - a)). split; [lia|]. apply in_seq. lia.
Qed.

Lemma indices_minus a :
  loc_indices (mkLoc (lstart a) (lend a) (-1)) = rev (loc_indices (mkLoc (lstart a) (lend a) 1)).
Proof. unfold loc_indices; simpl. reflexivity. Qed.

Lemma in_indices a i : In i (loc_indices a) <-> in_loc i a.
Proof.
  unfold loc_indices, in_loc. destruct (lstrand a =? -1).
  - rewrite <- in_rev. apply in_zrange.
  - apply in_zrange.
Qed.

(* ---------- sort ---------- *)

Lemma insert_perm x l : Permutation (x :: l) (insert_loc x l).
Proof.
  induction l as [|y l IH]; simpl; [reflexivity|].
  destruct (loc_ltb y x); [|reflexivity].
  rewrite perm_swap. constructor. exact IH.
Qed.
Lemma sort_perm l : Permutation l (sort_locs l).
Proof.
  induction l as [|x l IH]; simpl; [constructor|].
  etransitivity; [|apply insert_perm]. constructor. exact IH.
Qed.

Definition sorted_locs (l : list loc) : Prop := StronglySorted (fun a b => loc_leb a b = true) l.

Lemma loc_leb_trans a b c : loc_leb a b = true -> loc_leb b c = true -> loc_leb a c = true.
Proof.
  unfold loc_leb, loc_ltb. rewrite !negb_true_iff. intros H1 H2.
  zb; try reflexivity; try discriminate; try lia.
Qed.

Lemma insert_sorted x l : sorted_locs l -> sorted_locs (insert_loc x l).
Proof.
  unfold sorted_locs. induction l as [|y l IH]; simpl; intro Hs.
  - repeat constructor.
  - inversion Hs as [|? ? Hs' Hall]; subst.
    destruct (loc_ltb y x) eqn:Hyx.
    + constructor; [apply IH; exact Hs'|].
      assert (Hp := insert_perm x l).
      apply Forall_forall. intros z Hz.
      apply (Permutation_in _ (Permutation_sym Hp)) in Hz. destruct Hz as [<-|Hz].
      * unfold loc_leb. rewrite (loc_ltb_asym _ _ Hyx). reflexivity.
      * rewrite Forall_forall in Hall. apply Hall; exact Hz.
    + constructor; [exact Hs|]. constructor.
      * unfold loc_leb. rewrite Hyx. reflexivity.
      * rewrite Forall_forall in *. intros z Hz. eapply loc_leb_trans; [|apply Hall; exact Hz].
        unfold loc_leb. rewrite Hyx. reflexivity.
Qed.
Lemma sort_sorted l : sorted_locs (sort_locs l).
Proof. induction l as [|x l IH]; simpl; [constructor|apply insert_sorted; exact IH]. Qed.

(* ---------- merge_overlapping ---------- *)

Definition covers (l : list loc) (i : Z) : Prop := exists a, In a l /\ in_loc i a.

Lemma leb_start a b : loc_leb a b = true -> lstart a <= lstart b.
Proof. unfold loc_leb, loc_ltb. rewrite negb_true_iff. intro H. zb; try discriminate; lia. Qed.

(* invariant for merge_acc: cur nonempty, every x in rest nonempty and starts at/after cur.start,
   rest sorted by start *)
Definition starts_sorted (l : list loc) : Prop := StronglySorted (fun a b => lstart a <= lstart b) l.

Lemma merge_acc_spec rest : forall cur,
  nonempty cur -> Forall nonempty rest ->
  Forall (fun x => lstart cur <= lstart x) rest -> starts_sorted rest ->
  let out := merge_acc cur rest in
  (forall i, covers out i <-> covers (cur :: rest) i) /\
  Forall nonempty out /\
  (* strictly separated, in order *)
  StronglySorted (fun a b => lend a <= lstart b) out /\
  (exists hd tl, out = hd :: tl /\ lstart hd = lstart cur).
Proof.
  induction rest as [|x rest IH]; intros cur Hc Hne Hst Hss; simpl.
  - split; [tauto|]. split; [constructor; auto|]. split; [repeat constructor|]. eauto.
  - inversion Hne as [|? ? Hx Hne']; subst. inversion Hst as [|? ? Hcx Hst']; subst.
    inversion Hss as [|? ? Hss' Hxall]; subst.
    destruct (overlap_region cur x) as [r|] eqn:Hov.
    + (* merge *)
      set (cur' := mkLoc (lstart cur) (Z.max (lend cur) (lend x)) (lstrand cur)).
      assert (Hc' : nonempty cur') by (unfold nonempty, cur' in *; simpl; lia).
      assert (Hst'' : Forall (fun y => lstart cur' <= lstart y) rest) by exact Hst'.
      destruct (IH cur' Hc' Hne' Hst'' Hss') as [Hcov [Hnes [Hsep Hhd]]].
      split; [|split; [exact Hnes|split; [exact Hsep|exact Hhd]]].
      intro i. rewrite Hcov.
      assert (Hxin : lstart x < lend cur).
      { unfold overlap_region in Hov. unfold nonempty in *. zb; try discriminate; lia. }
      unfold covers; split; intros [a [Hin Hi]].
      * destruct Hin as [<-|Hin].
        -- unfold in_loc, cur' in Hi; simpl in Hi.
           destruct (Z.lt_ge_cases i (lend cur)).
           ++ exists cur. split; [left; reflexivity|unfold in_loc; lia].
           ++ exists x. split; [right; left; reflexivity|unfold in_loc; lia].
        -- exists a. split; [right; right; exact Hin|exact Hi].
      * destruct Hin as [<-|[<-|Hin]].
        -- exists cur'. split; [left; reflexivity|]. unfold in_loc, cur' in *; simpl; lia.
        -- exists cur'. split; [left; reflexivity|]. unfold in_loc, cur' in *; simpl. unfold nonempty in *. lia.
        -- exists a. split; [right; exact Hin|exact Hi].
    + (* no overlap: emit cur *)
      assert (Hxall' : Forall (fun y => lstart x <= lstart y) rest) by exact Hxall.
      destruct (IH x Hx Hne' Hxall' Hss') as [Hcov [Hnes [Hsep [hd [tl [Heq Hhd]]]]]].
      assert (Hsepc : lend cur <= lstart x).
      { unfold overlap_region in Hov. unfold nonempty in *. zb; try discriminate; lia. }
      split; [|split; [constructor; assumption|split]].
      * intro i. unfold covers in *. split; intros [a [Hin Hi]].
        -- destruct Hin as [<-|Hin]; [exists cur; split; [left; reflexivity|exact Hi]|].
           destruct (proj1 (Hcov i) (ex_intro _ a (conj Hin Hi))) as [b [Hb Hib]].
           exists b. split; [right; exact Hb|exact Hib].
        -- destruct Hin as [<-|Hin]; [exists cur; split; [left; reflexivity|exact Hi]|].
           destruct (proj2 (Hcov i) (ex_intro _ a (conj Hin Hi))) as [b [Hb Hib]].
           exists b. split; [right; exact Hb|exact Hib].
      * constructor; [exact Hsep|].
        rewrite Heq in *. inversion Hsep as [|? ? Hsep' Hall]; subst.
        inversion Hnes as [|? ? Hhdne _]; subst. unfold nonempty in Hhdne.
        constructor; [lia|].
        rewrite Forall_forall in Hall |- *. intros z Hz. specialize (Hall z Hz). lia.
      * eauto.
Qed.

Lemma sorted_starts l : sorted_locs l -> starts_sorted l.
Proof.
  unfold sorted_locs, starts_sorted. induction 1 as [|a l Hs IH Hall]; constructor; [exact IH|].
  rewrite Forall_forall in *. intros x Hx. apply leb_start. apply Hall; exact Hx.
Qed.

Theorem merge_overlapping_spec l :
  Forall nonempty l ->
  let out := merge_overlapping l in
  (forall i, covers out i <-> covers l i) /\
  Forall nonempty out /\
  StronglySorted (fun a b => lend a <= lstart b) out.
Proof.
  intros Hne. unfold merge_overlapping.
  assert (Hp := sort_perm l). assert (Hs := sort_sorted l).
  assert (Hne' : Forall nonempty (sort_locs l)).
  { rewrite Forall_forall in *. intros x Hx. apply Hne. eapply Permutation_in; [symmetry; exact Hp|exact Hx]. }
  assert (Hcovp : forall i, covers (sort_locs l) i <-> covers l i).
  { intro i. unfold covers. split; intros [a [Hin Hi]]; exists a; split; auto;
      eapply Permutation_in; try exact Hin; [symmetry|]; exact Hp. }
  destruct (sort_locs l) as [|x rest] eqn:Heq.
  - simpl. split; [intro i; rewrite <- Hcovp; tauto|]. split; constructor.
  - apply sorted_starts in Hs. inversion Hs as [|? ? Hs' Hall]; subst.
    inversion Hne' as [|? ? Hx Hrest]; subst.
    destruct (merge_acc_spec rest x Hx Hrest Hall Hs') as [Hcov [Hnes [Hsep _]]].
    split; [intro i; rewrite Hcov; apply Hcovp|]. split; assumption.
Qed.

(* separated + nonempty => pairwise overlap_region = None, and the output is sorted *)
Lemma separated_no_overlap a b : nonempty a -> nonempty b -> lend a <= lstart b ->
  overlap_region a b = None /\ overlap_region b a = None /\ loc_ltb a b = true.
Proof.
  unfold nonempty, overlap_region, loc_ltb. intros. zb; repeat split; try reflexivity; try lia.
Qed.
