(* Solver lemmas, part A (C01 first half, C06 first half, C14): for EVERY type of specifications
   and every evaluate / localized / initialized_on_problem / heuristic functions. *)
From Coq Require Import ZArith QArith Bool List Lia.
From DC Require Import Model.Base Model.Loc Model.MSpace Model.Solver.
Import ListNotations.
Open Scope Z_scope.

Section SolverA.
  Variable spec : Type.
  Variable spec_eqb : spec -> spec -> bool.
  Variable ev : spec -> dna -> Q * option (list loc).
  Variable localize : spec -> loc -> bool -> dna -> lres spec.
  Variable accepts_rh : spec -> bool.
  Variable reinit : bool -> spec -> dna -> spec.
  Variable enforced : spec -> bool.
  Variable priority : spec -> Z.
  Variable best : spec -> option Q.
  Variable boost : spec -> Q.
  Variable passive : spec -> bool.
  Variable heuristic : spec -> option (settings -> lproblem spec -> state spec -> outcome * state spec).
  Variable opt_heuristic : spec -> option (settings -> lproblem spec -> state spec -> outcome * state spec).

  Definition passes_on (c : spec) (s : dna) : Prop := passesq (fst (ev c s)) = true.

  Notation resolve_constraints :=
    (resolve_constraints spec spec_eqb ev localize accepts_rh reinit enforced priority heuristic).
  Notation resolve_constraint :=
    (resolve_constraint spec spec_eqb ev localize accepts_rh reinit enforced heuristic).
  Notation resolve_exhaustive := (resolve_exhaustive spec ev enforced).
  Notation optimize :=
    (optimize spec ev localize reinit enforced best boost passive opt_heuristic).
  Notation optimize_objective :=
    (optimize_objective spec ev localize reinit enforced best boost opt_heuristic).


  (* ------------------------------------------------------------------ helpers *)
  Notation evaluate_ := (evaluate spec ev).
  Notation all_pass_ := (all_pass spec ev).
  Notation eval_all_ := (eval_all spec ev).
  Notation final_check_ := (final_check spec ev).
  Notation sort_ := (sort_by_priority spec priority).
  Notation insert_ := (insert_prio spec priority).
  Notation resolve_each_ :=
    (resolve_each spec spec_eqb ev localize accepts_rh reinit enforced heuristic).
  Notation exhaustive_loop_ := (exhaustive_loop spec ev enforced).
  Notation optimize_each_ :=
    (optimize_each spec ev localize reinit enforced best boost opt_heuristic).

  Lemma evaluate_spec : forall c st e st',
    evaluate_ c st = (e, st') ->
    e = ev c (cur _ st) /\ cur _ st' = cur _ st /\ rng _ st' = rng _ st.
  Proof.
    intros c st e st' H. unfold evaluate in H. inversion H; subst. simpl. auto.
  Qed.

  Lemma all_pass_spec : forall cs st b st',
    all_pass_ cs st = (b, st') ->
    cur _ st' = cur _ st /\ rng _ st' = rng _ st /\
    (b = true <-> forall c, In c cs -> passes_on c (cur _ st)).
  Proof.
    induction cs as [|c cs IH]; intros st b st' H.
    - simpl in H. inversion H; subst.
      split; [reflexivity|]. split; [reflexivity|].
      split; [intros _ c Hin; destruct Hin | reflexivity].
    - cbn [all_pass] in H. unfold evaluate in H. cbn [fst] in H.
      destruct (passesq (fst (ev c (cur _ st)))) eqn:Hp.
      + apply IH in H. cbn [cur rng] in H. destruct H as (Hc & Hr & Hb).
        split; [exact Hc|]. split; [exact Hr|].
        rewrite Hb. split.
        * intros Hall c' Hin. destruct Hin as [Heq|Hin].
          -- subst c'. exact Hp.
          -- apply Hall. exact Hin.
        * intros Hall c' Hin. apply Hall. right. exact Hin.
      + inversion H; subst. cbn [cur rng].
        split; [reflexivity|]. split; [reflexivity|].
        split; [discriminate|].
        intros Hall. specialize (Hall c (or_introl eq_refl)).
        unfold passes_on in Hall. congruence.
  Qed.

  Lemma all_pass_true : forall cs st,
    (forall c, In c cs -> passes_on c (cur _ st)) ->
    exists st', all_pass_ cs st = (true, st') /\ cur _ st' = cur _ st /\ rng _ st' = rng _ st.
  Proof.
    intros cs st Hall. destruct (all_pass_ cs st) as [b st'] eqn:Hap.
    destruct (all_pass_spec _ _ _ _ Hap) as (Hc & Hr & Hb).
    exists st'. apply Hb in Hall. subst b. auto.
  Qed.

  Lemma eval_all_spec : forall cs st,
    cur _ (eval_all_ cs st) = cur _ st /\ rng _ (eval_all_ cs st) = rng _ st.
  Proof.
    induction cs as [|c cs IH]; intros st.
    - simpl. auto.
    - cbn [eval_all]. destruct (IH (snd (evaluate_ c st))) as [Hc Hr].
      rewrite Hc, Hr. unfold evaluate. simpl. auto.
  Qed.

  Lemma final_check_spec : forall cs st o st',
    final_check_ cs st = (o, st') ->
    cur _ st' = cur _ st /\ rng _ st' = rng _ st /\
    (o = ODone -> forall c, In c cs -> passes_on c (cur _ st)).
  Proof.
    intros cs st o st' H. unfold final_check in H.
    destruct (all_pass_ cs st) as [b st1] eqn:Hap.
    destruct (all_pass_spec _ _ _ _ Hap) as (Hc & Hr & Hb).
    destruct b.
    - inversion H; subst. split; [exact Hc|]. split; [exact Hr|].
      intros _. apply Hb. reflexivity.
    - inversion H; subst. destruct (eval_all_spec cs st1) as [Hc' Hr'].
      split; [congruence|]. split; [congruence|]. discriminate.
  Qed.

  Lemma insert_prio_In : forall x l y, In y (insert_ x l) <-> y = x \/ In y l.
  Proof.
    intros x l y. induction l as [|z l IH].
    - simpl. intuition.
    - cbn [insert_prio]. destruct (priority x <? priority z).
      + simpl. rewrite IH. intuition.
      + simpl. intuition.
  Qed.

  Lemma sort_In : forall l y, In y (sort_ l) <-> In y l.
  Proof.
    induction l as [|x l IH]; intros y.
    - simpl. tauto.
    - unfold sort_by_priority. cbn [fold_right].
      rewrite insert_prio_In. fold (sort_ l). rewrite IH. simpl. intuition.
  Qed.

  Lemma sort_nil : forall l, sort_ l = [] -> l = [].
  Proof.
    intros l H. destruct l as [|x l]; [reflexivity|].
    exfalso. assert (Hin : In x (sort_ (x :: l))) by (apply sort_In; left; reflexivity).
    rewrite H in Hin. destruct Hin.
  Qed.

  Lemma todo_In : forall cs c,
    In c (sort_ (filter (fun c => negb (enforced c)) cs)) -> In c cs.
  Proof.
    intros cs c Hin. apply (proj1 (sort_In _ _)) in Hin. apply (proj1 (filter_In _ _ _)) in Hin. tauto.
  Qed.

  (* what [resolve_constraints ... true] = ODone gives in the non-trivial branch *)
  Lemma resolve_constraints_done_cases : forall cfg space cs st st',
    resolve_constraints cfg space cs true st = (ODone, st') ->
    (filter (fun c => negb (enforced c)) cs = [] /\ st' = st) \/
    (forall c, In c cs -> passes_on c (cur _ st')).
  Proof.
    intros cfg space cs st st' H. unfold Solver.resolve_constraints in H.
    destruct (sort_ (filter (fun c => negb (enforced c)) cs)) as [|t todo] eqn:Htodo.
    - left. inversion H; subst. split; [apply sort_nil; exact Htodo | reflexivity].
    - right.
      destruct (resolve_each_ cfg space cs (t :: todo) st) as [o st1] eqn:Hre.
      destruct o; try discriminate H.
      destruct (final_check_spec _ _ _ _ H) as (Hc & _ & Hall).
      rewrite Hc. apply Hall. reflexivity.
  Qed.

  (* ---- C01, first half: a normal return means every constraint passes (no autopass).
     The only return that skips the final check is the one taken when no constraint needs solving
     (all are flagged enforced_by_nucleotide_restrictions): there the caller's guarantee about the
     mutation space (C04) is what makes them pass. *)
  Theorem resolve_constraints_done_all_pass : forall cfg space cs st st',
    resolve_constraints cfg space cs true st = (ODone, st') ->
    (filter (fun c => negb (enforced c)) cs = [] -> forall c, In c cs -> passes_on c (cur _ st)) ->
    forall c, In c cs -> passes_on c (cur _ st').
  Proof.
    intros cfg space cs st st' H Hempty.
    destruct (resolve_constraints_done_cases _ _ _ _ _ H) as [[Hnil Heq]|Hall].
    - subst st'. apply Hempty. exact Hnil.
    - exact Hall.
  Qed.

  (* with the final check, a return never happens with a breached constraint that is not flagged
     enforced -- whatever localized / heuristics do (they may be arbitrarily wrong) *)
  Theorem resolve_constraints_done_unenforced_pass : forall cfg space cs st st',
    resolve_constraints cfg space cs true st = (ODone, st') ->
    forall c, In c cs -> enforced c = false -> passes_on c (cur _ st').
  Proof.
    intros cfg space cs st st' H c Hin Henf.
    destruct (resolve_constraints_done_cases _ _ _ _ _ H) as [[Hnil Heq]|Hall].
    - exfalso.
      assert (Hf : In c (filter (fun c => negb (enforced c)) cs)).
      { apply filter_In. split; [exact Hin|]. rewrite Henf. reflexivity. }
      rewrite Hnil in Hf. destruct Hf.
    - apply Hall. exact Hin.
  Qed.

  Lemma resolve_constraint_noop_aux : forall cfg space cs c st,
    passes_on c (cur _ st) ->
    exists st', resolve_constraint cfg space cs c st = (ODone, st') /\
                cur _ st' = cur _ st /\ rng _ st' = rng _ st.
  Proof.
    intros cfg space cs c st Hp. unfold Solver.resolve_constraint, evaluate. cbn [fst].
    unfold passes_on in Hp. rewrite Hp.
    eexists. split; [reflexivity|]. simpl. auto.
  Qed.

  Lemma resolve_each_noop : forall cfg space cs todo st,
    (forall c, In c todo -> passes_on c (cur _ st)) ->
    exists st', resolve_each_ cfg space cs todo st = (ODone, st') /\
                cur _ st' = cur _ st /\ rng _ st' = rng _ st.
  Proof.
    intros cfg space cs todo. induction todo as [|c todo IH]; intros st Hall.
    - simpl. exists st. auto.
    - cbn [resolve_each].
      destruct (resolve_constraint_noop_aux cfg space cs c st (Hall c (or_introl eq_refl)))
        as (st1 & Hrc & Hc1 & Hr1).
      rewrite Hrc.
      destruct (IH st1) as (st2 & Hre & Hc2 & Hr2).
      { intros c' Hin. rewrite Hc1. apply Hall. right. exact Hin. }
      exists st2. split; [exact Hre|]. split; congruence.
  Qed.

  (* ---- C14: nothing to do => nothing touched, no random number drawn *)
  Theorem resolve_constraints_noop : forall cfg space cs fc st,
    (forall c, In c cs -> passes_on c (cur _ st)) ->
    exists st', resolve_constraints cfg space cs fc st = (ODone, st') /\
                cur _ st' = cur _ st /\ rng _ st' = rng _ st.
  Proof.
    intros cfg space cs fc st Hall. unfold Solver.resolve_constraints.
    destruct (sort_ (filter (fun c => negb (enforced c)) cs)) as [|t todo] eqn:Htodo.
    - exists st. auto.
    - destruct (resolve_each_noop cfg space cs (t :: todo) st) as (st1 & Hre & Hc1 & Hr1).
      { intros c Hin. apply Hall. apply todo_In. rewrite Htodo. exact Hin. }
      rewrite Hre. destruct fc.
      + destruct (all_pass_true cs st1) as (st2 & Hap & Hc2 & Hr2).
        { intros c Hin. rewrite Hc1. apply Hall. exact Hin. }
        unfold final_check. rewrite Hap.
        exists st2. split; [reflexivity|]. split; congruence.
      + exists st1. auto.
  Qed.

  Theorem resolve_constraint_noop : forall cfg space cs c st,
    passes_on c (cur _ st) ->
    exists st', resolve_constraint cfg space cs c st = (ODone, st') /\
                cur _ st' = cur _ st /\ rng _ st' = rng _ st.
  Proof.
    exact resolve_constraint_noop_aux.
  Qed.

  Lemma optimize_objective_noop : forall cfg space cs objs o st b,
    best o = Some b -> (fst (ev o (cur _ st)) == b)%Q ->
    exists st', optimize_objective cfg space cs objs o st = (ODone, st') /\
                cur _ st' = cur _ st /\ rng _ st' = rng _ st.
  Proof.
    intros cfg space cs objs o st b Hb Heq.
    unfold Solver.optimize_objective, evaluate. cbn [fst]. rewrite Hb.
    apply Qeq_bool_iff in Heq. rewrite Heq.
    eexists. split; [reflexivity|]. simpl. auto.
  Qed.

  Lemma optimize_each_noop : forall cfg space cs objs todo st,
    (forall o, In o todo -> exists b, best o = Some b /\ (fst (ev o (cur _ st)) == b)%Q) ->
    exists st', optimize_each_ cfg space cs objs todo st = (ODone, st') /\
                cur _ st' = cur _ st /\ rng _ st' = rng _ st.
  Proof.
    intros cfg space cs objs todo. induction todo as [|o todo IH]; intros st Hall.
    - simpl. exists st. auto.
    - cbn [optimize_each].
      destruct (Hall o (or_introl eq_refl)) as (b & Hb & Heq).
      destruct (optimize_objective_noop cfg space cs objs o st b Hb Heq) as (st1 & Hoo & Hc1 & Hr1).
      rewrite Hoo.
      destruct (IH st1) as (st2 & Hoe & Hc2 & Hr2).
      { intros o' Hin. rewrite Hc1. apply Hall. right. exact Hin. }
      exists st2. split; [exact Hoe|]. split; congruence.
  Qed.

  Theorem optimize_noop : forall cfg space cs objs st,
    (forall o, In o objs -> exists b, best o = Some b /\ (fst (ev o (cur _ st)) == b)%Q) ->
    exists st', optimize cfg space cs objs st = (ODone, st') /\
                cur _ st' = cur _ st /\ rng _ st' = rng _ st.
  Proof.
    intros cfg space cs objs st Hall. unfold Solver.optimize.
    apply optimize_each_noop.
    intros o Hin. apply filter_In in Hin. apply Hall. tauto.
  Qed.

  (* ---- C06, first half: the exhaustive constraint search is complete.
     [feasible p t]: what the loop tests on candidate t *)
  Definition feasible (p : lproblem spec) (t : dna) : Prop :=
    match lp_focus _ p with
    | Some (f, _) => passes_on f t /\ forall c, In c (lp_others _ p) -> passes_on c t
    | None => forall c, In c (lp_others _ p) -> enforced c = false -> passes_on c t
    end.


  (* one iteration of the exhaustive loop: candidate v is assigned, tested (the boolean [ok] is
     exactly feasibility of v), and the loop either stops on v or goes on *)
  Lemma exhaustive_step : forall p v rest st,
    exists (ok : bool) (st2 : state spec),
      exhaustive_loop_ p (v :: rest) st =
        (if ok then (true, st2) else exhaustive_loop_ p rest st2) /\
      cur _ st2 = v /\ rng _ st2 = rng _ st /\ (ok = true <-> feasible p v).
  Proof.
    intros p v rest st. cbn [exhaustive_loop]. unfold feasible.
    destruct (lp_focus _ p) as [[f q]|].
    - unfold evaluate, assign. cbn [cur rng trace fst].
      destruct (passesq (fst (ev f v))) eqn:Hp.
      + match goal with |- context [all_pass_ ?cs ?s] =>
          destruct (all_pass_ cs s) as [ok st3] eqn:Hap end.
        destruct (all_pass_spec _ _ _ _ Hap) as (Hc & Hr & Hb). cbn [cur rng] in Hc, Hr, Hb.
        exists ok, st3. split; [destruct ok; reflexivity|].
        split; [exact Hc|]. split; [exact Hr|].
        rewrite Hb. split.
        * intros Hall. split; [exact Hp | exact Hall].
        * intros [_ Hall]. exact Hall.
      + eexists false, _. split; [reflexivity|]. cbn [cur rng].
        split; [reflexivity|]. split; [reflexivity|].
        split; [discriminate|].
        intros [Hf _]. unfold passes_on in Hf. congruence.
    - unfold all_constraints_pass.
      match goal with |- context [all_pass_ ?cs ?s] =>
        destruct (all_pass_ cs s) as [ok st2] eqn:Hap end.
      destruct (all_pass_spec _ _ _ _ Hap) as (Hc & Hr & Hb).
      unfold assign in Hc, Hr, Hb. cbn [cur rng] in Hc, Hr, Hb.
      exists ok, st2. split; [destruct ok; reflexivity|].
      split; [exact Hc|]. split; [exact Hr|].
      rewrite Hb. split.
      * intros Hall c Hin Henf. apply Hall. apply filter_In.
        split; [exact Hin|]. rewrite Henf. reflexivity.
      * intros Hall c Hin. apply filter_In in Hin. destruct Hin as [Hin Hne].
        apply Hall; [exact Hin|]. destruct (enforced c); [discriminate Hne | reflexivity].
  Qed.

  (* the strong loop lemma: no random draw; [true] = stopped on the first feasible variant;
     [false] = no variant is feasible *)
  Lemma exhaustive_loop_spec : forall p vs st b st',
    exhaustive_loop_ p vs st = (b, st') ->
    rng _ st' = rng _ st /\
    (if b then exists pre post, vs = pre ++ cur _ st' :: post /\ feasible p (cur _ st') /\
                                (forall u, In u pre -> ~ feasible p u)
     else forall t, In t vs -> ~ feasible p t).
  Proof.
    intros p vs. induction vs as [|v rest IH]; intros st b st' H.
    - simpl in H. inversion H; subst. split; [reflexivity|]. intros t Hin. destruct Hin.
    - destruct (exhaustive_step p v rest st) as (ok & st2 & Hstep & Hc2 & Hr2 & Hok).
      rewrite Hstep in H. destruct ok.
      + inversion H; subst b st'. split; [exact Hr2|].
        exists (@nil dna), rest. rewrite Hc2. split; [reflexivity|].
        split; [apply Hok; reflexivity|]. intros u Hin. destruct Hin.
      + assert (Hnf : ~ feasible p v).
        { intros Hf. apply Hok in Hf. discriminate Hf. }
        destruct (IH _ _ _ H) as (Hr & Hres). split; [congruence|].
        destruct b.
        * destruct Hres as (pre & post & Hvs & Hfe & Hpre).
          exists (v :: pre), post. split; [rewrite Hvs; reflexivity|].
          split; [exact Hfe|].
          intros u Hin. destruct Hin as [Heq|Hin]; [subst u; exact Hnf | apply Hpre; exact Hin].
        * intros t Hin. destruct Hin as [Heq|Hin]; [subst t; exact Hnf | apply Hres; exact Hin].
  Qed.

  Theorem resolve_exhaustive_complete : forall p st vs,
    all_variants (lp_space _ p) (cur _ st) = Some vs ->
    (* success: the result is the first feasible variant in enumeration order *)
    ((exists t, In t vs /\ feasible p t) ->
       exists st' pre t post, resolve_exhaustive p st = (ODone, st') /\ cur _ st' = t /\
         vs = pre ++ t :: post /\ feasible p t /\ (forall u, In u pre -> ~ feasible p u)) /\
    (* failure: NoSolutionError exactly when no variant is feasible; the sequence is restored *)
    ((forall t, In t vs -> ~ feasible p t) ->
       exists st', resolve_exhaustive p st = (ONoSolution, st') /\ cur _ st' = cur _ st) /\
    (forall st', resolve_exhaustive p st = (ODone, st') -> In (cur _ st') vs /\ feasible p (cur _ st')) /\
    (forall st', resolve_exhaustive p st = (ONoSolution, st') ->
       cur _ st' = cur _ st /\ forall t, In t vs -> ~ feasible p t) /\
    (* the search draws no random number *)
    (forall o st', resolve_exhaustive p st = (o, st') -> rng _ st' = rng _ st).
  Proof.
    intros p st vs Hvs. unfold Solver.resolve_exhaustive. rewrite Hvs.
    destruct (exhaustive_loop_ p vs st) as [b st1] eqn:Hloop.
    destruct (exhaustive_loop_spec _ _ _ _ _ Hloop) as (Hr & Hres).
    destruct b.
    - destruct Hres as (pre & post & Hsplit & Hfe & Hpre).
      split; [|split; [|split; [|split]]].
      + intros _. exists st1, pre, (cur _ st1), post.
        split; [reflexivity|]. split; [reflexivity|]. split; [exact Hsplit|].
        split; [exact Hfe | exact Hpre].
      + intros Hnone. exfalso. apply (Hnone (cur _ st1)); [|exact Hfe].
        rewrite Hsplit. apply in_or_app. right. left. reflexivity.
      + intros st' Heq. inversion Heq; subst st'. split; [|exact Hfe].
        rewrite Hsplit. apply in_or_app. right. left. reflexivity.
      + intros st' Heq. discriminate Heq.
      + intros o st' Heq. inversion Heq; subst. exact Hr.
    - split; [|split; [|split; [|split]]].
      + intros (t & Hin & Hfe). exfalso. exact (Hres t Hin Hfe).
      + intros _. eexists. split; [reflexivity|]. reflexivity.
      + intros st' Heq. discriminate Heq.
      + intros st' Heq. inversion Heq; subst st'. split; [reflexivity | exact Hres].
      + intros o st' Heq. inversion Heq; subst. cbn [assign rng]. exact Hr.
  Qed.
End SolverA.

