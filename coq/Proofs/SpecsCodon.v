(* C07 (and C04(b) for EnforceTranslation) lemmas: the synonymous-codon mutation space keeps the
   protein, and the CAI score is a sum of independent per-codon terms that is 0 exactly when every
   codon is a most-frequent synonym. *)
From Coq Require Import ZArith QArith Qabs Bool List Ascii String Lia Lqa.
From DC Require Import Model.Base Model.Loc Model.Bio Model.Pattern Model.MSpace Model.Specs
                       Generated.GenTables Proofs.SpecsDefs Proofs.BioA Proofs.MSpaceDefs
                       Proofs.MSpaceA Proofs.MSpaceD Proofs.SpecsLocalC.
Import ListNotations.
Open Scope Z_scope.

(* the i-th codon of the coding region l read on its strand, in sequence t *)
Definition codon_of (l : loc) (t : dna) (i : Z) : dna := extract (codon_loc l i) t.

(* ------------------------------------------------------------------ generic list helpers *)

Lemma mapM_Forall2 : forall {X Y} (f : X -> option Y) l r,
  mapM f l = Some r <-> Forall2 (fun x y => f x = Some y) l r.
Proof.
  intros X Y f l. induction l as [|x l IH]; intro r.
  - cbn [mapM]. split; intro H.
    + inversion H. constructor.
    + inversion H. reflexivity.
  - cbn [mapM]. destruct (f x) as [y|] eqn:E.
    + destruct (mapM f l) as [r'|] eqn:E2.
      * split; intro H.
        -- inversion H; subst. constructor; [exact E | apply IH; reflexivity].
        -- inversion H as [|x0 y0 l0 r0 H1 H2]; subst. rewrite E in H1. inversion H1; subst.
           apply IH in H2. inversion H2; subst. reflexivity.
      * split; intro H; [discriminate|].
        inversion H as [|x0 y0 l0 r0 H1 H2]; subst. apply IH in H2. discriminate.
    + split; intro H; [discriminate|].
      inversion H as [|x0 y0 l0 r0 H1 H2]; subst. rewrite E in H1. discriminate.
Qed.

Lemma Forall2_map_l : forall {X Y Z} (g : X -> Y) (R : Y -> Z -> Prop) l r,
  Forall2 R (map g l) r <-> Forall2 (fun x y => R (g x) y) l r.
Proof.
  intros X Y Z g R l. induction l as [|x l IH]; intro r; cbn [map].
  - split; intro H; inversion H; constructor.
  - split; intro H; inversion H as [|x0 y0 l0 r0 H1 H2]; subst; constructor; try exact H1; apply IH; exact H2.
Qed.

Lemma Forall2_combine : forall {X Y} (R : X -> Y -> Prop) l r,
  Forall2 R l r <->
  List.length l = List.length r /\ Forall (fun p => R (fst p) (snd p)) (combine l r).
Proof.
  intros X Y R l. induction l as [|x l IH]; intro r.
  - split; intro H.
    + inversion H. split; [reflexivity | constructor].
    + destruct H as [H _]. destruct r; [constructor | discriminate].
  - split; intro H.
    + inversion H as [|x0 y0 l0 r0 H1 H2]; subst. apply IH in H2. destruct H2 as [H2 H3].
      split; [cbn [List.length]; rewrite H2; reflexivity|].
      cbn [combine]. constructor; [exact H1 | exact H3].
    + destruct H as [H1 H2]. destruct r as [|y r]; [discriminate|].
      cbn [combine] in H2. inversion H2 as [|p ps H3 H4]; subst. cbn [fst snd] in H3.
      constructor; [exact H3|]. apply IH. split; [cbn [List.length] in H1; lia | exact H4].
Qed.

Lemma pyslice_slice : forall {X} (l : list X) a b, 0 <= a <= zlen l -> 0 <= b <= zlen l ->
  pyslice l a b = slice l a b.
Proof.
  intros X l a b Ha Hb. unfold pyslice, norm_idx.
  destruct (Z.ltb_spec a 0) as [H1|H1]; [lia|].
  destruct (Z.ltb_spec b 0) as [H2|H2]; [lia|].
  rewrite !Z.min_r by lia. reflexivity.
Qed.

Lemma zrange_cons' : forall a b, a < b -> zrange a b = a :: zrange (a + 1) b.
Proof.
  intros a b H. unfold zrange.
  replace (Z.to_nat (b - a)) with (S (Z.to_nat (b - (a + 1)))) by lia.
  cbn [seq map]. f_equal; [lia|].
  rewrite <- seq_shift, map_map. apply map_ext. intro k. lia.
Qed.

Lemma zrange_nil : forall a b, b <= a -> zrange a b = [].
Proof. intros a b H. unfold zrange. replace (Z.to_nat (b - a)) with 0%nat by lia. reflexivity. Qed.

Lemma zrange_In : forall a b i, In i (zrange a b) -> a <= i < b.
Proof.
  intros a b i H. unfold zrange in H. apply in_map_iff in H. destruct H as [k [Hk Hin]].
  apply in_seq in Hin. lia.
Qed.

Lemma zrange_length : forall a b, List.length (zrange a b) = Z.to_nat (b - a).
Proof. intros a b. unfold zrange. rewrite map_length, seq_length. reflexivity. Qed.

Lemma zlen_cons' : forall {X} (x : X) l, zlen (x :: l) = 1 + zlen l.
Proof. intros X x l. unfold zlen. cbn [List.length]. lia. Qed.

Lemma zlen_nonneg' : forall {X} (l : list X), 0 <= zlen l.
Proof. intros X l. unfold zlen. lia. Qed.

(* a property of the pairs (index, element) of a list numbered from a *)
Lemma Forall_combine_zrange : forall {X} (P : Z -> X -> Prop) (r : list X) a,
  Forall (fun p => P (fst p) (snd p)) (combine (zrange a (a + zlen r)) r) <->
  (forall i, a <= i < a + zlen r -> exists x, nth_error r (Z.to_nat (i - a)) = Some x /\ P i x).
Proof.
  intros X P r. induction r as [|x r IH]; intro a.
  - change (zlen (@nil X)) with 0. rewrite zrange_nil by lia. cbn [combine].
    split; intro H; [intros i Hi; lia | constructor].
  - rewrite zlen_cons'. rewrite zrange_cons' by (pose proof (zlen_nonneg' r); lia).
    replace (a + (1 + zlen r)) with ((a + 1) + zlen r) by lia.
    cbn [combine]. rewrite Forall_cons_iff. cbn [fst snd]. rewrite (IH (a + 1)). split.
    + intros [Hx Hr] i Hi. destruct (Z.eq_dec i a) as [E|E].
      * subst i. rewrite Z.sub_diag. exists x. split; [reflexivity | exact Hx].
      * destruct (Hr i) as [y [Hy Py]]; [lia|]. exists y. split; [|exact Py].
        replace (Z.to_nat (i - a)) with (S (Z.to_nat (i - (a + 1)))) by lia. exact Hy.
    + intro H. split.
      * destruct (H a) as [y [Hy Py]]; [pose proof (zlen_nonneg' r); lia|].
        rewrite Z.sub_diag in Hy. cbn in Hy. inversion Hy; subst. exact Py.
      * intros i Hi. destruct (H i) as [y [Hy Py]]; [lia|]. exists y. split; [|exact Py].
        replace (Z.to_nat (i - a)) with (S (Z.to_nat (i - (a + 1)))) in Hy by lia. exact Hy.
Qed.

(* ------------------------------------------------------------------ the sorted list of choices *)

Definition ins_choice (x : choice) : list choice -> list choice :=
  fix ins (l0 : list choice) := match l0 with
    | [] => [x]
    | y :: l' => if cstart y <? cstart x then y :: ins l' else x :: l0
    end.

Lemma Forall_ins : forall (P : choice -> Prop) x l, Forall P (ins_choice x l) <-> P x /\ Forall P l.
Proof.
  intros P x l. induction l as [|y l IH].
  - cbn [ins_choice]. rewrite Forall_cons_iff. reflexivity.
  - cbn [ins_choice]. destruct (cstart y <? cstart x).
    + fold (ins_choice x). rewrite !Forall_cons_iff, IH. tauto.
    + rewrite !Forall_cons_iff. tauto.
Qed.

Lemma Forall_sort : forall (P : choice -> Prop) all,
  Forall P (fold_right (fun x acc => ins_choice x acc) [] all) <-> Forall P all.
Proof.
  intros P all. induction all as [|x all IH].
  - reflexivity.
  - cbn [fold_right]. rewrite Forall_ins, Forall_cons_iff, IH. reflexivity.
Qed.

Definition std_choice (lc : loc) (cs : list dna) : choice :=
  rchoice (lstart lc) (lend lc) (nodup_dna (if lstrand lc =? -1 then map rc cs else cs)).

Definition first_choices (T : gtable) (tr : astr) (st : start_policy) (fc : dna) : list dna :=
  match st with
  | StartNone => match tr with aa :: _ => back_codons T aa | [] => [] end
  | StartKeep => [fc]
  | StartCodons cs => cs
  end.

Definition codon_choice (T : gtable) (l : loc) (p : Z * ascii) : choice :=
  std_choice (codon_loc l (fst p)) (back_codons T (snd p)).

Lemma restrict_translation_Forall : forall (P : choice -> Prop) T l tr st s,
  Forall P (restrict_nucleotides (STranslation T l tr st) false s) <->
  Forall P (std_choice (codon_loc l 0) (first_choices T tr st (extract (codon_loc l 0) s)) ::
            map (codon_choice T l) (tl (combine (zrange 0 (zlen tr)) tr))).
Proof. intros P T l tr st s. exact (Forall_sort P _). Qed.

(* ------------------------------------------------------------------ one choice = one codon *)

Lemma holds_std : forall l t i n cs,
  loc_in l (zlen t) -> loc_len l = 3 * n -> 0 <= i < n ->
  (holds (std_choice (codon_loc l i) cs) t <-> In (codon_of l t i) cs).
Proof.
  intros l t i n cs (H0 & H1 & H2 & H3) Hlen Hi. unfold loc_len in Hlen.
  unfold holds, std_choice, rchoice. cbn [cstart cend cvariants]. rewrite nodup_dna_In.
  unfold codon_of, extract, codon_loc.
  destruct (0 <=? lstrand l); cbn [lstart lend lstrand].
  - change (1 =? -1) with false. cbv iota. rewrite pyslice_slice by lia. reflexivity.
  - change (-1 =? -1) with true. cbv iota. rewrite pyslice_slice by lia. split.
    + intro Hin. apply in_map_iff in Hin. destruct Hin as [c [Hc Hin]].
      rewrite <- Hc, rc_involutive. exact Hin.
    + intro Hin. apply in_map_iff. eexists. split; [|exact Hin]. apply rc_involutive.
Qed.

(* ------------------------------------------------------------------ codons of the coding region *)

Lemma codons_map_nat : forall k (X : dna), List.length X = (3 * k)%nat ->
  codons X = map (fun j => firstn 3 (skipn (3 * j) X)) (seq 0 k).
Proof.
  induction k as [|k IH]; intros X H.
  - destruct X; [reflexivity | cbn [List.length] in H; lia].
  - destruct X as [|a [|b [|c X]]]; cbn [List.length] in H; try lia.
    rewrite codons_cons3. change (seq 0 (S k)) with (0%nat :: seq 1 k).
    cbn [map]. rewrite <- seq_shift, map_map. f_equal.
    rewrite IH by lia. apply map_ext. intro j.
    replace (3 * S j)%nat with (S (S (S (3 * j)))) by lia. reflexivity.
Qed.

Lemma codon_nth : forall l t n j,
  loc_in l (zlen t) -> loc_len l = 3 * n -> (j < Z.to_nat n)%nat ->
  firstn 3 (skipn (3 * j) (extract l t)) = codon_of l t (Z.of_nat j).
Proof.
  intros l t n j (H0 & H1 & H2 & H3) Hlen Hj. unfold loc_len in Hlen. unfold codon_of.
  assert (H2' : (Z.to_nat (lstart l) + Z.to_nat (lend l - lstart l) <= List.length t)%nat)
    by (unfold zlen in H2; lia).
  rewrite (extract_sub l t) by lia.
  rewrite sub_sub by exact H2'.
  rewrite (extract_sub (codon_loc l (Z.of_nat j)) t);
    [| unfold codon_loc; destruct (0 <=? lstrand l); cbn [lstart lend]; lia ..].
  unfold codon_loc.
  destruct H3 as [E|[E|E]]; rewrite E.
  - change (0 <=? 1) with true. change (1 =? -1) with false. cbv iota. cbn [lstart lend lstrand].
    change (1 =? -1) with false. f_equal; lia.
  - change (0 <=? -1) with false. change (-1 =? -1) with true. cbv iota. cbn [lstart lend lstrand].
    change (-1 =? -1) with true. f_equal; lia.
  - change (0 <=? 0) with true. change (0 =? -1) with false. cbv iota. cbn [lstart lend lstrand].
    change (1 =? -1) with false. f_equal; lia.
Qed.

Lemma codons_extract : forall l t n,
  loc_in l (zlen t) -> loc_len l = 3 * n -> 0 <= n ->
  codons (extract l t) = map (codon_of l t) (zrange 0 n).
Proof.
  intros l t n Hl Hlen Hn.
  rewrite (codons_map_nat (Z.to_nat n)).
  - unfold zrange. rewrite map_map, Z.sub_0_r. apply map_ext_in. intros j Hj.
    apply in_seq in Hj. rewrite Z.add_0_l. apply codon_nth with n; [exact Hl | exact Hlen | lia].
  - destruct Hl as (H0 & H1 & H2 & H3). unfold loc_len in Hlen.
    rewrite extract_sub by lia. rewrite sub_length; [lia|]. unfold zlen in H2. lia.
Qed.

(* ------------------------------------------------------------------ tables *)

Lemma dna_assoc_In : forall {V} (c : dna) (t : list (dna * V)) v,
  dna_assoc c t = Some v -> In (c, v) t.
Proof.
  intros V c t v. induction t as [|[d w] t IH]; cbn [dna_assoc]; intro H; [discriminate|].
  destruct (seq_eqb c d) eqn:E.
  - apply seq_eqb_eq in E. inversion H; subst. left. reflexivity.
  - right. apply IH. exact H.
Qed.

Lemma dna_mem_In : forall (c : dna) l, dna_mem c l = true -> In c l.
Proof.
  intros c l. induction l as [|d l IH]; cbn [dna_mem]; intro H; [discriminate|].
  apply orb_true_iff in H. destruct H as [H|H].
  - apply seq_eqb_eq in H. left. symmetry. exact H.
  - right. apply IH. exact H.
Qed.

(* no forward table lists "*" as an amino acid *)
Definition fwd_no_star (T : gtable) : bool :=
  forallb (fun p => negb (Ascii.eqb (snd p) "*")) (gt_forward T).

Lemma fwd_no_star_all : forallb (fun nt => fwd_no_star (snd nt)) genetic_tables = true.
Proof. vm_compute. reflexivity. Qed.

Lemma codon_aa_back : forall name T c aa,
  In (name, T) genetic_tables -> no_dual_stop T = true ->
  (In c (back_codons T aa) <-> codon_aa T c = Some aa).
Proof.
  intros name T c aa Hin Hnd. split.
  - intro H. apply (back_codons_ok T aa c (table_ok_of name T Hin Hnd) H).
  - pose proof (proj1 (forallb_forall _ _) fwd_no_star_all (name, T) Hin) as Hns.
    cbn [snd] in Hns. unfold fwd_no_star in Hns. rewrite forallb_forall in Hns.
    unfold codon_aa. destruct (dna_assoc c (gt_forward T)) as [a|] eqn:E.
    + intro H. inversion H; subst a. apply dna_assoc_In in E.
      specialize (Hns (c, aa) E). cbn [snd] in Hns.
      unfold back_codons. destruct (Ascii.eqb aa "*"); [discriminate|].
      apply in_map_iff. exists (c, aa). split; [reflexivity|].
      apply filter_In. split; [exact E|]. cbn [snd]. apply Ascii.eqb_refl.
    + destruct (dna_mem c (gt_stops T)) eqn:E2; intro H; [|discriminate].
      inversion H; subst aa. unfold back_codons. rewrite Ascii.eqb_refl.
      apply dna_mem_In. exact E2.
Qed.

(* ------------------------------------------------------------------ EnforceTranslation *)

(* EnforceTranslation.restrict_nucleotides without start-codon policy: a sequence satisfies all the
   per-codon choices iff its coding region translates to the wanted protein (both strands; tables
   without dual-use stop codons).
   The hypothesis [1 <= zlen tr] (non-empty coding region) was added: without it the statement is
   false, see translation_restrictions_empty_refuted below. *)
Theorem translation_restrictions_mean_same_protein : forall name T l tr s t,
  In (name, T) genetic_tables -> no_dual_stop T = true ->
  loc_in l (zlen s) -> loc_len l = 3 * zlen tr -> 1 <= zlen tr -> zlen t = zlen s ->
  (Forall (fun r => holds r t) (restrict_nucleotides (STranslation T l tr StartNone) false s) <->
   translate T (extract l t) = Some tr).
Proof.
  intros name T l tr s t Hin Hnd Hl Hlen Hne Hz.
  assert (Hlt : loc_in l (zlen t)) by (rewrite Hz; exact Hl).
  rewrite restrict_translation_Forall.
  assert (Hall : std_choice (codon_loc l 0)
                   (first_choices T tr StartNone (extract (codon_loc l 0) s)) ::
                 map (codon_choice T l) (tl (combine (zrange 0 (zlen tr)) tr)) =
                 map (codon_choice T l) (combine (zrange 0 (zlen tr)) tr)).
  { destruct tr as [|aa0 tr']; [change (zlen (@nil ascii)) with 0 in Hne; lia|].
    rewrite (zrange_cons' 0 (zlen (aa0 :: tr'))) by lia. reflexivity. }
  rewrite Hall. clear Hall. rewrite Forall_map.
  unfold translate. rewrite (codons_extract l t (zlen tr) Hlt Hlen) by lia.
  rewrite (mapM_Forall2 (codon_aa T) (map (codon_of l t) (zrange 0 (zlen tr))) tr).
  rewrite Forall2_map_l, Forall2_combine.
  assert (Hlen2 : List.length (zrange 0 (zlen tr)) = List.length tr).
  { rewrite zrange_length. unfold zlen. lia. }
  assert (Hpair : forall p, In p (combine (zrange 0 (zlen tr)) tr) ->
            (holds (codon_choice T l p) t <-> codon_aa T (codon_of l t (fst p)) = Some (snd p))).
  { intros [i aa] Hp. cbn [fst snd]. apply in_combine_l in Hp. apply zrange_In in Hp.
    unfold codon_choice. cbn [fst snd].
    rewrite (holds_std l t i (zlen tr) _ Hlt Hlen Hp).
    apply (codon_aa_back name T _ aa Hin Hnd). }
  rewrite !Forall_forall. split.
  - intro H. split; [exact Hlen2|]. intros p Hp. apply Hpair; [exact Hp | apply H; exact Hp].
  - intros [_ H] p Hp. apply Hpair; [exact Hp | apply H; exact Hp].
Qed.

(* the original statement (without [1 <= zlen tr]) is false: for an empty coding region the
   restriction list still contains one choice, for the (non-existing) first codon, with no variant
   at all (no sequence satisfies it) while the empty region does translate to the empty protein *)
Definition nodual_nt : string * gtable :=
  match find (fun nt => no_dual_stop (snd nt)) genetic_tables with
  | Some x => x
  | None => (""%string, mkGT [] [] [])
  end.

Lemma nodual_nt_find : find (fun nt => no_dual_stop (snd nt)) genetic_tables = Some nodual_nt.
Proof. vm_compute. reflexivity. Qed.

Theorem translation_restrictions_empty_refuted :
  exists name T l tr s t,
    In (name, T) genetic_tables /\ no_dual_stop T = true /\
    loc_in l (zlen s) /\ loc_len l = 3 * zlen tr /\ zlen t = zlen s /\
    ~ (Forall (fun r => holds r t) (restrict_nucleotides (STranslation T l tr StartNone) false s) <->
       translate T (extract l t) = Some tr).
Proof.
  exists (fst nodual_nt), (snd nodual_nt), (mkLoc 0 0 1), [], [], [].
  rewrite <- surjective_pairing.
  split; [|split; [|split; [|split; [|split]]]].
  - apply (find_some _ _ nodual_nt_find).
  - vm_compute. reflexivity.
  - unfold loc_in. cbn. lia.
  - reflexivity.
  - reflexivity.
  - intros [_ H]. assert (Ht : translate (snd nodual_nt) (extract (mkLoc 0 0 1) []) = Some []) by reflexivity.
    apply H in Ht. apply restrict_translation_Forall in Ht.
    inversion Ht as [|c cs Hc Hcs]; subst. unfold holds in Hc. cbn in Hc. exact Hc.
Qed.

(* with a start-codon policy the first codon is restricted to the policy's set instead, the others
   as above *)
Theorem translation_restrictions_with_start_policy : forall name T l tr st s t,
  In (name, T) genetic_tables -> no_dual_stop T = true ->
  loc_in l (zlen s) -> loc_len l = 3 * zlen tr -> 1 <= zlen tr -> zlen t = zlen s ->
  st <> StartNone ->
  (Forall (fun r => holds r t) (restrict_nucleotides (STranslation T l tr st) false s) <->
   (In (codon_of l t 0) (match st with
                         | StartKeep => [codon_of l s 0]
                         | StartCodons cs => cs
                         | StartNone => []
                         end)) /\
   (forall i, 1 <= i < zlen tr ->
      exists aa, nth_error tr (Z.to_nat i) = Some aa /\ codon_aa T (codon_of l t i) = Some aa)).
Proof.
  intros name T l tr st s t Hin Hnd Hl Hlen Hne Hz Hst.
  assert (Hlt : loc_in l (zlen t)) by (rewrite Hz; exact Hl).
  rewrite restrict_translation_Forall.
  destruct tr as [|aa0 tr']; [change (zlen (@nil ascii)) with 0 in Hne; lia|].
  rewrite (zrange_cons' 0 (zlen (aa0 :: tr'))) by lia. cbn [combine tl].
  rewrite Forall_cons_iff, Forall_map.
  rewrite (holds_std l t 0 (zlen (aa0 :: tr')) _ Hlt Hlen) by lia.
  assert (Hfc : first_choices T (aa0 :: tr') st (extract (codon_loc l 0) s) =
                match st with
                | StartKeep => [codon_of l s 0]
                | StartCodons cs => cs
                | StartNone => []
                end).
  { destruct st; [contradiction | reflexivity | reflexivity]. }
  rewrite Hfc. clear Hfc.
  assert (Hn : zlen (aa0 :: tr') = 1 + zlen tr') by apply zlen_cons'.
  rewrite Hn in *. replace (0 + 1) with 1 by lia.
  pose proof (Forall_combine_zrange
                (fun i aa => holds (std_choice (codon_loc l i) (back_codons T aa)) t) tr' 1) as HF.
  cbv beta in HF. unfold codon_choice.
  rewrite HF. clear HF.
  assert (Hpair : forall i aa, 1 <= i < 1 + zlen tr' ->
            (holds (std_choice (codon_loc l i) (back_codons T aa)) t <->
             codon_aa T (codon_of l t i) = Some aa)).
  { intros i aa Hi. rewrite (holds_std l t i (1 + zlen tr') _ Hlt Hlen) by lia.
    apply (codon_aa_back name T _ aa Hin Hnd). }
  split.
  - intros [H1 H2]. split; [exact H1|]. intros i Hi.
    destruct (H2 i Hi) as [aa [Hnth Hh]]. exists aa. split.
    + replace (Z.to_nat i) with (S (Z.to_nat (i - 1))) by lia. exact Hnth.
    + apply Hpair; [exact Hi | exact Hh].
  - intros [H1 H2]. split; [exact H1|]. intros i Hi.
    destruct (H2 i Hi) as [aa [Hnth Hh]]. exists aa. split.
    + replace (Z.to_nat i) with (S (Z.to_nat (i - 1))) in Hnth by lia. exact Hnth.
    + apply Hpair; [exact Hi | exact Hh].
Qed.

(* ------------------------------------------------------------------ MaximizeCAI *)

Lemma qsum_nonneg : forall gaps, Forall (fun g => (0 <= g)%Q) gaps -> (0 <= qsum gaps)%Q.
Proof.
  intros gaps H. induction H as [|g gaps Hg Hr IH].
  - unfold qsum. cbn [fold_right]. lra.
  - change (qsum (g :: gaps)) with (g + qsum gaps)%Q. lra.
Qed.

Lemma qsum_nonneg_zero : forall gaps, Forall (fun g => (0 <= g)%Q) gaps ->
  ((qsum gaps == 0)%Q <-> Forall (fun g => (g == 0)%Q) gaps).
Proof.
  intros gaps H. induction H as [|g gaps Hg Hr IH].
  - split; intro H; [constructor | reflexivity].
  - change (qsum (g :: gaps)) with (g + qsum gaps)%Q.
    pose proof (qsum_nonneg gaps Hr) as Hs. split; intro H.
    + constructor; [lra | apply IH; lra].
    + inversion H as [|g0 gs H1 H2]; subst. apply IH in H2. lra.
Qed.

(* MaximizeCAI: the score is minus the sum of the per-codon gaps to the best synonym *)
Theorem cai_score_is_sum_of_codon_gaps : forall lf lb l s e cods,
  get_codons l s = Some cods -> eval_maximize_cai lf lb l s = Some e ->
  exists gaps, mapM (fun c => match qassoc c lf, qassoc c lb with
                              | Some f, Some b => Some (b - f)%Q | _, _ => None end) cods = Some gaps /\
               (score e == - qsum gaps)%Q.
Proof.
  intros lf lb l s e cods Hc He. unfold eval_maximize_cai in He. rewrite Hc in He.
  destruct (mapM (fun c => match qassoc c lf, qassoc c lb with
                           | Some f, Some b => Some (b - f)%Q | _, _ => None end) cods)
    as [gaps|] eqn:E; [|discriminate].
  exists gaps. split; [reflexivity|].
  destruct gaps as [|d [|d2 r]]; inversion He; subst e; cbn [score].
  - reflexivity.
  - unfold qsum. cbn [fold_right]. lra.
  - reflexivity.
Qed.

(* ... hence, when no codon is more frequent than the declared best of its amino acid, the score is 0
   (the declared best possible score) exactly when every codon is a most-frequent synonym *)
Theorem cai_optimal_iff_every_codon_best : forall lf lb l s e cods,
  (forall c f b, qassoc c lf = Some f -> qassoc c lb = Some b -> (f <= b)%Q) ->
  get_codons l s = Some cods -> eval_maximize_cai lf lb l s = Some e ->
  ((score e == 0)%Q <->
   forall c, In c cods -> exists f b, qassoc c lf = Some f /\ qassoc c lb = Some b /\ (f == b)%Q).
Proof.
  intros lf lb l s e cods Hle Hc He.
  destruct (cai_score_is_sum_of_codon_gaps lf lb l s e cods Hc He) as [gaps [Hm Hs]].
  apply mapM_Forall2 in Hm.
  assert (Hnn : Forall (fun g => (0 <= g)%Q) gaps).
  { clear - Hm Hle. induction Hm as [|c g cods gaps H1 H2 IH]; constructor; [|exact IH].
    destruct (qassoc c lf) as [f|] eqn:E1; [|discriminate].
    destruct (qassoc c lb) as [b|] eqn:E2; [|discriminate].
    inversion H1; subst g. specialize (Hle c f b E1 E2). lra. }
  pose proof (qsum_nonneg_zero gaps Hnn) as Hz.
  split.
  - intro H0. assert (Hq : (qsum gaps == 0)%Q) by lra. apply Hz in Hq.
    clear - Hm Hq. induction Hm as [|c g cods gaps H1 H2 IH]; intros c' Hin; [contradiction|].
    inversion Hq as [|g0 gs Hg Hgs]; subst.
    destruct Hin as [Heq|Hin]; [subst c'|apply IH; assumption].
    destruct (qassoc c lf) as [f|] eqn:E1; [|discriminate].
    destruct (qassoc c lb) as [b|] eqn:E2; [|discriminate].
    inversion H1; subst g. exists f, b. split; [reflexivity|]. split; [reflexivity|]. lra.
  - intro Hall. assert (Hq : Forall (fun g => (g == 0)%Q) gaps).
    { clear - Hm Hall. induction Hm as [|c g cods gaps H1 H2 IH]; constructor.
      - destruct (Hall c (or_introl eq_refl)) as [f [b [Hf [Hb Hfb]]]].
        rewrite Hf, Hb in H1. inversion H1; subst g. lra.
      - apply IH. intros c' Hin. apply Hall. right. exact Hin. }
    apply Hz in Hq. lra.
Qed.
