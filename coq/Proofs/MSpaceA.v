(* C15 lemmas, part A: in_space, localized, constrain_sequence, space size. *)
From Coq Require Import ZArith Bool List Lia Sorting.Sorted.
From DC Require Import Model.Base Model.Loc Model.MSpace Proofs.MSpaceDefs.
Import ListNotations.
Open Scope Z_scope.

(* ------------------------------------------------------------------ *)
(* boolean equalities reflect Leibniz equality                          *)
(* ------------------------------------------------------------------ *)

Lemma nuc_eqb_eq : forall x y, nuc_eqb x y = true <-> x = y.
Proof.
  intros x y. destruct x, y; simpl; split; intro H; try reflexivity; try discriminate.
Qed.

Lemma seq_eqb_eq : forall s t, seq_eqb s t = true <-> s = t.
Proof.
  induction s as [|x s IH]; intros [|y t]; simpl; split; intro H;
    try reflexivity; try discriminate.
  - apply andb_true_iff in H. destruct H as [H1 H2].
    apply nuc_eqb_eq in H1. apply IH in H2. subst. reflexivity.
  - inversion H; subst. apply andb_true_iff. split.
    + apply nuc_eqb_eq. reflexivity.
    + apply IH. reflexivity.
Qed.

Lemma list_seq_eqb_eq : forall l1 l2 : list dna, list_eqb seq_eqb l1 l2 = true <-> l1 = l2.
Proof.
  induction l1 as [|x l1 IH]; intros [|y l2]; simpl; split; intro H;
    try reflexivity; try discriminate.
  - apply andb_true_iff in H. destruct H as [H1 H2].
    apply seq_eqb_eq in H1. apply IH in H2. subst. reflexivity.
  - inversion H; subst. apply andb_true_iff. split.
    + apply seq_eqb_eq. reflexivity.
    + apply IH. reflexivity.
Qed.

Lemma choice_eqb_eq : forall a b, choice_eqb a b = true <-> a = b.
Proof.
  intros [s1 e1 v1 y1] [s2 e2 v2 y2]. unfold choice_eqb; simpl.
  rewrite !andb_true_iff, !Z.eqb_eq, list_seq_eqb_eq, eqb_true_iff.
  split.
  - intros [[[H1 H2] H3] H4]. subst. reflexivity.
  - intro H. inversion H. auto.
Qed.

Lemma dmem_In : forall v l, dmem v l = true <-> In v l.
Proof.
  intros v l. induction l as [|w l IH]; simpl.
  - split; [discriminate | tauto].
  - rewrite orb_true_iff, IH, seq_eqb_eq. split; intros [H|H]; auto.
Qed.

(* ------------------------------------------------------------------ *)
(* dedupe                                                               *)
(* ------------------------------------------------------------------ *)

Lemma dedupe_In1 : forall l prev c, In c (dedupe prev l) -> In (Some c) l.
Proof.
  induction l as [|[x|] l IH]; intros prev c H; simpl in *.
  - contradiction.
  - destruct prev as [p|].
    + destruct (choice_eqb x p) eqn:E.
      * right. eapply IH. exact H.
      * destruct H as [H|H]; [left; congruence | right; eapply IH; exact H].
    + destruct H as [H|H]; [left; congruence | right; eapply IH; exact H].
  - right. eapply IH. exact H.
Qed.

Lemma dedupe_In2 : forall l prev c, In (Some c) l -> In c (dedupe prev l) \/ prev = Some c.
Proof.
  induction l as [|[x|] l IH]; intros prev c H; simpl in *.
  - contradiction.
  - destruct H as [H|H].
    + inversion H; subst x. destruct prev as [p|].
      * destruct (choice_eqb c p) eqn:E.
        -- right. apply choice_eqb_eq in E. subst. reflexivity.
        -- left. left. reflexivity.
      * left. left. reflexivity.
    + destruct prev as [p|].
      * destruct (choice_eqb x p) eqn:E.
        -- apply IH. exact H.
        -- destruct (IH (Some x) c H) as [H1|H1].
           ++ left. right. exact H1.
           ++ left. left. congruence.
      * destruct (IH (Some x) c H) as [H1|H1].
        -- left. right. exact H1.
        -- left. left. congruence.
  - destruct H as [H|H]; [discriminate|]. apply IH. exact H.
Qed.

Lemma In_dedupe_None : forall l c, In c (dedupe None l) <-> In (Some c) l.
Proof.
  intros l c. split.
  - apply dedupe_In1.
  - intro H. destruct (dedupe_In2 l None c H) as [H1|H1]; [exact H1 | discriminate].
Qed.

(* ------------------------------------------------------------------ *)
(* list / slice / splice toolkit                                        *)
(* ------------------------------------------------------------------ *)

Lemma zlen_nonneg {X} (l : list X) : 0 <= zlen l.
Proof. unfold zlen. lia. Qed.

Lemma nth_error_ext {X} : forall l1 l2 : list X,
  (forall n, nth_error l1 n = nth_error l2 n) -> l1 = l2.
Proof.
  induction l1 as [|x l1 IH]; intros [|y l2] H.
  - reflexivity.
  - specialize (H 0%nat). discriminate.
  - specialize (H 0%nat). discriminate.
  - f_equal.
    + specialize (H 0%nat). simpl in H. congruence.
    + apply IH. intro n. exact (H (S n)).
Qed.

Lemma nth_error_firstn_lt {X} : forall n (l : list X) j, (j < n)%nat ->
  nth_error (firstn n l) j = nth_error l j.
Proof.
  induction n as [|n IH]; intros l j H.
  - lia.
  - destruct l as [|x l]; simpl.
    + reflexivity.
    + destruct j as [|j]; simpl.
      * reflexivity.
      * apply IH. lia.
Qed.

Lemma nth_error_firstn_ge {X} : forall n (l : list X) j, (n <= j)%nat ->
  nth_error (firstn n l) j = None.
Proof.
  intros n l j H. apply nth_error_None. rewrite firstn_length. lia.
Qed.

Lemma nth_error_skipn' {X} : forall m (l : list X) j,
  nth_error (skipn m l) j = nth_error l (m + j).
Proof.
  induction m as [|m IH]; intros l j; simpl.
  - reflexivity.
  - destruct l as [|x l].
    + destruct j; reflexivity.
    + apply IH.
Qed.

Lemma skipn_skipn' {X} : forall y (l : list X) x, skipn x (skipn y l) = skipn (y + x) l.
Proof.
  induction y as [|y IH]; intros l x; simpl.
  - reflexivity.
  - destruct l as [|h l].
    + destruct x; reflexivity.
    + apply IH.
Qed.

Lemma skipn_app_exact {X} : forall (l1 l2 : list X) n, List.length l1 = n -> skipn n (l1 ++ l2) = l2.
Proof.
  induction l1 as [|x l1 IH]; intros l2 n H; simpl in *; subst n; simpl.
  - reflexivity.
  - apply IH. reflexivity.
Qed.

Lemma firstn_app_exact {X} : forall (l1 l2 : list X) n, List.length l1 = n -> firstn n (l1 ++ l2) = l1.
Proof.
  induction l1 as [|x l1 IH]; intros l2 n H; simpl in *; subst n; simpl.
  - reflexivity.
  - f_equal. apply IH. reflexivity.
Qed.

Lemma nth_error_slice {X} (l : list X) a b j :
  nth_error (slice l a b) j =
  if (j <? Z.to_nat (b - a))%nat then nth_error l (Z.to_nat a + j) else None.
Proof.
  unfold slice. destruct (Nat.ltb_spec j (Z.to_nat (b - a))) as [Hlt|Hge].
  - rewrite nth_error_firstn_lt by assumption. apply nth_error_skipn'.
  - apply nth_error_firstn_ge. assumption.
Qed.

Lemma In_slice {X} (l : list X) a b x : 0 <= a ->
  (In x (slice l a b) <-> exists i, a <= i < b /\ nth_error l (Z.to_nat i) = Some x).
Proof.
  intros Ha. split.
  - intros H. apply In_nth_error in H. destruct H as [j Hj].
    rewrite nth_error_slice in Hj.
    destruct (Nat.ltb_spec j (Z.to_nat (b - a))) as [Hlt|Hge]; [|discriminate].
    exists (a + Z.of_nat j). split; [lia|].
    replace (Z.to_nat (a + Z.of_nat j)) with (Z.to_nat a + j)%nat by lia. exact Hj.
  - intros [i [Hi Hn]]. apply nth_error_In with (n := Z.to_nat (i - a)).
    rewrite nth_error_slice.
    destruct (Nat.ltb_spec (Z.to_nat (i - a)) (Z.to_nat (b - a))) as [Hlt|Hge]; [|lia].
    replace (Z.to_nat a + Z.to_nat (i - a))%nat with (Z.to_nat i) by lia. exact Hn.
Qed.

Lemma pyslice_slice {X} (l : list X) a b : 0 <= a -> a <= b -> b <= zlen l ->
  pyslice l a b = slice l a b.
Proof.
  intros Ha Hab Hb. unfold pyslice, norm_idx.
  destruct (Z.ltb_spec a 0) as [H1|H1]; [lia|].
  destruct (Z.ltb_spec b 0) as [H2|H2]; [lia|].
  rewrite !Z.min_r by lia. reflexivity.
Qed.

Lemma In_pyslice {X} (l : list X) a b x : 0 <= a -> a <= b ->
  (In x (pyslice l a b) <-> exists i, a <= i < b /\ nth_error l (Z.to_nat i) = Some x).
Proof.
  intros Ha Hab. unfold pyslice, norm_idx.
  destruct (Z.ltb_spec a 0) as [H1|H1]; [lia|].
  destruct (Z.ltb_spec b 0) as [H2|H2]; [lia|].
  pose proof (zlen_nonneg l) as Hn.
  rewrite In_slice by lia. split.
  - intros [i [Hi Hx]]. exists i. split; [lia | exact Hx].
  - intros [i [Hi Hx]]. exists i. split; [|exact Hx].
    assert (Hlt : (Z.to_nat i < List.length l)%nat).
    { apply nth_error_Some. rewrite Hx. discriminate. }
    unfold zlen in *. lia.
Qed.

Lemma slice_ext {X} (l1 l2 : list X) a b : 0 <= a ->
  (forall i, a <= i < b -> nth_error l1 (Z.to_nat i) = nth_error l2 (Z.to_nat i)) ->
  slice l1 a b = slice l2 a b.
Proof.
  intros Ha H. apply nth_error_ext. intro j. rewrite !nth_error_slice.
  destruct (Nat.ltb_spec j (Z.to_nat (b - a))) as [Hlt|Hge]; [|reflexivity].
  replace (Z.to_nat a + j)%nat with (Z.to_nat (a + Z.of_nat j)) by lia.
  apply H. lia.
Qed.

Lemma zlen_splice {X} (l v : list X) a b : 0 <= a -> a <= b -> b <= zlen l -> zlen v = b - a ->
  zlen (splice l a b v) = zlen l.
Proof.
  intros Ha Hab Hb Hv. unfold splice, zlen in *.
  rewrite !app_length, firstn_length, skipn_length, Z.max_r by lia. lia.
Qed.

Lemma nth_error_splice_out {X} (l v : list X) a b i :
  0 <= a -> a <= b -> b <= zlen l -> zlen v = b - a -> 0 <= i -> (i < a \/ b <= i) ->
  nth_error (splice l a b v) (Z.to_nat i) = nth_error l (Z.to_nat i).
Proof.
  intros Ha Hab Hb Hv Hi Hout. unfold splice. rewrite Z.max_r by lia.
  assert (Hlf : List.length (firstn (Z.to_nat a) l) = Z.to_nat a).
  { rewrite firstn_length. unfold zlen in *. lia. }
  destruct Hout as [Hlt|Hge].
  - rewrite nth_error_app1 by (rewrite Hlf; lia).
    apply nth_error_firstn_lt. lia.
  - rewrite nth_error_app2 by (rewrite Hlf; lia).
    rewrite nth_error_app2 by (rewrite Hlf; unfold zlen in *; lia).
    rewrite nth_error_skipn'. f_equal. rewrite Hlf. unfold zlen in *. lia.
Qed.

Lemma slice_splice_same {X} (l v : list X) a b :
  0 <= a -> a <= b -> b <= zlen l -> zlen v = b - a ->
  slice (splice l a b v) a b = v.
Proof.
  intros Ha Hab Hb Hv. unfold slice, splice.
  rewrite skipn_app_exact.
  - apply firstn_app_exact. unfold zlen in *. lia.
  - rewrite firstn_length. unfold zlen in *. lia.
Qed.

Lemma splice_slice_id {X} (l : list X) a b : 0 <= a -> a <= b ->
  splice l a b (slice l a b) = l.
Proof.
  intros Ha Hab. unfold splice, slice. rewrite Z.max_r by lia.
  replace (Z.to_nat b) with (Z.to_nat a + Z.to_nat (b - a))%nat by lia.
  rewrite <- skipn_skipn'. rewrite firstn_skipn. apply firstn_skipn.
Qed.

Lemma opt_nuc_dec : forall a b : option nuc, {a = b} + {a <> b}.
Proof. decide equality. decide equality. Qed.

(* ------------------------------------------------------------------ *)
(* sort_dna keeps membership                                            *)
(* ------------------------------------------------------------------ *)

Lemma In_insert_dna : forall x l v, In v (insert_dna x l) -> v = x \/ In v l.
Proof.
  intros x l v. induction l as [|y l IH]; simpl; intro H.
  - destruct H as [H|[]]. left. congruence.
  - destruct (seq_ltb y x).
    + destruct H as [H|H].
      * right. left. exact H.
      * destruct (IH H) as [H1|H1]; [left; exact H1 | right; right; exact H1].
    + destruct H as [H|H]; [left; congruence | right; exact H].
Qed.

Lemma In_sort_dna : forall l v, In v (sort_dna l) -> In v l.
Proof.
  induction l as [|x l IH]; simpl; intros v H.
  - exact H.
  - apply In_insert_dna in H. destruct H as [H|H]; [left; congruence | right; apply IH; exact H].
Qed.

(* ------------------------------------------------------------------ *)
(* in_space                                                             *)
(* ------------------------------------------------------------------ *)

Theorem in_space_member : forall ms t, in_space ms t = true <-> member ms t.
Proof.
  intros ms t. unfold in_space, member. rewrite forallb_forall, Forall_forall.
  split; intros H c Hc.
  - unfold holds. apply dmem_In. apply H. exact Hc.
  - apply dmem_In. apply (H c Hc).
Qed.

(* ------------------------------------------------------------------ *)
(* localized                                                            *)
(* ------------------------------------------------------------------ *)

(* localized(location) keeps exactly the choices whose segment meets [a, b) *)
Theorem localized_keeps_overlapping : forall ms a b c, wf_space ms -> 0 <= a -> a <= b ->
  (In c (choices_list (ms_localized ms a b)) <->
   In c (choices_list ms) /\ Z.max a (cstart c) < Z.min b (cend c)).
Proof.
  intros ms a b c Hwf Ha Hab.
  destruct Hwf as (W1 & W2 & W3 & W4).
  unfold choices_list at 1. unfold ms_localized. simpl.
  rewrite In_dedupe_None, in_app_iff, In_pyslice by assumption.
  split.
  - intros [H|H].
    + apply repeat_spec in H. discriminate.
    + destruct H as [i [Hi Hn]].
      destruct (W3 i c ltac:(lia) Hn) as [Hin Hseg].
      split; [exact Hin | lia].
  - intros [Hin Hov]. right.
    exists (Z.max a (cstart c)). split; [lia|].
    apply W4; [exact Hin | lia].
Qed.

(* ------------------------------------------------------------------ *)
(* space size                                                           *)
(* ------------------------------------------------------------------ *)

Lemma prod_ge_pow2 : forall l : list choice, (forall c, In c l -> 2 <= nvariants c) ->
  2 ^ (zlen l) <= fold_right Z.mul 1 (map nvariants l).
Proof.
  induction l as [|c l IH]; intros H.
  - simpl. unfold zlen. simpl. lia.
  - replace (zlen (c :: l)) with (Z.succ (zlen l)) by (unfold zlen; simpl List.length; lia).
    rewrite Z.pow_succ_r by apply zlen_nonneg.
    simpl map. simpl fold_right.
    assert (Hc : 2 <= nvariants c) by (apply H; left; reflexivity).
    assert (Hl : 2 ^ zlen l <= fold_right Z.mul 1 (map nvariants l)).
    { apply IH. intros c' Hc'. apply H. right. exact Hc'. }
    assert (Hp : 0 < 2 ^ zlen l) by (apply Z.pow_pos_nonneg; [lia | apply zlen_nonneg]).
    apply Z.mul_le_mono_nonneg; lia.
Qed.

Lemma multichoices_ge2 : forall ms c, In c (multichoices ms) -> 2 <= nvariants c.
Proof.
  intros ms c H. unfold multichoices in H. apply filter_In in H.
  destruct H as [_ H]. apply Z.leb_le in H. exact H.
Qed.

Theorem space_size_is_product : forall ms, multichoices ms <> [] ->
  space_size_exact ms = fold_right Z.mul 1 (map nvariants (multichoices ms))
  /\ 2 ^ (zlen (multichoices ms)) <= space_size_exact ms.
Proof.
  intros ms Hne.
  assert (Heq : space_size_exact ms = fold_right Z.mul 1 (map nvariants (multichoices ms))).
  { unfold space_size_exact. destruct (multichoices ms) as [|c l]; [contradiction | reflexivity]. }
  split; [exact Heq|]. rewrite Heq. apply prod_ge_pow2. apply multichoices_ge2.
Qed.

(* the frozen case: size 0 exactly when there is no multi-variant choice, i.e. exactly when
   choices_span is None (the solver relies on this before unpacking choices_span) *)
Theorem space_size_zero_iff_no_span : forall ms,
  (forall c, In c (choices_list ms) -> 0 <= nvariants c) ->
  (space_size_exact ms = 0 <-> choices_span ms = None).
Proof.
  intros ms _.
  destruct (multichoices ms) as [|c l] eqn:E.
  - unfold space_size_exact, choices_span. rewrite E. split; reflexivity.
  - assert (Hne : multichoices ms <> []) by (rewrite E; discriminate).
    destruct (space_size_is_product ms Hne) as [_ Hge].
    assert (Hp : 0 < 2 ^ zlen (multichoices ms))
      by (apply Z.pow_pos_nonneg; [lia | apply zlen_nonneg]).
    unfold choices_span. rewrite E. split; intro H; [lia | discriminate].
Qed.

(* ------------------------------------------------------------------ *)
(* constrain_sequence                                                   *)
(* ------------------------------------------------------------------ *)

(* one-step unfoldings of constrain_loop, by the shape of the variant list *)
Lemma loop_cons_nil : forall c cs orig cur r, cvariants c = [] ->
  constrain_loop (c :: cs) orig cur r = CUnsolvable (cstart c) (cend c).
Proof. intros c cs orig cur r H. simpl. rewrite H. reflexivity. Qed.

Lemma loop_cons_one : forall c cs orig cur r v, cvariants c = [v] ->
  constrain_loop (c :: cs) orig cur r =
  constrain_loop cs orig (splice cur (cstart c) (cend c) v) r.
Proof. intros c cs orig cur r v H. simpl. rewrite H. reflexivity. Qed.

Lemma loop_cons_many : forall c cs orig cur r v1 v2 vs, cvariants c = v1 :: v2 :: vs ->
  constrain_loop (c :: cs) orig cur r =
  if dmem (pyslice orig (cstart c) (cend c)) (v1 :: v2 :: vs) then constrain_loop cs orig cur r
  else match draw_int (zlen (v1 :: v2 :: vs)) r with
       | Some (k, r') =>
           match nth_error (sort_dna (v1 :: v2 :: vs)) (Z.to_nat k) with
           | Some v => constrain_loop cs orig (splice cur (cstart c) (cend c) v) r'
           | None => COutOfStream
           end
       | None => COutOfStream
       end.
Proof. intros c cs orig cur r v1 v2 vs H. simpl. rewrite H. reflexivity. Qed.

Lemma loop_spec : forall cs orig cur r s' r',
  Forall wf_choice cs ->
  StronglySorted (fun a b => cend a <= cstart b) cs ->
  (forall c, In c cs -> cend c <= zlen orig) ->
  zlen cur = zlen orig ->
  (forall c, In c cs -> forall i, cstart c <= i < cend c ->
     nth_error cur (Z.to_nat i) = nth_error orig (Z.to_nat i)) ->
  constrain_loop cs orig cur r = COk s' r' ->
  zlen s' = zlen orig /\
  (forall c, In c cs -> holds c s') /\
  (forall i, 0 <= i -> nth_error s' (Z.to_nat i) <> nth_error cur (Z.to_nat i) ->
     exists c, In c cs /\ cstart c <= i < cend c /\ ~ holds c orig).
Proof.
  induction cs as [|c cs IH]; intros orig cur r s' r' Hwf Hsort Hbnd Hlen Hagree Hloop.
  - simpl in Hloop. inversion Hloop; subst. split; [exact Hlen|]. split.
    + intros c [].
    + intros i _ Hne. exfalso. apply Hne. reflexivity.
  - inversion Hwf as [|c0 cs0 Hwc Hwfs]; subst.
    inversion Hsort as [|c0 cs0 Hsorts Hall]; subst.
    rewrite Forall_forall in Hall.
    destruct Hwc as (Hpos & Hnd & Hvl). rewrite Forall_forall in Hvl.
    assert (Hce : cend c <= zlen orig) by (apply Hbnd; left; reflexivity).
    assert (Hsl : slice cur (cstart c) (cend c) = slice orig (cstart c) (cend c)).
    { apply slice_ext; [lia|]. intros i Hi. apply (Hagree c); [left; reflexivity | exact Hi]. }
    assert (Hpy : pyslice orig (cstart c) (cend c) = slice orig (cstart c) (cend c)).
    { apply pyslice_slice; lia. }
    assert (Hstep : forall cur1 r1,
      zlen cur1 = zlen orig ->
      (forall i, 0 <= i -> (i < cstart c \/ cend c <= i) ->
         nth_error cur1 (Z.to_nat i) = nth_error cur (Z.to_nat i)) ->
      holds c cur1 ->
      (~ holds c orig \/ cur1 = cur) ->
      constrain_loop cs orig cur1 r1 = COk s' r' ->
      zlen s' = zlen orig /\
      (forall c', In c' (c :: cs) -> holds c' s') /\
      (forall i, 0 <= i -> nth_error s' (Z.to_nat i) <> nth_error cur (Z.to_nat i) ->
         exists c', In c' (c :: cs) /\ cstart c' <= i < cend c' /\ ~ holds c' orig)).
    { intros cur1 r1 Hlen1 Hout Hh1 Hch Hl1.
      assert (Hagree1 : forall c', In c' cs -> forall i, cstart c' <= i < cend c' ->
                nth_error cur1 (Z.to_nat i) = nth_error orig (Z.to_nat i)).
      { intros c' Hc' i Hi. pose proof (Hall c' Hc') as Hd.
        rewrite Hout by lia. apply (Hagree c'); [right; exact Hc' | exact Hi]. }
      destruct (IH orig cur1 r1 s' r' Hwfs Hsorts
                  (fun c' Hc' => Hbnd c' (or_intror Hc')) Hlen1 Hagree1 Hl1)
        as (A & B & C).
      split; [exact A|]. split.
      - intros c' [Hc'|Hc'].
        + subst c'. unfold holds in *.
          replace (slice s' (cstart c) (cend c)) with (slice cur1 (cstart c) (cend c)); [exact Hh1|].
          apply slice_ext; [lia|]. intros i Hi.
          destruct (opt_nuc_dec (nth_error s' (Z.to_nat i)) (nth_error cur1 (Z.to_nat i)))
            as [He|Hne]; [symmetry; exact He|].
          exfalso. destruct (C i ltac:(lia) Hne) as (c'' & Hin'' & Hseg'' & _).
          pose proof (Hall c'' Hin''). lia.
        + apply B. exact Hc'.
      - intros i Hi Hne.
        destruct (opt_nuc_dec (nth_error s' (Z.to_nat i)) (nth_error cur1 (Z.to_nat i)))
          as [He|Hne1].
        + exists c. split; [left; reflexivity|].
          assert (Hin : ~ (i < cstart c \/ cend c <= i)).
          { intro Ho. apply Hne. rewrite He. apply Hout; assumption. }
          split; [lia|].
          destruct Hch as [Hch|Hch]; [exact Hch|].
          exfalso. apply Hne. rewrite He, Hch. reflexivity.
        + destruct (C i Hi Hne1) as (c'' & Hin'' & Hseg'' & Hnh'').
          exists c''. split; [right; exact Hin''|]. split; assumption. }
    destruct (cvariants c) as [|v1 [|v2 vs]] eqn:Ev.
    + rewrite (loop_cons_nil _ _ _ _ _ Ev) in Hloop. discriminate.
    + (* single variant *)
      rewrite (loop_cons_one _ _ _ _ _ _ Ev) in Hloop.
      assert (Hv1 : zlen v1 = cend c - cstart c) by (apply Hvl; left; reflexivity).
      refine (Hstep _ _ _ _ _ _ Hloop).
      * rewrite zlen_splice by lia. exact Hlen.
      * intros i Hi Ho. apply nth_error_splice_out; lia.
      * unfold holds. rewrite slice_splice_same by lia. rewrite Ev. left. reflexivity.
      * destruct (dmem (slice orig (cstart c) (cend c)) (cvariants c)) eqn:D.
        -- right. apply dmem_In in D. rewrite Ev in D. destruct D as [D|[]].
           rewrite D, <- Hsl. apply splice_slice_id; lia.
        -- left. unfold holds. intro Hh. apply dmem_In in Hh. congruence.
    + (* several variants *)
      rewrite (loop_cons_many _ _ _ _ _ _ _ _ Ev), Hpy in Hloop.
      destruct (dmem (slice orig (cstart c) (cend c)) (v1 :: v2 :: vs)) eqn:D.
      * refine (Hstep _ _ Hlen _ _ _ Hloop).
        -- intros i _ _. reflexivity.
        -- unfold holds. rewrite Hsl, Ev. apply dmem_In. exact D.
        -- right. reflexivity.
      * destruct (draw_int (zlen (v1 :: v2 :: vs)) r) as [[k r1]|]; [|discriminate].
        destruct (nth_error (sort_dna (v1 :: v2 :: vs)) (Z.to_nat k)) as [v|] eqn:En;
          [|discriminate].
        assert (Hv : In v (cvariants c)).
        { rewrite Ev. apply In_sort_dna. eapply nth_error_In. exact En. }
        assert (Hvz : zlen v = cend c - cstart c) by (apply Hvl; rewrite <- Ev; exact Hv).
        refine (Hstep _ _ _ _ _ _ Hloop).
        -- rewrite zlen_splice by lia. exact Hlen.
        -- intros i Hi Ho. apply nth_error_splice_out; lia.
        -- unfold holds. rewrite slice_splice_same by lia. exact Hv.
        -- left. unfold holds. rewrite Ev. intro Hh. apply dmem_In in Hh. congruence.
Qed.

Lemma loop_idem : forall cs (l : dna) r,
  (forall c, In c cs -> holds c l /\ 0 <= cstart c /\ cstart c <= cend c /\ cend c <= zlen l) ->
  constrain_loop cs l l r = COk l r.
Proof.
  induction cs as [|c cs IH]; intros l r H.
  - reflexivity.
  - destruct (H c (or_introl eq_refl)) as (Hh & Hb0 & Hb1 & Hb2).
    assert (IH' : constrain_loop cs l l r = COk l r).
    { apply IH. intros c' Hc'. apply H. right. exact Hc'. }
    unfold holds in Hh.
    destruct (cvariants c) as [|v1 [|v2 vs]] eqn:Ev.
    + destruct Hh.
    + rewrite (loop_cons_one _ _ _ _ _ _ Ev).
      destruct Hh as [Hh|[]]. rewrite Hh, splice_slice_id by lia. exact IH'.
    + rewrite (loop_cons_many _ _ _ _ _ _ _ _ Ev).
      rewrite (pyslice_slice l (cstart c) (cend c)) by lia.
      apply dmem_In in Hh. rewrite Hh. exact IH'.
Qed.

(* constrain_sequence: result is in the space, touches only the segments of choices that did not
   already hold, and a second call changes nothing and draws nothing *)
Theorem constrain_sequence_spec : forall ms s r s' r',
  wf_choices ms -> (forall c, In c (choices_list ms) -> cend c <= zlen s) ->
  constrain_sequence ms s r = COk s' r' ->
  member ms s' /\ zlen s' = zlen s /\
  (forall i, 0 <= i -> nth_error s' (Z.to_nat i) <> nth_error s (Z.to_nat i) ->
     exists c, In c (choices_list ms) /\ cstart c <= i < cend c /\ ~ holds c s) /\
  (forall r2, constrain_sequence ms s' r2 = COk s' r2).
Proof.
  intros ms s r s' r' Hwf Hbnd Hrun.
  destruct Hwf as (W1 & W2).
  unfold constrain_sequence in *.
  destruct (loop_spec (choices_list ms) s s r s' r' W1 W2 Hbnd eq_refl
              (fun _ _ _ _ => eq_refl) Hrun) as (A & B & C).
  split; [|split; [|split]].
  - unfold member. apply Forall_forall. exact B.
  - exact A.
  - exact C.
  - intro r2. apply loop_idem. intros c Hc.
    rewrite Forall_forall in W1. destruct (W1 c Hc) as (Hpos & _ & _).
    pose proof (Hbnd c Hc) as Hb.
    split; [apply B; exact Hc | lia].
Qed.

Lemma loop_unsolvable_exact : forall cs orig cur r,
  (exists c, In c cs /\ cvariants c = []) ->
  (exists a b, constrain_loop cs orig cur r = CUnsolvable a b) \/
  constrain_loop cs orig cur r = COutOfStream.
Proof.
  induction cs as [|c0 cs IH]; intros orig cur r [c [Hin Hc]].
  - destruct Hin.
  - destruct (cvariants c0) as [|v1 [|v2 vs]] eqn:Ev.
    + left. exists (cstart c0), (cend c0). apply loop_cons_nil. exact Ev.
    + rewrite (loop_cons_one _ _ _ _ _ _ Ev). apply IH. exists c. split; [|exact Hc].
      destruct Hin as [Hin|Hin]; [subst c0; congruence | exact Hin].
    + assert (Hex : exists c, In c cs /\ cvariants c = []).
      { exists c. split; [|exact Hc].
        destruct Hin as [Hin|Hin]; [subst c0; congruence | exact Hin]. }
      rewrite (loop_cons_many _ _ _ _ _ _ _ _ Ev).
      destruct (dmem (pyslice orig (cstart c0) (cend c0)) (v1 :: v2 :: vs)).
      * apply IH. exact Hex.
      * destruct (draw_int (zlen (v1 :: v2 :: vs)) r) as [[k r1]|]; [|right; reflexivity].
        destruct (nth_error (sort_dna (v1 :: v2 :: vs)) (Z.to_nat k)) as [v|];
          [|right; reflexivity].
        apply IH. exact Hex.
Qed.

(* unsolvable is raised exactly when some choice has no variant, whatever the stream *)
Theorem constrain_unsolvable_exact : forall ms s r,
  (exists c, In c (choices_list ms) /\ cvariants c = []) ->
  (exists a b, constrain_sequence ms s r = CUnsolvable a b) \/ constrain_sequence ms s r = COutOfStream.
Proof.
  intros ms s r H. unfold constrain_sequence. apply loop_unsolvable_exact. exact H.
Qed.

Lemma loop_no_unsolvable : forall cs orig cur r a b,
  constrain_loop cs orig cur r = CUnsolvable a b ->
  exists c, In c cs /\ cvariants c = [] /\ cstart c = a /\ cend c = b.
Proof.
  induction cs as [|c0 cs IH]; intros orig cur r a b H.
  - discriminate.
  - assert (Hlift : (exists c, In c cs /\ cvariants c = [] /\ cstart c = a /\ cend c = b) ->
                    exists c, In c (c0 :: cs) /\ cvariants c = [] /\ cstart c = a /\ cend c = b).
    { intros [c [Hin Hrest]]. exists c. split; [right; exact Hin | exact Hrest]. }
    destruct (cvariants c0) as [|v1 [|v2 vs]] eqn:Ev.
    + rewrite (loop_cons_nil _ _ _ _ _ Ev) in H.
      inversion H; subst. exists c0. split; [left; reflexivity|]. auto.
    + rewrite (loop_cons_one _ _ _ _ _ _ Ev) in H. apply Hlift. eapply IH. exact H.
    + rewrite (loop_cons_many _ _ _ _ _ _ _ _ Ev) in H.
      destruct (dmem (pyslice orig (cstart c0) (cend c0)) (v1 :: v2 :: vs)).
      * apply Hlift. eapply IH. exact H.
      * destruct (draw_int (zlen (v1 :: v2 :: vs)) r) as [[k r1]|]; [|discriminate].
        destruct (nth_error (sort_dna (v1 :: v2 :: vs)) (Z.to_nat k)) as [v|]; [|discriminate].
        apply Hlift. eapply IH. exact H.
Qed.

Theorem constrain_no_unsolvable : forall ms s r a b,
  constrain_sequence ms s r = CUnsolvable a b ->
  exists c, In c (choices_list ms) /\ cvariants c = [] /\ cstart c = a /\ cend c = b.
Proof.
  intros ms s r a b H. unfold constrain_sequence in H. eapply loop_no_unsolvable. exact H.
Qed.
