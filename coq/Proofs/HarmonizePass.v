(* C08 for HarmonizeRCA: the pass law follows from the C09 law and score <= 0. *)
From Coq Require Import ZArith QArith Bool List Lia.
From DC Require Import Model.Base Model.Loc Model.Bio Model.Pattern Model.MSpace Model.Specs
                       Proofs.SpecsDefs Proofs.SpecsLocalA Proofs.SpecsLocalC.
Import ListNotations.
Open Scope Z_scope.

Theorem harmonize_pass : forall r ro syn orig l w s s',
  wf_spec (SHarmonizeRCA r ro syn orig l) (zlen s) -> window_in w (zlen s) -> agree_outside w s s' ->
  local_pass_law (SHarmonizeRCA r ro syn orig l) w s s'.
Proof.
  intros r ro syn orig l w s s' Hwf Hw Ha.
  apply pass_from_delta.
  - apply harmonize_laws; assumption.
  - intros sp' e0 Hloc He.
    unfold localized in Hloc. cbn [localized_raw] in Hloc.
    destruct (codon_window l w) as [[[nl sc] ec]|]; [|discriminate].
    injection Hloc as <-. cbn [evaluate] in He.
    eapply harmonize_nonpos; exact He.
Qed.
