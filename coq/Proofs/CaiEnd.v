(* C07, end to end for MaximizeCAI (model of the built-in class) on the forward strand: optimize() on
   a problem whose only objective is MaximizeCAI, next to constraints whose local copies are skipped
   as enforced by nucleotide restrictions (EnforceTranslation), ends with EVERY codon a most-frequent
   synonym - provided the local mutation space of each reported block of sub-optimal codons can be
   searched exhaustively and contains the per-codon optimum (the mutation-space side; for the
   synonymous-codon space of EnforceTranslation this is C07(i) + C04).

   Proof: instance of Proofs/SolverE.v (optimize_closes_initially_open_gaps).  Codon starts are 3 apart,
   so group_nearby_indices with spread 3 (x - first < 3) never merges two of them: every reported
   block is ONE codon, mkLoc (lstart l + 3i) (lstart l + 3i + 3) 0 (reported_locations_are_single_codons),
   or l itself for a one-codon gene.  units = these codon locations (cai_units), gap of a unit = minus
   the gap of the codon it covers (ugap); the localization of MaximizeCAI to the span (a,b) of the
   local space of a block is MaximizeCAI on that codon (codon_window_in_codon) and scores exactly the
   unit's gap. *)
From Coq Require Import ZArith QArith Bool List Lia Lqa Sorting.Sorted.
From DC Require Import Model.Base Model.Loc Model.Bio Model.Pattern Model.MSpace Model.Specs Model.Solver
                       Proofs.MSpaceDefs Proofs.SpecsDefs Proofs.SpecsCodon
                       Proofs.SolverA Proofs.SolverB Proofs.SolverC Proofs.SolverE Proofs.Builtins.
Import ListNotations.
Open Scope Z_scope.

(* codon i of the coding region l of sequence t is a most-frequent synonym *)
Definition codon_best (lf lb : list (dna * Q)) (l : loc) (t : dna) (i : Z) : Prop :=
  exists f b, qassoc (codon_of l t i) lf = Some f /\ qassoc (codon_of l t i) lb = Some b /\ (f == b)%Q.

(* the mutation-space side, for one reported block B at a good sequence s *)
Definition block_searchable (space : mspace) (n : Z) (cfg : settings) (lf lb : list (dna * Q)) (l B : loc) (s : dna) : Prop :=
  let lspace := ms_localized space (lstart B) (lend B) in
  space_size_exact lspace <> 0 /\
  space_size_exact lspace < st_threshold cfg /\
  exists a b vs,
    choices_span lspace = Some (a, b) /\ lstart B <= a /\ b <= lend B /\
    all_variants lspace s = Some vs /\
    exists t, In t vs /\
      forall i, 0 <= i < loc_len l / 3 ->
        lstart B <= lstart (codon_loc l i) -> lend (codon_loc l i) <= lend B -> codon_best lf lb l t i.


(* ================================================================== grouping with spread 3 *)
(* codon starts are at least 3 apart, so grouping them with spread < 3 gives singletons: every
   reported location is ONE codon *)
Definition far3 (a b : Z) : Prop := a + 3 <= b.

Lemma sort_z_far3 : forall l, StronglySorted far3 l -> sort_z l = l.
Proof.
  induction l as [|x l IH]; intro H; [reflexivity|].
  inversion H as [|x0 l0 Hs Hf]; subst. unfold sort_z in *. cbn [fold_right]. rewrite (IH Hs).
  destruct l as [|y r]; [reflexivity|]. cbn [insert_z].
  inversion Hf as [|y0 r0 Hy _]; subst. unfold far3 in Hy.
  destruct (Z.ltb_spec y x); [lia | reflexivity].
Qed.

Lemma group_from_far3 : forall rest x, StronglySorted far3 (x :: rest) ->
  group_from x x [x] rest None (Some 3) = map (fun y => [y]) (x :: rest).
Proof.
  induction rest as [|y rest IH]; intros x H; [reflexivity|].
  inversion H as [|x0 l0 Hs Hf]; subst. inversion Hf as [|y0 r0 Hy _]; subst. unfold far3 in Hy.
  cbn [group_from opt_lt andb]. destruct (Z.ltb_spec (y - x) 3); [lia|].
  rewrite (IH y Hs). reflexivity.
Qed.

Lemma group_nearby_far3 : forall l, StronglySorted far3 l ->
  group_nearby_indices l None (Some 3) = map (fun y => [y]) l.
Proof.
  intros l H. unfold group_nearby_indices. rewrite (sort_z_far3 l H).
  destruct l as [|x rest]; [reflexivity | apply group_from_far3; exact H].
Qed.

Lemma indices_where_ge : forall {X} (f : X -> bool) xs j, Forall (fun i => j <= i) (indices_where f xs j).
Proof.
  intros X f xs. induction xs as [|x xs IH]; intro j; cbn [indices_where]; [constructor|].
  assert (H : Forall (fun i => j <= i) (indices_where f xs (j + 1))).
  { eapply Forall_impl; [|apply IH]. intros; cbv beta in *; lia. }
  destruct (f x); [constructor; [lia | exact H] | exact H].
Qed.

Lemma indices_where_far3 : forall {X} (f : X -> bool) a xs j,
  StronglySorted far3 (map (fun i => a + 3 * i) (indices_where f xs j)).
Proof.
  intros X f a xs. induction xs as [|x xs IH]; intro j; cbn [indices_where]; [constructor|].
  destruct (f x); [|apply IH]. cbn [map]. constructor; [apply IH|].
  apply Forall_map. eapply Forall_impl; [|apply (indices_where_ge f xs (j + 1))].
  intros i Hi. cbv beta in *. unfold far3. lia.
Qed.

(* the location of codon i as reported by codons_indices_to_locations (strand 0) *)
Definition cunit (l : loc) (i : Z) : loc := mkLoc (lstart l + 3 * i) (lstart l + 3 * i + 3) 0.

Lemma reported_locations_are_single_codons : forall {X} (f : X -> bool) l xs j, lstrand l = 1 ->
  codons_indices_to_locations l (indices_where f xs j) = map (cunit l) (indices_where f xs j).
Proof.
  intros X f l xs j Hs. unfold codons_indices_to_locations. rewrite Hs. change (1 =? -1) with false. cbv iota.
  rewrite (group_nearby_far3 _ (indices_where_far3 f (lstart l) xs j)).
  rewrite !map_map. apply map_ext. intro i. reflexivity.
Qed.

Lemma indices_where_map_zrange : forall {X} (q : X -> bool) (h : Z -> X) m a,
  indices_where q (map h (zrange a (a + Z.of_nat m))) a = filter (fun i => q (h i)) (zrange a (a + Z.of_nat m)).
Proof.
  intros X q h m. induction m as [|m IH]; intro a.
  - rewrite zrange_nil by lia. reflexivity.
  - rewrite zrange_cons' by lia. cbn [map indices_where filter].
    replace (a + Z.of_nat (S m)) with ((a + 1) + Z.of_nat m) by lia. rewrite IH. reflexivity.
Qed.

Lemma filter_map_comm : forall {X Y} (F : X -> Y) (P : Y -> bool) (Q : X -> bool) zs,
  (forall i, In i zs -> P (F i) = Q i) -> map F (filter Q zs) = filter P (map F zs).
Proof.
  intros X Y F P Q zs. induction zs as [|z zs IH]; intro H; [reflexivity|].
  cbn [map filter]. rewrite (H z (or_introl eq_refl)).
  rewrite <- IH by (intros i Hi; apply H; right; exact Hi).
  destruct (Q z); reflexivity.
Qed.


(* ================================================================== codon gaps *)
Definition cgap (lf lb : list (dna * Q)) (c : dna) : Q :=
  match qassoc c lf, qassoc c lb with Some f, Some b => (b - f)%Q | _, _ => 0%Q end.
(* the gap of a one-codon unit: minus the codon gap of the nucleotides it covers (forward strand) *)
Definition ugap (lf lb : list (dna * Q)) (u : loc) (t : dna) : Q :=
  (- cgap lf lb (extract (mkLoc (lstart u) (lend u) 1) t))%Q.
Definition cai_units (l : loc) : list loc :=
  if loc_len l / 3 =? 1 then [l] else map (cunit l) (zrange 0 (loc_len l / 3)).

Section CAI.
  Variables lf lb : list (dna * Q).
  Hypothesis tot_f : table_total lf.
  Hypothesis tot_b : table_total lb.
  Hypothesis f_le_b : forall c f b, qassoc c lf = Some f -> qassoc c lb = Some b -> (f <= b)%Q.

  Lemma cgap_nonneg : forall c, (0 <= cgap lf lb c)%Q.
  Proof.
    intro c. unfold cgap. destruct (qassoc c lf) as [f|] eqn:E1; [|lra].
    destruct (qassoc c lb) as [b|] eqn:E2; [|lra]. pose proof (f_le_b c f b E1 E2). lra.
  Qed.

  Lemma ugap_nonpos : forall u t, (ugap lf lb u t <= 0)%Q.
  Proof. intros u t. unfold ugap. pose proof (cgap_nonneg (extract (mkLoc (lstart u) (lend u) 1) t)). lra. Qed.

  Lemma codon_loc_fwd : forall l i, lstrand l = 1 ->
    codon_loc l i = mkLoc (lstart l + 3 * i) (lstart l + 3 * (i + 1)) 1.
  Proof. intros l i H. unfold codon_loc. rewrite H. reflexivity. Qed.

  Lemma ugap_cunit : forall l t i, lstrand l = 1 ->
    ugap lf lb (cunit l i) t = (- cgap lf lb (codon_of l t i))%Q.
  Proof.
    clear tot_f tot_b f_le_b. intros l t i H. unfold ugap, codon_of, cunit. cbn [lstart lend]. rewrite (codon_loc_fwd l i H).
    replace (lstart l + 3 * i + 3) with (lstart l + 3 * (i + 1)) by lia. reflexivity.
  Qed.

  (* a unit covering codon i has the gap of codon i *)
  Lemma ugap_codon : forall l u t i, lstrand l = 1 ->
    lstart u = lstart l + 3 * i -> lend u = lstart l + 3 * i + 3 ->
    ugap lf lb u t = (- cgap lf lb (codon_of l t i))%Q.
  Proof.
    intros l u t i H H1 H2. rewrite <- (ugap_cunit l t i H). unfold ugap, cunit. cbn [lstart lend].
    rewrite H1, H2. reflexivity.
  Qed.

  Lemma codon_three : forall l t k i, loc_in l (zlen t) -> loc_len l = 3 * k -> lstrand l = 1 ->
    0 <= i < k -> exists a b c, codon_of l t i = [a; b; c].
  Proof.
    clear tot_f tot_b f_le_b. intros l t k i (H0 & H1 & H2 & _) Hlen Hs Hi. unfold loc_len in Hlen.
    unfold codon_of. rewrite (codon_loc_fwd l i Hs). unfold extract. cbn [lstart lend lstrand].
    change (1 =? -1) with false. cbv iota.
    rewrite MSpaceA.pyslice_slice by lia.
    remember (slice t (lstart l + 3 * i) (lstart l + 3 * (i + 1))) as c eqn:Ec.
    assert (Hl : List.length c = 3%nat).
    { subst c. unfold slice. rewrite firstn_length, skipn_length. unfold zlen in H2. lia. }
    destruct c as [|x [|y [|z [|w c]]]]; cbn [List.length] in Hl; try lia.
    exists x, y, z. reflexivity.
  Qed.

  Lemma codon_entries : forall l t k i, loc_in l (zlen t) -> loc_len l = 3 * k -> lstrand l = 1 ->
    0 <= i < k ->
    exists f b, qassoc (codon_of l t i) lf = Some f /\ qassoc (codon_of l t i) lb = Some b /\
                (cgap lf lb (codon_of l t i) == b - f)%Q.
  Proof.
    intros l t k i Hl Hlen Hs Hi. destruct (codon_three l t k i Hl Hlen Hs Hi) as (a & b & c & E).
    destruct (tot_f a b c) as [f Hf]. destruct (tot_b a b c) as [bb Hb].
    exists f, bb. unfold cgap. rewrite E, Hf, Hb. split; [reflexivity|]. split; reflexivity.
  Qed.

  Lemma mapM_cgap : forall l t k zs, loc_in l (zlen t) -> loc_len l = 3 * k -> lstrand l = 1 ->
    (forall i, In i zs -> 0 <= i < k) ->
    mapM (fun c => match qassoc c lf, qassoc c lb with
                   | Some f, Some b => Some (b - f)%Q | _, _ => None end) (map (codon_of l t) zs)
    = Some (map (cgap lf lb) (map (codon_of l t) zs)).
  Proof.
    intros l t k zs Hl Hlen Hs. induction zs as [|z zs IH]; intro H; [reflexivity|].
    cbn [map mapM]. rewrite IH by (intros i Hi; apply H; right; exact Hi).
    destruct (codon_entries l t k z Hl Hlen Hs (H z (or_introl eq_refl))) as (f & b & Hf & Hb & _).
    unfold cgap. rewrite Hf, Hb. reflexivity.
  Qed.

  (* the evaluation of MaximizeCAI, computed *)
  Lemma cai_evaluate : forall l t k, loc_in l (zlen t) -> loc_len l = 3 * k -> 0 <= k -> lstrand l = 1 ->
    Specs.evaluate (SMaximizeCAI lf lb l) t =
    let nonopt := map (cgap lf lb) (map (codon_of l t) (zrange 0 k)) in
    match nonopt with
    | [d] => Some (mkEv (- d)%Q (Some (if Qeq_bool d 0 then [] else [l])))
    | _ => Some (mkEv (- qsum nonopt)%Q
                  (Some (codons_indices_to_locations l
                           (indices_where (fun d => negb (Qeq_bool d 0)) nonopt 0))))
    end.
  Proof.
    intros l t k Hl Hlen Hk Hs. cbn [Specs.evaluate]. unfold eval_maximize_cai, get_codons.
    assert (Hz : zlen (extract l t) = 3 * k).
    { destruct Hl as (H0 & H1 & H2 & _). unfold loc_len in Hlen.
      rewrite SpecsLocalC.extract_sub by lia. unfold zlen. rewrite SpecsLocalC.sub_length; [lia|].
      unfold zlen in H2. lia. }
    rewrite Hz. replace ((3 * k) mod 3) with 0 by (symmetry; rewrite (Z.mul_comm 3 k); apply Z.mod_mul; lia).
    change (0 =? 0) with true. cbv iota.
    rewrite (codons_extract l t k Hl Hlen Hk).
    rewrite (mapM_cgap l t k (zrange 0 k) Hl Hlen Hs) by (intros i Hi; apply zrange_In in Hi; exact Hi).
    reflexivity.
  Qed.

  Lemma qsum_units : forall l t zs, lstrand l = 1 ->
    (fold_right (fun u acc => (ugap lf lb u t + acc)%Q) 0%Q (map (cunit l) zs) ==
     - qsum (map (cgap lf lb) (map (codon_of l t) zs)))%Q.
  Proof.
    intros l t zs Hs. induction zs as [|z zs IH]; cbn [map fold_right].
    - unfold qsum. cbn [fold_right]. lra.
    - change (qsum (cgap lf lb (codon_of l t z) :: map (cgap lf lb) (map (codon_of l t) zs)))
        with (cgap lf lb (codon_of l t z) + qsum (map (cgap lf lb) (map (codon_of l t) zs)))%Q.
      rewrite IH, (ugap_cunit l t z Hs). lra.
  Qed.

  Lemma negative_unit : forall l t i, lstrand l = 1 ->
    negative (ugap lf lb) (cunit l i) t = negb (Qeq_bool (cgap lf lb (codon_of l t i)) 0).
  Proof.
    intros l t i Hs. unfold negative. rewrite (ugap_cunit l t i Hs). f_equal.
    pose proof (cgap_nonneg (codon_of l t i)) as Hn.
    destruct (Qle_bool 0 (- cgap lf lb (codon_of l t i))) eqn:E1;
      destruct (Qeq_bool (cgap lf lb (codon_of l t i)) 0) eqn:E2; try reflexivity; exfalso.
    - apply Qle_bool_iff in E1. assert (H : (cgap lf lb (codon_of l t i) == 0)%Q) by lra.
      apply Qeq_bool_iff in H. congruence.
    - apply Qeq_bool_iff in E2. assert (H : (0 <= - cgap lf lb (codon_of l t i))%Q) by lra.
      apply Qle_bool_iff in H. congruence.
  Qed.

  (* score and reported locations in the form SolverE wants them *)
  Lemma cai_score_locs : forall l t k, loc_in l (zlen t) -> loc_len l = 3 * k -> 0 <= k -> lstrand l = 1 ->
    exists e, Specs.evaluate (SMaximizeCAI lf lb l) t = Some e /\
      (score e == qsum_gaps (cai_units l) (ugap lf lb) t)%Q /\
      locs e = Some (filter (fun u => negative (ugap lf lb) u t) (cai_units l)).
  Proof.
    intros l t k Hl Hlen Hk Hs. rewrite (cai_evaluate l t k Hl Hlen Hk Hs). cbv zeta.
    unfold cai_units, qsum_gaps. rewrite Hlen. replace (3 * k / 3) with k by (symmetry; rewrite (Z.mul_comm 3 k); apply Z.div_mul; lia).
    destruct (Z.eqb_spec k 1) as [E|E].
    - subst k. change (zrange 0 1) with [0]. cbn [map]. eexists. split; [reflexivity|]. cbn [score locs fold_right filter].
      assert (Hu : ugap lf lb l t = (- cgap lf lb (codon_of l t 0))%Q).
      { apply ugap_codon; [exact Hs | lia | unfold loc_len in Hlen; lia]. }
      split; [rewrite Hu; lra|].
      unfold negative. rewrite Hu. f_equal.
      pose proof (negative_unit l t 0 Hs) as Hn. unfold negative in Hn. rewrite (ugap_cunit l t 0 Hs) in Hn.
      rewrite Hn. destruct (Qeq_bool (cgap lf lb (codon_of l t 0)) 0); reflexivity.
    - assert (Hlen1 : List.length (map (cgap lf lb) (map (codon_of l t) (zrange 0 k))) <> 1%nat).
      { rewrite !map_length, zrange_length. lia. }
      assert (Hgoal : exists e,
                Some (mkEv (- qsum (map (cgap lf lb) (map (codon_of l t) (zrange 0 k))))%Q
                  (Some (codons_indices_to_locations l
                           (indices_where (fun d => negb (Qeq_bool d 0))
                              (map (cgap lf lb) (map (codon_of l t) (zrange 0 k))) 0)))) = Some e /\
                (score e == fold_right (fun u acc => (ugap lf lb u t + acc)%Q) 0%Q (map (cunit l) (zrange 0 k)))%Q /\
                locs e = Some (filter (fun u => negative (ugap lf lb) u t) (map (cunit l) (zrange 0 k)))).
      { eexists. split; [reflexivity|]. cbn [score locs]. split.
        - rewrite (qsum_units l t (zrange 0 k) Hs). reflexivity.
        - f_equal. rewrite (reported_locations_are_single_codons _ l _ 0 Hs).
          rewrite map_map.
          pose proof (indices_where_map_zrange (fun d => negb (Qeq_bool d 0))
                        (fun x => cgap lf lb (codon_of l t x)) (Z.to_nat k) 0) as HI.
          replace (0 + Z.of_nat (Z.to_nat k)) with k in HI by lia. rewrite HI.
          apply filter_map_comm. intros i _. apply negative_unit. exact Hs. }
      destruct (map (cgap lf lb) (map (codon_of l t) (zrange 0 k))) as [|d [|d2 r]];
        [exact Hgoal | cbn [List.length] in Hlen1; lia | exact Hgoal].
  Qed.

End CAI.


(* ================================================================== the units *)
Lemma nth_zrange : forall m a j x, nth_error (zrange a (a + Z.of_nat m)) j = Some x ->
  x = a + Z.of_nat j /\ (j < m)%nat.
Proof.
  induction m as [|m IH]; intros a j x H.
  - rewrite zrange_nil in H by lia. destruct j; discriminate.
  - rewrite zrange_cons' in H by lia. destruct j as [|j]; cbn [nth_error] in H.
    + inversion H; subst. split; lia.
    + replace (a + Z.of_nat (S m)) with ((a + 1) + Z.of_nat m) in H by lia.
      apply IH in H. lia.
Qed.

Lemma zrange_In_conv : forall a b i, a <= i < b -> In i (zrange a b).
Proof.
  intros a b i H. unfold zrange. apply in_map_iff. exists (Z.to_nat (i - a)). split; [lia|].
  apply in_seq. lia.
Qed.

Lemma cai_units_nth : forall l k j u, loc_len l = 3 * k -> 0 <= k ->
  nth_error (cai_units l) j = Some u ->
  Z.of_nat j < k /\ lstart u = lstart l + 3 * Z.of_nat j /\ lend u = lstart l + 3 * Z.of_nat j + 3.
Proof.
  intros l k j u Hlen Hk H. unfold cai_units in H. rewrite Hlen in H.
  replace (3 * k / 3) with k in H by (symmetry; rewrite (Z.mul_comm 3 k); apply Z.div_mul; lia).
  destruct (Z.eqb_spec k 1) as [E|E].
  - destruct j as [|j]; cbn [nth_error] in H; [|destruct j; discriminate].
    inversion H; subst u. unfold loc_len in Hlen. cbn [Z.of_nat]. lia.
  - rewrite nth_error_map in H. destruct (nth_error (zrange 0 k) j) as [x|] eqn:Ex; [|discriminate].
    cbn [option_map] in H. inversion H; subst u.
    replace k with (0 + Z.of_nat (Z.to_nat k)) in Ex by lia. apply nth_zrange in Ex.
    destruct Ex as [Ex Hj]. subst x. unfold cunit. cbn [lstart lend]. lia.
Qed.

Lemma cai_units_In : forall l k u, loc_len l = 3 * k -> 0 <= k -> In u (cai_units l) ->
  exists i, 0 <= i < k /\ lstart u = lstart l + 3 * i /\ lend u = lstart l + 3 * i + 3.
Proof.
  intros l k u Hlen Hk H. apply In_nth_error in H. destruct H as [j Hj].
  destruct (cai_units_nth l k j u Hlen Hk Hj) as (H1 & H2 & H3).
  exists (Z.of_nat j). split; [lia|]. split; assumption.
Qed.

Lemma cai_units_has : forall l k i, loc_len l = 3 * k -> 0 <= i < k ->
  exists u, In u (cai_units l) /\ lstart u = lstart l + 3 * i /\ lend u = lstart l + 3 * i + 3.
Proof.
  intros l k i Hlen Hi. unfold cai_units. rewrite Hlen.
  replace (3 * k / 3) with k by (symmetry; rewrite (Z.mul_comm 3 k); apply Z.div_mul; lia).
  destruct (Z.eqb_spec k 1) as [E|E].
  - exists l. split; [left; reflexivity|]. unfold loc_len in Hlen. lia.
  - exists (cunit l i). split; [|split; reflexivity].
    apply in_map. apply zrange_In_conv. exact Hi.
Qed.

(* ================================================================== localization to one codon *)
Lemma codon_window_in_codon : forall l k i a b, loc_len l = 3 * k -> lstrand l = 1 -> 0 <= i < k ->
  lstart l + 3 * i <= a -> a < b -> b <= lstart l + 3 * i + 3 ->
  codon_window l (mkLoc a b 0) = Some (mkLoc (lstart l + 3 * i) (lstart l + 3 * i + 3) 1, i, i + 1).
Proof.
  intros l k i a b Hlen Hs Hi Ha Hab Hb. unfold loc_len in Hlen.
  unfold codon_window, overlap_region. cbn [lstart lend lstrand].
  destruct (Z.ltb_spec a (lstart l)) as [H|_]; [lia|].
  rewrite Z.geb_leb. destruct (Z.leb_spec (lend l) a) as [H|_]; [lia|].
  cbn [lstart lend lstrand]. rewrite Hs. change (negb (1 =? -1)) with true. cbv iota.
  rewrite (Z.min_r (lend l) b) by lia.
  assert (Hsc : Z.quot (a - lstart l) 3 = i).
  { rewrite Z.quot_div_nonneg by lia. symmetry. apply (Z.div_unique _ 3 i (a - lstart l - 3 * i)); lia. }
  assert (Hec : Z.quot (b - lstart l - 1) 3 = i).
  { rewrite Z.quot_div_nonneg by lia. symmetry. apply (Z.div_unique _ 3 i (b - lstart l - 1 - 3 * i)); lia. }
  replace (lend l <=? a) with false by (symmetry; apply Z.leb_gt; lia). cbn [lstart lend].
  rewrite Hsc, Hec. rewrite Z.min_r by lia. f_equal. f_equal. f_equal. f_equal. lia.
Qed.

(* the strong form: moreover nothing changes outside the coding region *)
Theorem cai_optimize_reaches_every_codon_best_outside_partial :
  forall (lf lb : list (dna * Q)) (l : loc) (space : mspace) (n : Z) (cfg : settings) (cs : list spec)
         (enforced passive : spec -> bool) st o st',
    wf_space space -> (forall c, In c (choices_list space) -> cend c <= n) ->
    wf_spec (SMaximizeCAI lf lb l) n -> lstrand l = 1 ->
    (forall c f b, qassoc c lf = Some f -> qassoc c lb = Some b -> (f <= b)%Q) ->
    (forall c w s, In c cs ->
       match Specs.localized c w true s with
       | LSome c' => enforced c' = true
       | LNone => True
       | LError => False
       end) ->
    passive (SMaximizeCAI lf lb l) = false ->
    state_good spec space n st ->
    (forall e B s, Specs.evaluate (SMaximizeCAI lf lb l) (cur _ st) = Some e ->
       In B (match locs e with Some ls => ls | None => [] end) -> good space n s ->
       block_searchable space n cfg lf lb l B s) ->
    optimize spec b_ev Specs.localized b_reinit enforced (fun _ => Some 0%Q) b_boost passive (fun _ => None)
             cfg space cs [SMaximizeCAI lf lb l] st = (o, st') ->
    o = ODone /\ good space n (cur _ st') /\
    (forall i, 0 <= i < loc_len l / 3 -> codon_best lf lb l (cur _ st') i) /\
    (forall i, 0 <= i -> ~ (lstart l <= i < lend l) ->
       nth_error (cur _ st') (Z.to_nat i) = nth_error (cur _ st) (Z.to_nat i)).
Proof.
  intros lf lb l space n cfg cs enforced passive st o st' Hwf Hfit Hspec Hs Hfb Hcs Hpas Hst Hblock Hopt.
  cbn [wf_spec] in Hspec. destruct Hspec as (Hl & Hmod & Htf & Htb).
  remember (loc_len l / 3) as k eqn:Ek.
  assert (Hlen : loc_len l = 3 * k) by (pose proof (Z.div_mod (loc_len l) 3); lia).
  assert (Hk : 0 <= k) by (destruct Hl as (? & ? & ? & ?); unfold loc_len in Hlen; lia).
  set (obj := SMaximizeCAI lf lb l) in *.
  assert (Hev : forall s, good space n s -> exists e, Specs.evaluate obj s = Some e /\
            (score e == qsum_gaps (cai_units l) (ugap lf lb) s)%Q /\
            locs e = Some (filter (fun u => negative (ugap lf lb) u s) (cai_units l))).
  { intros s [Hn _]. apply (cai_score_locs lf lb Htf Htb Hfb l s k); try assumption. rewrite Hn. exact Hl. }
  (* the hypotheses of SolverE *)
  assert (H1 : forall u s, (ugap lf lb u s <= 0)%Q) by (apply ugap_nonpos; exact Hfb).
  assert (H2 : forall s, good space n s -> (fst (b_ev obj s) == qsum_gaps (cai_units l) (ugap lf lb) s)%Q).
  { intros s Hg. destruct (Hev s Hg) as (e & He & Hsc & _). unfold b_ev. rewrite He. exact Hsc. }
  assert (H3 : (0 < b_boost obj)%Q) by (unfold b_boost; lra).
  assert (H4 : forall u, In u (cai_units l) -> 0 <= lstart u /\ lstart u < lend u /\ lend u <= n).
  { intros u Hu. destruct (cai_units_In l k u Hlen Hk Hu) as (i & Hi & E1 & E2).
    destruct Hl as (? & ? & ? & ?). unfold loc_len in Hlen. lia. }
  assert (H5 : forall i j u v, nth_error (cai_units l) i = Some u -> nth_error (cai_units l) j = Some v ->
            i <> j -> lend u <= lstart v \/ lend v <= lstart u).
  { intros i j u v Hi Hj Hne.
    destruct (cai_units_nth l k i u Hlen Hk Hi) as (_ & A1 & A2).
    destruct (cai_units_nth l k j v Hlen Hk Hj) as (_ & B1 & B2). lia. }
  assert (H6 : forall u s t, In u (cai_units l) -> good space n s -> good space n t ->
            (forall i, lstart u <= i < lend u -> nth_error s (Z.to_nat i) = nth_error t (Z.to_nat i)) ->
            (ugap lf lb u s == ugap lf lb u t)%Q).
  { intros u s t Hu [Hns _] [Hnt _] Hag. destruct (H4 u Hu) as (A & B & C).
    unfold ugap, extract. cbn [lstart lend lstrand]. change (1 =? -1) with false. cbv iota.
    rewrite !MSpaceA.pyslice_slice by lia.
    rewrite (MSpaceA.slice_ext s t (lstart u) (lend u) A Hag). reflexivity. }
  assert (H7 : forall c w s, In c cs ->
            match Specs.localized c w true s with
            | LSome c' => enforced (b_reinit false c' s) = true
            | LNone => True
            | LError => False
            end).
  { intros c w s Hc. exact (Hcs c w s Hc). }
  assert (H8 : snd (b_ev obj (cur _ st)) =
               Some (filter (fun u => negative (ugap lf lb) u (cur _ st)) (cai_units l))).
  { destruct (Hev (cur _ st) (proj1 Hst)) as (e & He & _ & Hlocs). unfold b_ev. rewrite He. exact Hlocs. }
  assert (H9 : forall u s, In u (cai_units l) -> negative (ugap lf lb) u (cur _ st) = true ->
            good space n s -> negative (ugap lf lb) u s = true ->
            unit_searchable spec b_ev Specs.localized b_reinit (fun _ => Some 0%Q) b_boost space n obj
                            (ugap lf lb) cfg u s).
  { intros u s Hu Hneg0 Hg _.
    destruct (Hev (cur _ st) (proj1 Hst)) as (e & He & _ & Hlocs).
    pose proof (Hblock e u s He) as HB. rewrite Hlocs in HB.
    specialize (HB (proj2 (filter_In _ _ _) (conj Hu Hneg0)) Hg).
    destruct HB as (Hsz & Hth & a & b & vs & Hspan & Hla & Hbl & Hvs & t & Ht & Hbest).
    destruct (cai_units_In l k u Hlen Hk Hu) as (i & Hi & E1 & E2).
    destruct (span_in_range space n Hwf Hfit _ _ a b Hspan) as (Ha0 & Hab & Hbn).
    unfold unit_searchable. cbv zeta. split; [exact Hsz|]. split; [exact Hth|].
    set (nl := mkLoc (lstart l + 3 * i) (lstart l + 3 * i + 3) 1).
    exists a, b, (SMaximizeCAI lf lb nl), vs.
    split; [exact Hspan|]. split; [exact Hla|]. split; [exact Hbl|]. split.
    { unfold Specs.localized, obj. cbn [localized_raw].
      rewrite (codon_window_in_codon l k i a b Hlen Hs Hi) by lia. reflexivity. }
    assert (Hsc : forall t', good space n t' -> (fst (b_ev (SMaximizeCAI lf lb nl) t') == ugap lf lb u t')%Q).
    { intros t' [Hn' _].
      assert (Hlnl : loc_len nl = 3 * 1) by (unfold loc_len, nl; cbn [lstart lend]; lia).
      destruct (cai_score_locs lf lb Htf Htb Hfb nl t' 1) as (e' & He' & Hsc' & _);
        [|exact Hlnl|lia|reflexivity|].
      { rewrite Hn'. destruct Hl as (? & ? & ? & ?). unfold loc_len in Hlen. unfold loc_in, nl.
        cbn [lstart lend lstrand]. repeat split; lia. }
      unfold b_ev. rewrite He'. cbn [fst]. rewrite Hsc'.
      unfold qsum_gaps, cai_units. rewrite Hlnl. change (3 * 1 / 3 =? 1) with true. cbv iota.
      cbn [fold_right]. unfold ugap, nl. cbn [lstart lend]. rewrite E1, E2. lra. }
    split.
    { unfold b_reinit, b_boost. split; [reflexivity|]. split; [left; reflexivity|]. split.
      - intros _ t' Hg' _. rewrite (Hsc t' Hg'). apply H1.
      - intros t' Hg' _. rewrite (Hsc t' Hg'), (Hsc s Hg). reflexivity. }
    split; [exact Hvs|]. exists t. split; [exact Ht|].
    assert (Hcb : codon_best lf lb l t i).
    { apply Hbest; [rewrite <- Ek; exact Hi | |]; rewrite (codon_loc_fwd l i Hs); cbn [lstart lend]; lia. }
    destruct Hcb as (f & bb & Hf & Hb & Hfbb).
    rewrite (ugap_codon lf lb l u t i Hs E1 E2). unfold cgap. rewrite Hf, Hb. lra. }
  destruct (optimize_closes_initially_open_gaps spec b_ev Specs.localized b_reinit enforced
              (fun _ => Some 0%Q) b_boost (fun _ => None) space n Hwf Hfit obj (cai_units l) (ugap lf lb) cfg cs
              H1 H2 eq_refl H3 eq_refl H4 H5 H6 H7 passive st o st' Hpas Hst H8 H9 Hopt)
    as (Ho & Hg & _ & Hall).
  pose proof (optimize_outside_initially_open_gaps spec b_ev Specs.localized b_reinit enforced
              (fun _ => Some 0%Q) b_boost (fun _ => None) space n Hwf Hfit obj (cai_units l) (ugap lf lb) cfg cs
              H1 H2 eq_refl H3 eq_refl H4 H5 H6 H7 passive st o st' Hpas Hst H8 H9 Hopt) as Hout.
  split; [exact Ho|]. split; [exact Hg|]. split.
  - intros i Hi.
    destruct (cai_units_has l k i Hlen Hi) as (u & Hu & E1 & E2).
    pose proof (Hall u Hu) as Hz. rewrite (ugap_codon lf lb l u _ i Hs E1 E2) in Hz.
    destruct Hg as [Hn _].
    destruct (codon_entries lf lb Htf Htb l (cur _ st') k i) as (f & bb & Hf & Hb & Hc);
      [rewrite Hn; exact Hl | exact Hlen | exact Hs | exact Hi|].
    exists f, bb. split; [exact Hf|]. split; [exact Hb|]. lra.
  - intros i Hi Hni. apply Hout; [exact Hi|].
    intros u Hu. apply filter_In in Hu. destruct Hu as [Hu _].
    destruct (cai_units_In l k u Hlen Hk Hu) as (j & Hj & E1 & E2).
    unfold loc_len in Hlen. lia.
Qed.

Theorem cai_optimize_reaches_every_codon_best_partial :
  forall (lf lb : list (dna * Q)) (l : loc) (space : mspace) (n : Z) (cfg : settings) (cs : list spec)
         (enforced passive : spec -> bool) st o st',
    wf_space space -> (forall c, In c (choices_list space) -> cend c <= n) ->
    wf_spec (SMaximizeCAI lf lb l) n -> lstrand l = 1 ->
    (forall c f b, qassoc c lf = Some f -> qassoc c lb = Some b -> (f <= b)%Q) ->
    (forall c w s, In c cs ->
       match Specs.localized c w true s with
       | LSome c' => enforced c' = true
       | LNone => True
       | LError => False
       end) ->
    passive (SMaximizeCAI lf lb l) = false ->
    state_good spec space n st ->
    (forall e B s, Specs.evaluate (SMaximizeCAI lf lb l) (cur _ st) = Some e ->
       In B (match locs e with Some ls => ls | None => [] end) -> good space n s ->
       block_searchable space n cfg lf lb l B s) ->
    optimize spec b_ev Specs.localized b_reinit enforced (fun _ => Some 0%Q) b_boost passive (fun _ => None)
             cfg space cs [SMaximizeCAI lf lb l] st = (o, st') ->
    o = ODone /\ good space n (cur _ st') /\
    forall i, 0 <= i < loc_len l / 3 -> codon_best lf lb l (cur _ st') i.
Proof.
  intros lf lb l space n cfg cs enforced passive st o st' Hwf Hfit Hspec Hs Hfb Hcs Hpas Hst Hblock Hopt.
  destruct (cai_optimize_reaches_every_codon_best_outside_partial lf lb l space n cfg cs enforced passive st o st'
              Hwf Hfit Hspec Hs Hfb Hcs Hpas Hst Hblock Hopt) as (A & B & C & _).
  split; [exact A|]. split; [exact B | exact C].
Qed.

(* Why the synonymous-codon space of EnforceTranslation satisfies [block_searchable].
   Let space be the mutation space built from the restrictions of EnforceTranslation on the same gene l
   (forward strand): by restrict_translation_Forall (Proofs/SpecsCodon.v) it has one choice per codon i,
   std_choice (codon_loc l i) (back_codons T aa_i): segment [lstart l + 3i, lstart l + 3i + 3), variants =
   the codons of amino acid aa_i.  A reported block B is one sub-optimal codon i
   (reported_locations_are_single_codons).  ms_localized space (lstart B) (lend B) keeps the index cells
   lstart B .. lend B - 1, i.e. exactly that one choice.  When logbest gives every codon the best
   log-frequency among its synonyms, a codon that is sub-optimal at the start has a strictly better
   synonym, so its amino acid has >= 2 codons and the choice is a multi-variant choice; hence
     - space_size_exact = number of synonyms of aa_i, between 2 and 6: <> 0 and < st_threshold
       (10000 by default);
     - choices_span = Some (lstart B, lend B), so lstart B <= a and b <= lend B hold with equality;
     - all_variants lspace s (for any s in the space) = the sequences obtained from s by writing each
       synonym of aa_i on codon i (all_variants_spec, Proofs/MSpaceB.v); one of them carries a
       most-frequent synonym, for which qassoc _ lf == qassoc _ lb: codon_best lf lb l t i, and i is
       the only codon inside B.
   The statement speaks of the space only (size, threshold, span, variants of its localization at B); it
   does not mention the solver's result.  (For an amino acid with a single codon - M, W - the choice
   has one variant and the local space is frozen, choices_span = None; such a codon is never
   sub-optimal, so it is never a reported block and the hypothesis does not speak about it.) *)
